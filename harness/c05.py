"""C05 - malformed or hostile message bytes are rejected in bounded time.  Correspondence + oracle harness.

Every decode of the real code runs
  * with every entry of `marshal.unmarshallers` wrapped by a counter (monkey-patched in this process,
    restored afterwards; /repo is not touched) - the count is the implementation's `steps`;
  * under a step budget (a decode that exceeds the proved bound is aborted and reported, not waited for),
  * under a wall-clock alarm (setitimer) so that a decode that never returns is reported instead of hanging,
  * with the recursion limit set to `RECURSION_ROOM` frames above the call (so that Python's own
    RecursionError is reproducible).

  S3 correspondence   Lean cost model (drv_c05) vs implementation: outcome (ok / exception class), consumed
                      bytes, number of unmarshaller invocations (equal), result nodes <= model size;
                      implementation steps <= the proved bound printed by the driver.
                      Stream `cost-vs-code-vs-impl` (extension 2026-09-30): every `unmarshal` case of the other streams (hostile
                      and valid alike, data <= 2 KB) is ALSO given to the driver's `x` command, which runs both hand models
                      of the decoder at the fuels of theorem `cost_agrees_with_code` - the cost model and the value model
                      `Code.unmarshal` of C01 / C02 - and the three verdicts (cost model, value model, real decoder) are
                      compared: outcome, consumed bytes, number of top-level values, number of objects in them, and the
                      exception class (a difference of class is a disagreement unless the tree raises its own
                      MarshallingError where the models say a built-in exception escapes: hardening).  Where the driver
                      binary of C01 is present and not older than any source in its import closure, the same inputs go through `drv_c01 unmarshal` as well (the
                      value model as C01 itself runs it, fuel 300) and its verdict is compared with the one above.
                      State-leak round 2026-09-30 (STATE_AUDIT G8 iii / v): HISTORIES in one process, nothing re-imported,
                      every step judged by the same oracle and the same correspondence as a single case -
                      `poison-then-valid`: per fresh random signature S: valid decode, failing variants of the SAME signature
                      (truncations, mutations, lying lengths, a faulted signature on the same bytes), the valid one again,
                      the suffixes of S, `(S)`, `a(S)`, the valid one again; and a zero-size-element twin (`a` + a fresh
                      zero-size element type) presented several times around it;  `same-bytes-two-fds`: the same bytes under
                      descriptor list A, list B, a short list, None, A again (the decoded descriptors must come from THIS
                      call's list);  `cumulative-growth` (oracle only): 20,000 pairwise DISTINCT hostile inputs (top-level
                      signature, signature inside a variant, body signature of a message) - every one within its step budget,
                      and what the process retains afterwards must not grow with their number.
                      A violation found inside a history is stored with the whole history up to the failing step.
  S4 property oracle  (implementation only) the decode returns or raises an ordinary Exception within
                      K*(len+1) counted invocations (K from the proved bound: longest signature in play + 2),
                      the result has at most steps+1 nodes and its strings together at most len(data)
                      characters.  MemoryError / budget exceeded / alarm = violation.
"""
import gc
import json
import os
import resource
import signal
import struct
import subprocess
import sys
import time

STREAMS = ['unmarshal-valid-truncated-mutated', 'message-truncated-mutated', 'lying-lengths',
           'hostile-signatures', 'hostile-message-signature', 'huge-lengths', 'random-bytes', 'scaling',
           'cost-vs-code-vs-impl', 'poison-then-valid', 'same-bytes-two-fds', 'cumulative-growth']
THEOREMS = ['tables_good', 'unmarshal_fuel_adequate', 'unmarshal_steps_linear', 'unmarshal_work_linear',
            'unmarshal_depth_bounded', 'result_size_bounded', 'result_chars_bounded', 'unmarshal_bounded',
            'parseMessage_total', 'parseMessage_work_linear', 'prefix_array_loop_never_terminates',
            'cost_agrees_with_code', 'cost_simulates_code', 'code_fuel_adequate', 'code_fuel_monotone', 'code_fuel_independent',
            'code_result_bounded']
TRUSTED_BASE = [
    'Python semantics mirrored by hand in Wire/Cost.lean and validated only by the streams: struct.unpack_from '
    'bounds rule (offset + size <= len), slice clamping, codecs.decode utf-8/ascii (Wire/Utf8.lean), generator '
    'protocol of genCompleteTypes incl. PEP 479, dict construction from a{..} items (IndexError / unhashable key), '
    'truthiness of the signature header field; the literals 255 (signature field), b"l" = 108, 8 (header padding), '
    'widths 4/4/1 of the three length fields',
    'tools/tables/c05_wire.py: alignment table, kind of every unmarshallers entry (classified by behaviour on probes, '
    'incl. lying lengths that pin width / byte order / unsignedness), header signature, accepted message types, header code '
    'of `signature` (the last three through harness/c03_probe.py: public behaviour, private names as fast path)',
    'the measure of work: `steps` = invocations of marshal.unmarshallers entries (counted by wrapping them), `work` = steps '
    '+ len(ct) per invocation + data bytes sliced by string / signature reads + characters genCompleteTypes touches per '
    'piece (Cost.firstCost, mirrored by piece_cost).  Unit costs of CPython primitives (a slice is O(its length), '
    'list.append amortised O(1), struct.unpack_from O(1)) are assumed; they are checked only by the CPU-time scaling '
    'oracle of the thorough tier (n vs 4n up to 1 MB)',
    'the factor K = 257 of the step budget is a constant derived from the Lean proof (longest wire signature + 2), not from '
    'the property statement; the worst generated case needs ~16 invocations per byte',
    'composition with C01 / C02 (cost_agrees_with_code): the value model Wire/Code.lean and its tables Gen/Wire.lean, '
    'Gen/Validators.lean are now inside this property\'s import closure (read-only; owned by C01 / C18); the two sets of '
    'tables are related inside Lean by decide-checked, order-independent checks (CostVsCode.alignOk / kindOk)',
]
ASSUMPTIONS = [
    "reading of 'never recurses without bound': nesting depth is bounded by the INPUT (theorem unmarshal_depth_bounded: "
    '<= |sig| + bytes; through variants one level per 3 bytes), not by a constant; on CPython a decode nested deeper than '
    '~330 levels (1 KB of nested variants) answers RecursionError.  RecursionError counts as an ordinary exception "that '
    'costs the peer only its own connection": it propagates out of parseMessage to protocol.py rawDBusMessageReceived -> '
    'dataReceived (bus.py: BusProtocol.rawDBusMessageReceived likewise), where Twisted drops the connection.  Those '
    'landing sites are not modelled here (framing is C04); the harness checks that importing txdbus does not raise '
    'sys.getrecursionlimit()',
    'oobFDs: the empty list, a list of descriptor numbers (also shorter than the indices used) and None (the public '
    "default of marshal.unmarshal: 'h' then raises TypeError) are modelled and run; descriptor passing itself is C20",
    'offsets are non-negative; the data object is bytes',
    "Python's recursion limit is canonicalised: a decode whose frame estimate comes within 80 frames of the limit may "
    'answer RecursionError instead of the modelled outcome (frame estimate measured on CPython 3.12)',
    'a signature header field that is not a str, or longer than 255 characters, is rejected by the repaired parseMessage',
    'S3 compares ok / error, consumed bytes and - when both return - steps, work (equal) and result size; when both raise, '
    'the implementation may stop earlier than the model and the exception class is only recorded (ctx.stat '
    "'error-class-drift'): hardening the decoder (MarshallingError instead of struct.error, earlier rejection) is not a "
    'disagreement.  A hardening that REJECTS input the model decodes (array > 2^26, missing NUL) is: the model mirrors the '
    'code and has to follow such a change',
    'stream cost-vs-code-vs-impl is stricter about the exception class than the older streams: both models are proved to '
    'raise the same class (cost_agrees_with_code), and the stream demands that class of the implementation too, except for '
    'the one allowed hardening (the tree\'s own MarshallingError, or a subclass, instead of a built-in exception)',
    "reading of 'costs the peer only its own connection' / 'never builds data unrelated in size to the input' for state that "
    'outlives a decode (stream cumulative-growth): what the process retains after decoding N pairwise distinct hostile inputs '
    'must not grow with N (key decode-state-grows-without-bound: >= 0.25 memory blocks per input between input 5,000 and '
    '20,000); a bounded cache is allowed.  Steps of a history (poison-then-valid, same-bytes-two-fds) are judged like single '
    'cases: no later outcome is required to equal an earlier one',
]
RULE = ('valid (signature, value) pairs (13 basic codes incl. h, variants, arrays, dicts, structs; depth <= 3) and valid '
        'messages in both byte orders are generated from the repo\'s own marshaller, then: every truncation; per byte position '
        'about 10 substitute values (bit flip, +-1, 0, 255, type-code characters) - all positions in the thorough tier, a seeded '
        'sample in the quick tier; every length field (found by running the real decoder) replaced by 26 boundary values; '
        'grammar-directed hostile signatures at top level, inside variants and as body signature; large inputs (6 KB with the '
        'model, 16 KB - 1 MB oracle-only at n and 4n); distinct = distinct (stream, entry point, signature, data); non-trivial = '
        'the decode performs at least 2 unmarshaller invocations')

RECURSION_ROOM = 1000
GREY = 80
ALARM_S = 60.0
SLICE_FACTOR = 8            # sliced bytes allowed per input byte (on /repo: <= 2: the three message slices + the strings)
GROWTH_LIMIT = 0.25         # retained memory blocks per decoded input (on /repo: < 0.002; an unbounded memo: >= 1)
MEMORY_ROOM = 768 << 20      # address space a single decode may add (bytes) before MemoryError


def vm_size():
    with open('/proc/self/statm') as f:
        return int(f.read().split()[0]) * resource.getpagesize()


# ------------------------------------------------------------------ instrumentation
class Abort(BaseException):
    """Raised inside the decode (not an Exception: nothing in the decode path may swallow it)."""


class BudgetExceeded(Abort):
    pass


class Alarm(Abort):
    pass


def piece_cost(rest_len, piece):
    """Mirror of Cost.firstCost: what next() of genCompleteTypes touches to produce `piece` from a remaining
    signature of length `rest_len`."""
    k = 0
    while k < len(piece) and piece[k] == 'a':
        k += 1
    inner = piece[k:]
    cost = 2 * len(inner) if inner[:1] in ('(', '{') else 1
    for j in range(k):
        cost += (rest_len - j - 1) + (len(piece) - j)
    return cost


SLICED = [0]


class CountingBytes(bytes):
    """The message as the decoder gets it: bytes that record how many bytes are copied out of them by slicing (slices
    of slices included).  struct.unpack_from and codecs.decode take it like any bytes object."""

    def __getitem__(self, key):
        r = bytes.__getitem__(self, key)
        if isinstance(key, slice):
            SLICED[0] += len(r)
            return CountingBytes(r)
        return r


class Counter:
    """Counts invocations of the entries of marshal.unmarshallers (`n`), and `work` = the mirror of Cost's `work`:
    per invocation 1 + len(ct) + the data bytes a string / signature / variant-signature read slices (computed from
    the arguments), per piece produced by the top-level genCompleteTypes generator `piece_cost`."""

    def __init__(self, marshal):
        self.marshal = marshal
        self.n = 0
        self.work = 0
        self.budget = None
        self.saved = None
        self.saved_gen = None
        self.in_gen = False
        self.nested = 0         # nested genCompleteTypes generators created (one per leading 'a' on correct code)
        self.L = 255            # longest signature in play for the current case

    def install(self):
        self.saved = dict(self.marshal.unmarshallers)
        me = self

        def wrap(key, f):
            def counted(*args, **kwargs):        # however the tree calls its readers (positional today)
                me.n += 1
                if me.budget is not None and me.n > me.budget:
                    raise BudgetExceeded()
                w = 1
                try:
                    ct, data, offset, lendian = (list(args) + [None] * 4)[:4]
                    ct = kwargs.get('ct', ct)
                    data = kwargs.get('data', data)
                    offset = kwargs.get('offset', offset)
                    lendian = kwargs.get('lendian', lendian)
                    w += len(ct)
                    n = len(data)
                    if key in 'so' and 0 <= offset and offset + 4 <= n:
                        slen = struct.unpack_from('<I' if lendian else '>I', data, offset)[0]
                        w += max(0, min(slen, n - offset - 4))
                    elif key in 'gv' and 0 <= offset and offset + 1 <= n:
                        w += max(0, min(data[offset], n - offset - 1))
                except Exception:
                    pass
                me.work += w
                return f(*args, **kwargs)
            return counted
        for k, f in self.saved.items():
            self.marshal.unmarshallers[k] = wrap(k, f)
        orig = self.saved_gen = self.marshal.genCompleteTypes

        def gen(sig, *args, **kwargs):        # extra (private) parameters of the tree's generator are passed through
            if me.in_gen:                 # the nested generator of a leading 'a': its cost is part of the piece's
                # correct code creates one per leading 'a' of the piece being produced, and every piece produced is
                # followed by an invocation: anything beyond (invocations + 2) * (L + 1) is a splitter running away
                me.nested += 1
                if me.budget is not None and me.nested > (me.n + 2) * (me.L + 1):
                    me.reason = 'splitter'
                    raise BudgetExceeded()
                return orig(sig, *args, **kwargs)

            def pieces():
                it = orig(sig, *args, **kwargs)
                pos = 0
                while True:
                    me.in_gen = True
                    try:
                        piece = next(it)
                    except StopIteration:
                        return
                    finally:
                        me.in_gen = False
                    try:
                        me.work += piece_cost(len(sig) - pos, piece)
                        pos += len(piece)
                    except Exception:
                        pass
                    yield piece
            return pieces()
        self.marshal.genCompleteTypes = gen

    def restore(self):
        if self.saved is not None:
            for k in list(self.marshal.unmarshallers):
                if k in self.saved:
                    self.marshal.unmarshallers[k] = self.saved[k]
            self.saved = None
        if self.saved_gen is not None:
            self.marshal.genCompleteTypes = self.saved_gen
            self.saved_gen = None
        self.in_gen = False


def _on_alarm(signum, frame):
    raise Alarm()


def stack_depth():
    f = sys._getframe()
    n = 0
    while f is not None:
        n += 1
        f = f.f_back
    return n


def exc_name(e):
    if isinstance(e, struct.error):
        return 'struct.error'
    return type(e).__name__


def nodes(v):
    """(number of nodes, total characters of strings) of a decoded value."""
    n, chars = 0, 0
    stack = [v]
    while stack:
        x = stack.pop()
        n += 1
        if isinstance(x, str):
            chars += len(x)
        elif isinstance(x, (list, tuple)):
            stack.extend(x)
        elif isinstance(x, dict):
            for k, w in x.items():
                stack.append(k)
                stack.append(w)
    return n, chars


def guarded(counter, budget, fn, room=None):
    """Run fn() instrumented.  Returns dict(status, steps, value) ; status: ok | err:<Class> | BUDGET | ALARM | MEMORY."""
    global ALARM_S
    counter.n = 0
    counter.work = 0
    counter.in_gen = False
    counter.nested = 0
    counter.reason = None
    SLICED[0] = 0
    counter.budget = budget
    old_limit = sys.getrecursionlimit()
    old_handler = signal.signal(signal.SIGALRM, _on_alarm)
    signal.setitimer(signal.ITIMER_REAL, ALARM_S)
    sys.setrecursionlimit(stack_depth() + (RECURSION_ROOM if room is None else room))
    soft, hard = resource.getrlimit(resource.RLIMIT_AS)
    cap = vm_size() + MEMORY_ROOM
    if hard != resource.RLIM_INFINITY:
        cap = min(cap, hard)
    resource.setrlimit(resource.RLIMIT_AS, (cap, hard))
    t0 = time.process_time()
    own = False         # the exception is the tree's own MarshallingError (or a subclass of it)
    try:
        try:
            v = fn()
            st = 'ok'
        except BudgetExceeded:
            v, st = None, 'BUDGET'
        except Alarm:
            v, st = None, 'ALARM'
            ALARM_S = max(ALARM_S / 2, 4.0)     # a tree that hangs is not waited for again and again
        except MemoryError:
            v, st = None, 'MEMORY'
        except Exception as e:      # RecursionError is an Exception
            v, st = None, 'err:' + exc_name(e)
            own = any(k.__name__ == 'MarshallingError' for k in type(e).__mro__)
    finally:
        resource.setrlimit(resource.RLIMIT_AS, (soft, hard))
        signal.setitimer(signal.ITIMER_REAL, 0)
        signal.signal(signal.SIGALRM, old_handler)
        sys.setrecursionlimit(old_limit)
        counter.budget = None
    return {'status': st, 'steps': counter.n, 'work': counter.work, 'value': v, 'cpu': time.process_time() - t0,
            'sliced': SLICED[0], 'nested': counter.nested, 'reason': counter.reason, 'own_error': own}


# ------------------------------------------------------------------ encoding of cases for the driver
def strhex(s):
    return ''.join('%06x' % ord(c) for c in s) if s else '-'


def byteshex(b):
    return bytes(b).hex() if b else '-'


def fds_token(fds):
    if fds is None:
        return 'N'
    return ','.join(str(x) for x in fds) if fds else '-'


def case_line(c):
    if c['op'] == 'u':
        return 'u 1 %d %d %s %s %s' % (1 if c['le'] else 0, c['off'], fds_token(c.get('fds', [])), strhex(c['sig']),
                                       byteshex(c['data']))
    return 'p 1 %s %s' % (fds_token(c.get('fds', [])), byteshex(c['data']))


XSTREAM = 'cost-vs-code-vs-impl'
XMAX = 2048         # bytes of data up to which a case also goes to the `x` command (both list-based models are quadratic)


def x_line(c):
    """the driver's `x` command: cost model and value model (Wire/Code.lean) on the same unmarshal case."""
    return 'x %d %d %s %s %s' % (1 if c['le'] else 0, c['off'], fds_token(c.get('fds', [])), strhex(c['sig']),
                                 byteshex(c['data']))


def c01_line(c):
    """the same case in the line protocol of Driver/WireOps.lean (drv_c01 / drv_c02): descriptors as a list of plain ints."""
    fds = c.get('fds', [])
    fv = 'N' if fds is None else 'L %d' % len(fds) + ''.join(' i %d' % x for x in fds)
    return 'unmarshal %s %d %s %s %s' % (strhex(c['sig']), c['off'], 'L' if c['le'] else 'B', byteshex(c['data']), fv)


C01_NAMES = {'UnicodeError': 'UnicodeDecodeError'}


def lean_closure(lean, root):
    """source files of the transitive imports of module `root` inside this package (TxdbusModel.*, Driver.*)."""
    import re
    seen, todo, files = set(), [root], []
    while todo:
        m = todo.pop()
        if m in seen:
            continue
        seen.add(m)
        f = os.path.join(lean, *m.split('.')) + '.lean'
        if not os.path.exists(f):
            continue
        files.append(f)
        with open(f, encoding='utf-8') as fh:
            for line in fh:
                mm = re.match(r'\s*(?:public\s+)?import\s+([A-Za-z0-9_.]+)', line)
                if mm and (mm.group(1).startswith('TxdbusModel.') or mm.group(1).startswith('Driver.')):
                    todo.append(mm.group(1))
    return files


def c01_verdict(line):
    """(`ok` | `err:<Class>`, consumed) from a reply of drv_c01; None when it cannot be read."""
    w = line.split()
    if len(w) >= 2 and w[0] == 'ok' and w[1].isdigit():
        return 'ok', int(w[1])
    if len(w) == 2 and w[0] == 'err':
        return 'err:' + C01_NAMES.get(w[1], w[1]), 0
    return None


def case_json(c):
    d = {'op': c['op'], 'data': bytes(c['data']).hex()}
    if c['op'] == 'u':
        d.update(sig=c['sig'], off=c['off'], le=bool(c['le']))
    if c.get('fds', []) != []:
        d['fds'] = c['fds']
    return d


def history_json(c):
    """the replay input of a case that is a step of a history: all steps up to and including it (a leak through
    process state does not reproduce from the failing step alone)."""
    h = c.get('hist')
    if not h:
        return None
    return {'op': 'history', 'cases': [case_json(x) for x in h[:c['hidx'] + 1]]}


def as_history(cases):
    for i, c in enumerate(cases):
        c['hist'] = cases
        c['hidx'] = i
    return cases


def case_from_json(d):
    c = {'op': d['op'], 'data': bytes.fromhex(d['data'])}
    if d['op'] == 'u':
        c.update(sig=d['sig'], off=int(d.get('off', 0)), le=bool(d.get('le', True)))
    if 'fds' in d:
        c['fds'] = d['fds']
    return c


# ------------------------------------------------------------------ proved bounds (mirrors Cost.stepBound / parseStepBound)
def step_bound(c):
    """Cost.stepBound / Cost.parseStepBound: the factor K = (longest signature in play) + 2 = 257 for wire signatures is
    a constant derived from the Lean proof, not from the property statement; the worst generated case needs ~16 per byte."""
    n = len(c['data'])
    if c['op'] == 'u':
        L = max(len(c['sig']), 255)
        return len(c['sig']) + (L + 2) * max(n - c['off'], 0) + 1
    return HEADER_LEN + 255 + (max(HEADER_LEN, 255) + 2) * n + 2


def work_bound(c):
    """Cost.workBound / Cost.parseWorkBound."""
    n = len(c['data'])
    if c['op'] == 'u':
        L = max(len(c['sig']), 255)
        return ((L + 1) ** 2 + L + 1) * step_bound(c) + max(n - c['off'], 0) + (L + 1) ** 2
    L = max(HEADER_LEN, 255)
    return ((L + 1) ** 2 + L + 1) * step_bound(c) + 3 * n + (L + 1) ** 2


HEADER_LEN = 11     # length of the header signature; set by locate() in run()
HSIG = 'yyyyuua(yv)'  # the header signature, located through public behaviour (harness/c03_probe.py)
SIGCODE = 8         # header field code of the body signature, located the same way


# ------------------------------------------------------------------ generators: valid values
BASIC = 'ybnqiuxtdsogh'


def gen_type(rng, depth):
    r = rng.random()
    if depth <= 0 or r < 0.45:
        return rng.choice(BASIC)
    if r < 0.55:
        return 'v'
    if r < 0.75:
        return 'a' + gen_type(rng, depth - 1)
    if r < 0.9:
        return '(' + ''.join(gen_type(rng, depth - 1) for _ in range(rng.randint(1, 3))) + ')'
    return 'a{' + rng.choice(BASIC) + gen_type(rng, depth - 1) + '}'


def split_types(marshal, sig):
    return list(marshal.genCompleteTypes(sig))


def gen_string(rng):
    k = rng.choice([0, 1, 2, 3, 5, 8, 13])
    return ''.join(rng.choice(['a', 'Z', '0', '/', '_', 'é', '€', '\U0001f600']) for _ in range(k))


def gen_value(rng, marshal, t):
    c = t[0]
    if c == 'y':
        return rng.choice([0, 1, 255, rng.randrange(256)])
    if c == 'b':
        return rng.random() < 0.5
    if c == 'n':
        return rng.choice([0, -1, 32767, -32768, rng.randrange(-32768, 32768)])
    if c == 'q':
        return rng.choice([0, 65535, rng.randrange(65536)])
    if c == 'i':
        return rng.choice([0, -1, 2 ** 31 - 1, -2 ** 31, rng.randrange(-2 ** 31, 2 ** 31)])
    if c == 'u':
        return rng.choice([0, 2 ** 32 - 1, rng.randrange(2 ** 32)])
    if c == 'x':
        return rng.choice([0, -1, 2 ** 63 - 1, -2 ** 63, rng.randrange(-2 ** 63, 2 ** 63)])
    if c == 't':
        return rng.choice([0, 2 ** 64 - 1, rng.randrange(2 ** 64)])
    if c == 'h':
        return rng.choice([0, 3, 7, 255])
    if c == 'd':
        return rng.choice([0.0, -0.0, 1.5, -2.25, 1e300, float('inf')])
    if c == 's':
        return gen_string(rng)
    if c == 'o':
        return rng.choice(['/', '/a', '/org/freedesktop/DBus', '/a/b_1'])
    if c == 'g':
        return rng.choice(['', 'i', 'a{sv}', '(ii)', 'as', 'v'])
    if c == 'v':
        return rng.choice([lambda: rng.randrange(1000), lambda: gen_string(rng) or 'x', lambda: True,
                           lambda: [1, 2, 3], lambda: ['a', 'b'], lambda: marshal.Byte(7),
                           lambda: marshal.UInt64(2 ** 40), lambda: {'k': 1}, lambda: 1.5,
                           lambda: marshal.ObjectPath('/x'), lambda: marshal.Signature('ai'),
                           lambda: (1, 'x')])()
    if c == 'a':
        et = t[1:]
        n = rng.choice([0, 0, 1, 2, 3, 5])
        if et[0] == '{':
            kt, vt = split_types(marshal, et[1:-1])
            d = {}
            for _ in range(n):
                k = gen_value(rng, marshal, kt)
                d[k] = gen_value(rng, marshal, vt)
            return d
        return [gen_value(rng, marshal, et) for _ in range(n)]
    if c == '(':
        return [gen_value(rng, marshal, ft) for ft in split_types(marshal, t[1:-1])]
    raise ValueError(t)


def gen_valid(rng, marshal):
    """(sig, le, off, data, fds) with data[off:] a valid encoding of random values of sig; fds = the descriptor list
    the UNIX_FD values index into (as the decoder gets it), sometimes cut short, empty or None (the public default)."""
    k = rng.choice([1, 1, 2, 3])
    types = [gen_type(rng, rng.choice([0, 1, 2, 3])) for _ in range(k)]
    sig = ''.join(types)
    vals = [gen_value(rng, marshal, t) for t in types]
    le = rng.random() < 0.7
    off = rng.choice([0, 0, 0, 8, 16, 3, 5])
    fds = []
    n, chunks = marshal.marshal(sig, vals, off, le, fds)
    if fds:
        r = rng.random()
        if r < 0.15:
            fds = None
        elif r < 0.3:
            fds = fds[:rng.randrange(len(fds))]
    elif rng.random() < 0.05:
        fds = None
    return sig, le, off, b'\0' * off + b''.join(chunks), fds


def gen_message(rng, marshal, message):
    sigs = [None, 'i', 's', 'as', 'a{sv}', '(is)', 'v', 'ay', 'a(ii)', 'xd', 'aai', 'sa{s(iv)}', 'g', 'o']
    sig = rng.choice(sigs)
    kind = rng.randrange(4)
    fds = None
    if kind == 0 and rng.random() < 0.15:
        sig = rng.choice(['h', 'ah', '(sh)', 'a{sh}'])
        fds = []
    body = None
    if sig is not None:
        body = [gen_value(rng, marshal, t) for t in split_types(marshal, sig)]
    if kind == 0:
        m = message.MethodCallMessage('/org/x/Obj', 'Method', interface=rng.choice([None, 'org.x.Iface']),
                                      destination=rng.choice([None, 'org.x.Dest', ':1.42']),
                                      signature=sig, body=body, expectReply=rng.random() < 0.5,
                                      autoStart=rng.random() < 0.5, oobFDs=fds)
    elif kind == 1:
        m = message.MethodReturnMessage(rng.randrange(1, 2 ** 32), body=body, destination=rng.choice([None, ':1.7']),
                                        signature=sig)
    elif kind == 2:
        m = message.ErrorMessage('org.x.Error.Failed', rng.randrange(1, 1000), destination=rng.choice([None, ':1.7']),
                                 signature=sig, body=body)
    else:
        m = message.SignalMessage('/org/x/Obj', 'Changed', 'org.x.Iface', signature=sig, body=body)
    raw = m.rawMessage
    if fds is None and rng.random() < 0.4:      # the same message in big-endian (the library always encodes the body little-endian)
        try:
            raw = big_endian_message(marshal, raw, sig, body) or raw
        except Exception:
            pass
    # parseMessage always gets a list (protocol.py passes its own): the right one, one cut short, or []
    if fds:
        r = rng.random()
        dec = [] if r < 0.15 else fds[:rng.randrange(len(fds))] if r < 0.3 else list(fds)
    else:
        dec = []
    return raw, dec


# ------------------------------------------------------------------ generators: hostile signatures
def hostile_sigs(rng, thorough):
    out = ['', 'a', 'aa', '()', '{}', '(())', 'a()', 'a{}', 'a(())', 'a(()())', 'aa()', 'a(a())', '(', ')', '{', '}',
           '((', '(()', 'a(', 'a{', 'a(i', '(i', 'i)', 'i}', '{i', 'z', 'az', '(z)', 'a(z)', 'iz', 'ia', 'i(', 'a)',
           'a}', 'ay', 'aay', 'aaay', 'a(y)', 'a(yy)', 'a{yy}', 'a{y}', 'a{ayy}', 'a{(y)y}', 'a{vy}', 'a{yv}', 'v',
           'vv', 'av', 'a(v)', '(v)', 'a(yv)', 'yyyyuua(yv)', 's', 'as', 'a(s)', 'a(s())', 'a(()s)', 'g', 'ag', 'o',
           'ao', 'h', 'ah', 'a(h)', 'b', 'ab', 'd', 'ad', 'a(y()()())', 'a(()y)', 'a({}y)', 'a{()y}', '(y)(y)',
           '()()()()', '(()())', '{()}', 'a{}y', 'a()y', 'y' * 40, '()' * 20, 'iié', 'é', 'aé',
           'header', 'a' * 8 + 'y', '(' * 8 + 'y' + ')' * 8, '{' * 4 + 'y' + '}' * 4, 'a' * 254 + 'y', 'a' * 255,
           '(' * 127 + 'y' + ')' * 127, '(' * 127 + ')' * 127 + 'y', '(' * 128 + ')' * 127, '()' * 127 + 'y',
           'a(' + '()' * 126 + ')', 'a(y' + '()' * 125 + ')', 'a' * 100 + '(' * 70 + 'y' + ')' * 70,
           'v' * 255, 'y' * 255, 'a(' * 80 + 'y' + ')' * 80]
    alphabet = ['a', 'a', '(', ')', '{', '}', 'y', 'i', 's', 'v', 'g', 'x', 'z']
    n = 400 if thorough else 60
    for _ in range(n):
        k = rng.choice([1, 2, 3, 4, 5, 6, 8, 12])
        out.append(''.join(rng.choice(alphabet) for _ in range(k)))
    return out


SIG_ALPHABET = ['a', 'a', '(', ')', '{', '}', 'y', 'i', 's', 'v', 'g', 'x', 'z', '()', '{}', 'a()']


def fault_sig(rng, sig):
    """1-2 grammar faults applied to a (valid) signature: drop / insert / replace a character, cut the tail,
    wrap in an array or struct, insert a zero-size container."""
    s = sig
    for _ in range(rng.choice([1, 1, 2])):
        k = rng.randrange(7)
        i = rng.randrange(len(s) + 1)
        if k == 0 and s:
            j = min(i, len(s) - 1)
            s = s[:j] + s[j + 1:]
        elif k == 1:
            s = s[:i] + rng.choice(SIG_ALPHABET) + s[i:]
        elif k == 2 and s:
            j = min(i, len(s) - 1)
            s = s[:j] + rng.choice(SIG_ALPHABET) + s[j + 1:]
        elif k == 3:
            s = s[:i]
        elif k == 4:
            s = 'a' + s
        elif k == 5:
            s = '(' + s + rng.choice([')', '', '))'])
        else:
            s = s[:i] + rng.choice(['()', '{}', '(())', 'a()', 'a{}']) + s[i:]
    return s


def hostile_data(rng, n):
    kind = rng.randrange(6)
    if kind == 0:
        return b'\0' * n
    if kind == 1:
        return bytes(rng.randrange(256) for _ in range(n))
    if kind == 2:       # small little-endian words: plausible lengths
        return b''.join(struct.pack('<I', rng.choice([0, 1, 2, 4, 8, 16, n, max(n - 4, 0)])) for _ in range((n + 3) // 4))[:n]
    if kind == 3:
        return (struct.pack('<I', rng.choice([1, 4, 8, 16, 64, n])) + b'\0' * n)[:n]
    if kind == 4:       # nested variants / signatures in the data
        b = b''
        while len(b) < n:
            s = rng.choice([b'v', b'y', b'()', b'a()', b'ay', b'(v)', b'', b'av', b'i', b'a(yv)'])
            b += bytes([len(s)]) + s + b'\0'
        return b[:n]
    return (struct.pack('<I', 0xffffffff) + b'\1' * n)[:n]


# ------------------------------------------------------------------ histories (state-leak round)
ZERO_SIZE = ['()', '{}', '(())', '(()())', '({})', '{()()}', '((()))', '(()(()))']


def zero_size_elem(rng):
    """a fresh element type that decodes to nothing: nested empty structs / dict entries."""
    if rng.random() < 0.4:
        return rng.choice(ZERO_SIZE)
    def z(d):
        if d <= 0:
            return rng.choice(['()', '{}'])
        return '(' + ''.join(z(d - 1) for _ in range(rng.randint(1, 2))) + ')'
    return z(rng.randint(1, 4))


def marshal_case(marshal, sig, vals, le, off):
    fds = []
    n, chunks = marshal.marshal(sig, vals, off, le, fds)
    return {'op': 'u', 'sig': sig, 'le': le, 'off': off, 'fds': fds, 'data': b'\0' * off + b''.join(chunks)}


def poison_history(rng, marshal):
    """[valid(S), failing variants of S, valid(S), zero-size twin x2 around it, suffixes of S, (S), a(S), valid(S)]."""
    k = rng.choice([2, 2, 3, 4])
    types = [gen_type(rng, rng.choice([0, 1, 2])) for _ in range(k)]
    if rng.random() < 0.6:                       # an array FOLLOWED by more types: the rest of the signature is split on its own
        types[rng.randrange(k - 1)] = 'a' + gen_type(rng, rng.choice([0, 1]))
    sig = ''.join(types)
    vals = [gen_value(rng, marshal, t) for t in types]
    le = rng.random() < 0.7
    off = rng.choice([0, 0, 8, 3])
    valid = marshal_case(marshal, sig, vals, le, off)
    data = valid['data']
    hist = [dict(valid)]
    for d in truncations(data, rng, 3):
        if len(d) >= off:
            hist.append(dict(valid, data=d))
    for d in byte_mutations(data, rng, 2):
        hist.append(dict(valid, data=d))
    for d in length_lies(data, le, rng, 2):
        hist.append(dict(valid, data=d))
    hist.append(dict(valid, sig=fault_sig(rng, sig)))
    hist.append(dict(valid))
    z = zero_size_elem(rng)
    zsig = rng.choice(['a' + z, 'a' + z + sig, types[0] + 'a' + z, 'aa' + z, 'a(y' + z[1:]]) if z.startswith('(') else 'a' + z
    n = rng.choice([1, 4, 8, 16])
    zdata = b'\0' * off + struct.pack('<I' if le else '>I', n) + b'\0' * 28
    hist.append({'op': 'u', 'sig': 'a' + z, 'le': le, 'off': off, 'data': zdata})
    hist.append({'op': 'u', 'sig': zsig, 'le': le, 'off': off, 'data': zdata})
    hist.append(dict(valid))
    hist.append({'op': 'u', 'sig': 'a' + z, 'le': le, 'off': off, 'data': zdata})
    hist.append({'op': 'u', 'sig': zsig, 'le': le, 'off': off, 'data': zdata})
    for j in range(1, len(types)):               # the suffixes, with fresh valid data
        hist.append(marshal_case(marshal, ''.join(types[j:]), vals[j:], le, off))
    hist.append(marshal_case(marshal, '(' + sig + ')', [list(vals)], le, off))
    hist.append(marshal_case(marshal, 'a(' + sig + ')', [[list(vals), list(vals)]], le, off))
    hist.append(dict(valid))
    return as_history(hist)


def fds_history(rng, marshal):
    """the same bytes under descriptor list A, list B, a short list, None, A again."""
    t = rng.choice(['h', 'ah', '(sh)', 'a{sh}', 'a{hy}', 'a(hh)', 'hvh', '(h(hs))'])
    types = split_types(marshal, t)
    vals = [gen_value(rng, marshal, x) for x in types]
    c = marshal_case(marshal, t, vals, rng.random() < 0.7, rng.choice([0, 8]))
    n = max(len(c['fds']), 1)
    a = [1000003 + i for i in range(n)]
    b = [2000003 + i for i in range(n)]
    hist = [dict(c, fds=a, own=a, foreign=b), dict(c, fds=b, own=b, foreign=a), dict(c, fds=b[:n - 1], own=b, foreign=a),
            dict(c, fds=None), dict(c, fds=[], own=[], foreign=a + b), dict(c, fds=a, own=a, foreign=b)]
    return as_history(hist)


def flat_ints(v, out):
    if isinstance(v, bool):
        return out
    if isinstance(v, int):
        out.append(v)
    elif isinstance(v, (list, tuple)):
        for x in v:
            flat_ints(x, out)
    elif isinstance(v, dict):
        for k, w in v.items():
            flat_ints(k, out)
            flat_ints(w, out)
    return out


GROWTH_ALPHABET = 'a(){}yisvgxzbdh'


def growth_case(rng, i):
    """the i-th of a family of pairwise distinct small hostile inputs."""
    k = rng.choice([2, 3, 4, 6, 8, 12])
    s = ''.join(rng.choice(GROWTH_ALPHABET) for _ in range(k)) + '%x' % i
    data = hostile_data(rng, rng.choice([0, 4, 8, 16]))
    r = i % 3
    if r == 0:
        return {'op': 'u', 'sig': s, 'le': True, 'off': 0, 'data': data}
    sb = s.encode()
    if r == 1:
        return {'op': 'u', 'sig': 'v', 'le': True, 'off': 0, 'data': bytes([len(sb)]) + sb + b'\0' + data}
    return {'op': 'p', 'data': raw_message([f_path, f_member, f_sig_g(s)], data)}


# ------------------------------------------------------------------ hand-made messages
class Enc:
    def __init__(self, le=True):
        self.le = le
        self.b = bytearray()

    def pad(self, a):
        while len(self.b) % a:
            self.b.append(0)

    def u8(self, v):
        self.b.append(v & 255)

    def u32(self, v):
        self.pad(4)
        self.b += struct.pack('<I' if self.le else '>I', v & 0xffffffff)

    def sig(self, s):
        s = s.encode('utf-8') if isinstance(s, str) else s
        self.u8(len(s))
        self.b += s + b'\0'

    def string(self, s, lie=None):
        s = s.encode('utf-8') if isinstance(s, str) else s
        self.u32(len(s) if lie is None else lie)
        self.b += s + b'\0'


def raw_message(fields, body=b'', le=True, mtype=1, flags=0, serial=1, bodylen=None, arrlen=None):
    """fields: list of callables f(enc) writing one (yv) struct (8-aligned by this function)."""
    e = Enc(le)
    e.b += b'l' if le else b'B'
    e.u8(mtype)
    e.u8(flags)
    e.u8(1)
    e.u32(len(body) if bodylen is None else bodylen)
    e.u32(serial)
    e.u32(0)
    start = len(e.b)
    for f in fields:
        e.pad(8)
        f(e)
    n = len(e.b) - start
    struct.pack_into('<I' if le else '>I', e.b, 12, n if arrlen is None else arrlen)
    e.pad(8)
    return bytes(e.b) + body


def f_sig_g(s):
    def f(e):
        e.u8(8)
        e.sig('g')
        e.sig(s)
    return f


def f_sig_s(s, code=8, t='s'):
    def f(e):
        e.u8(code)
        e.sig(t)
        e.string(s)
    return f


def f_raw(code, vsig, payload, align=1):
    def f(e):
        e.u8(code)
        e.sig(vsig)
        e.pad(align)
        e.b += payload
    return f


def f_path(e):
    e.u8(1)
    e.sig('o')
    e.string('/a')


def f_member(e):
    e.u8(3)
    e.sig('s')
    e.string('M')


def quadratic_message(k, kp):
    """body signature 'a(y' + '()'*k + ')' delivered as a STRING header field; kp array elements."""
    sig = 'a(y' + '()' * k + ')'
    body = struct.pack('<I', 8 * kp) + b'\0' * 4 + (b'\x01' + b'\0' * 7) * kp
    return raw_message([f_path, f_member, f_sig_s(sig)], body)


def quadratic_message_as(k, kp):
    """the same, the signature field being an ARRAY OF STRINGS with one element (used as one complete type)."""
    sig = ('a(y' + '()' * k + ')').encode()
    body = struct.pack('<I', 8 * kp) + b'\0' * 4 + (b'\x01' + b'\0' * 7) * kp
    arr = struct.pack('<I', len(sig)) + sig + b'\0'
    return raw_message([f_path, f_member, f_raw(8, 'as', struct.pack('<I', len(arr)) + arr, 4)], body)


def hostile_messages(rng, thorough):
    out = []
    body16 = struct.pack('<I', 8) + b'\0' * 12
    for s in hostile_sigs(rng, thorough):
        if len(s.encode('utf-8')) <= 255:
            out.append(raw_message([f_path, f_member, f_sig_g(s)], body16))
        out.append(raw_message([f_path, f_member, f_sig_s(s)], body16))
    # the signature field as other types
    out.append(raw_message([f_path, f_member, f_raw(8, 'i', struct.pack('<I', 7), 4)], body16))
    out.append(raw_message([f_path, f_member, f_raw(8, 'i', struct.pack('<I', 0), 4)], body16))
    out.append(raw_message([f_path, f_member, f_raw(8, 'd', struct.pack('<d', -0.0), 8)], body16))
    out.append(raw_message([f_path, f_member, f_raw(8, 'd', struct.pack('<d', 2.5), 8)], body16))
    out.append(raw_message([f_path, f_member, f_raw(8, 'b', struct.pack('<I', 1), 4)], body16))
    out.append(raw_message([f_path, f_member, f_raw(8, 'h', struct.pack('<I', 0), 4)], body16))
    out.append(raw_message([f_path, f_member, f_raw(8, 'ay', struct.pack('<I', 0), 4)], body16))
    out.append(raw_message([f_path, f_member, f_raw(8, 'ay', struct.pack('<I', 2) + b'ii', 4)], body16))
    out.append(raw_message([f_path, f_member, f_raw(8, 'as', struct.pack('<I', 6) + struct.pack('<I', 1) + b'i\0', 4)], body16))
    out.append(raw_message([f_path, f_member, f_raw(8, 'as', struct.pack('<I', 12) + struct.pack('<I', 7) + b'a(y()())\0'[:8], 4)], body16))
    out.append(raw_message([f_path, f_member, f_raw(8, '()', b'', 8)], body16))
    out.append(raw_message([f_path, f_member, f_raw(8, '(s)', struct.pack('<I', 1) + b'i\0', 8)], body16))
    out.append(raw_message([f_path, f_member, f_raw(8, 'a{us}', struct.pack('<I', 10) + b'\0' * 4 + struct.pack('<II', 0, 1) + b'i\0', 4)], body16))
    out.append(raw_message([f_path, f_member, f_raw(8, 'v', b'\x01s\0\0' + struct.pack('<I', 1) + b'y\0', 1)], body16))
    out.append(raw_message([f_path, f_member, f_raw(8, 'g', b'\x01i\0'), f_raw(8, 'g', b'\x01y\0')], body16))
    out.append(raw_message([f_path, f_member, f_raw(8, 'g', b'\x01i\0'), f_raw(8, 'g', b'\0\0')], body16))
    out.append(raw_message([f_raw(200, 'g', b'\x01i\0'), f_raw(0, 's', struct.pack('<I', 0) + b'\0', 4)], body16))
    # string-typed signature fields of growing length (quadratic work on an unrepaired tree); small ones here,
    # the large witness is a directed case of its own
    for k, kp in ((10, 4), (120, 8), (126, 30), (200, 20), (400, 40)):
        out.append(quadratic_message(k, kp))
    # 255-character g signatures with many elements
    for sig, elem, n in (('a(y' + '()' * 125 + ')', b'\x01' + b'\0' * 7, 40), ('a' * 254 + 'y', b'', 0),
                         ('a(' + '(' * 120 + 'y' + ')' * 120 + ')', b'\x01' + b'\0' * 7, 30)):
        body = struct.pack('<I', len(elem) * n) + b'\0' * 4 + elem * n
        out.append(raw_message([f_path, f_member, f_sig_g(sig)], body))
    # unknown message types, wrong endian flag, short/long header array lengths
    for mt in (0, 5, 255):
        out.append(raw_message([f_path, f_member], b'', mtype=mt))
    out.append(raw_message([f_path, f_member, f_sig_g('i')], struct.pack('<I', 5), le=False))
    for al in (0, 1, 7, 8, 9, 0x7fffffff, 0xffffffff):
        out.append(raw_message([f_path, f_member, f_sig_g('i')], struct.pack('<I', 5), arrlen=al))
    return out


def resign(raw, rng, k):
    """the same little-endian message with its SIGNATURE header field replaced by a faulted signature (sent as 'g',
    or as 's' to get past 255 characters), body unchanged."""
    if raw[:1] != b'l' or len(raw) < 16:
        return []
    from txdbus import message as _m
    try:
        m = _m.parseMessage(raw, [])
    except Exception:
        return []
    sig = m.signature or ''
    out = []
    for _ in range(k):
        s = fault_sig(rng, sig)
        fields = [f_path, f_member, f_sig_g(s) if len(s.encode()) <= 255 and rng.random() < 0.8 else f_sig_s(s)]
        out.append(raw_message(fields, m.rawBody))
    return out


# ------------------------------------------------------------------ scaling shapes (large inputs)
def scaling_case(shape, nbytes, fault):
    """a valid input of about `nbytes` bytes of the given shape; fault=True spoils its very end (so that a decoder that
    retries / re-scans on failure does all its extra work); fault='all' (shapes with strings) spoils every element."""
    if shape == 'header-fields':
        k = max(nbytes // 8, 1)
        e = Enc(True)
        e.b += b'l\x01\x00\x01'
        e.u32(0)
        e.u32(1)
        e.u32(8 * k - 3)
        e.b += (b'\xc8\x01y\x00\x07\x00\x00\x00') * k
        raw = bytes(e.b[:-3]) + b'\0' * 3         # the last field ends after its value; 3 bytes of header padding
        if fault:
            raw = raw[:-4]
        return {'op': 'p', 'data': raw}
    elem = {'ay': b'\x07', 'as': struct.pack('<I', 3) + b'abc\0', 'a(yv)': b'\x05\x01y\0\x09\0\0\0',
            'a{sv}': struct.pack('<I', 1) + b'k\0\x01i\0\0\0\0' + struct.pack('<I', 7), 'av': b'\x01y\0\x09',
            'a(y()()()())': b'\x01' + b'\0' * 7}[shape]
    if fault == 'all':          # every string of every element is badly encoded
        elem = elem.replace(b'abc', b'a\xffc').replace(b'k\0', b'\xff\0')
    k = max(nbytes // len(elem), 1)
    trailing = {'a(yv)': 3}.get(shape, 0)      # the last element carries no alignment padding
    body = (elem * k)[:len(elem) * k - trailing]
    alen = len(body)
    if fault is True:
        body = body[:-2] + (b'\xff\0' if shape == 'as' else b'')
    pad8 = b'\0' * 4 if shape[1] in '({' else b''
    data = struct.pack('<I', alen) + pad8 + body
    return {'op': 'u', 'sig': shape, 'le': True, 'off': 0, 'data': data}


SCALING_SHAPES = ['ay', 'as', 'a(yv)', 'a{sv}', 'av', 'a(y()()()())', 'header-fields']


# ------------------------------------------------------------------ mutations
LENGTH_VALUES = [0, 1, 2, 3, 4, 7, 8, 9, 15, 16, 255, 256, 0x7fffffff, 0x80000000, 0xfffffffe, 0xffffffff]


def truncations(data, rng, limit):
    idx = list(range(len(data)))
    if limit is not None and len(idx) > limit:
        idx = sorted(rng.sample(idx, limit))
    return [data[:i] for i in idx]


def byte_mutations(data, rng, limit):
    pos = list(range(len(data)))
    if limit is not None and len(pos) > limit:
        pos = sorted(rng.sample(pos, limit))
    out = []
    for i in pos:
        b = data[i]
        choices = {b ^ (1 << rng.randrange(8)), (b + 1) & 255, (b - 1) & 255, 0, 255, 0x61, 0x28, 0x29, 0x76, 0x7b}
        choices.discard(b)
        for v in (sorted(choices) if limit is None else [rng.choice(sorted(choices))]):
            out.append(data[:i] + bytes([v]) + data[i + 1:])
    return out


def length_lies(data, le, rng, limit):
    """overwrite every aligned 4-byte word (and every byte, as a signature length) with boundary values."""
    out = []
    words = list(range(0, max(len(data) - 3, 0), 4))
    if limit is not None and len(words) > limit:
        words = sorted(rng.sample(words, limit))
    n = len(data)
    vals = LENGTH_VALUES + [n, max(n - 1, 0), n + 1, max(n - 4, 0), max(n - 8, 0)]
    for w in words:
        for v in (vals if limit is None else rng.sample(vals, 3)):
            out.append(data[:w] + struct.pack('<I' if le else '>I', v & 0xffffffff) + data[w + 4:])
    return out


TOP16 = list(range(2 ** 32 - 16, 2 ** 32))


def length_fields(marshal, raw, fn):
    """Positions (absolute in `raw`) and widths of EVERY length field the real decoder reads while `fn()` decodes the
    valid input `raw`: 4 bytes for string / object path / array, 1 byte for signature / variant.  (The body of a
    message is decoded from a suffix slice; `len(raw) - len(data)` is its base.)"""
    found = []
    saved = dict(marshal.unmarshallers)
    width = {'s': 4, 'o': 4, 'a': 4, 'g': 1, 'v': 1}      # by DBus type code (the wire format), not by function object

    def wrap(f, w):
        def rec(*args, **kwargs):
            try:
                data = kwargs.get('data', args[1] if len(args) > 1 else None)
                offset = kwargs.get('offset', args[2] if len(args) > 2 else None)
                found.append((len(raw) - len(data) + offset, w))
            except Exception:
                pass
            return f(*args, **kwargs)
        return rec
    try:
        for k, f in saved.items():
            w = width.get(k)
            if w is not None:
                marshal.unmarshallers[k] = wrap(f, w)
        try:
            fn()
        except Exception:
            pass
    finally:
        for k, f in saved.items():
            marshal.unmarshallers[k] = f
    return sorted(set(found))


def field_lies(raw, le, fields, extra=()):
    """every length field replaced, one at a time, by the boundary set
    {0, 1, L-1, L+1, n-1, n, n+1, 2^31-1, 2^31, 2^31+1, 2^32-16 .. 2^32-1} (L its value, n = len(raw));
    one-byte fields by {0, 1, L-1, L+1, 127, 128, 129, 240 .. 255}."""
    out = []
    n = len(raw)
    for pos, w in list(fields) + list(extra):
        if pos < 0 or pos + w > n:
            continue
        if w == 4:
            cur = struct.unpack_from('<I' if le else '>I', raw, pos)[0]
            vals = {0, 1, cur - 1, cur + 1, n - 1, n, n + 1, 2 ** 31 - 1, 2 ** 31, 2 ** 31 + 1} | set(TOP16)
            for v in sorted(x & 0xffffffff for x in vals):
                if v != cur:
                    out.append(raw[:pos] + struct.pack('<I' if le else '>I', v) + raw[pos + 4:])
        else:
            cur = raw[pos]
            vals = {0, 1, cur - 1, cur + 1, 127, 128, 129} | set(range(240, 256))
            for v in sorted(x & 0xff for x in vals):
                if v != cur:
                    out.append(raw[:pos] + bytes([v]) + raw[pos + 1:])
    return out


def big_endian_message(marshal, raw, sig, body):
    """`raw` (a little-endian message built by the library) re-encoded entirely in big-endian byte order.  The header is
    transcoded at the byte level from the wire format alone (fixed part, then the (yv) fields whose variants are o / s / g / u),
    the body is re-marshalled by the library's public marshal() - no private attribute of the message object is touched.
    None when the header holds anything else."""
    le_body = b'' if not sig else b''.join(marshal.marshal(sig, body, 0, False)[1])
    n = struct.unpack_from('<I', raw, 12)[0]
    e = Enc(False)
    e.b += b'B' + raw[1:4]
    e.u32(len(le_body))
    e.u32(struct.unpack_from('<I', raw, 8)[0])
    e.u32(n)
    pos, end = 16, 16 + n
    while pos < end:
        pos += -pos % 8
        e.pad(8)
        code, slen = raw[pos], raw[pos + 1]
        vs = raw[pos + 2: pos + 2 + slen]
        pos += 2 + slen + 1
        e.u8(code)
        e.sig(vs)
        if vs in (b'o', b's'):
            pos += -pos % 4
            ln = struct.unpack_from('<I', raw, pos)[0]
            e.string(raw[pos + 4: pos + 4 + ln])
            pos += 4 + ln + 1
        elif vs == b'g':
            ln = raw[pos]
            e.sig(raw[pos + 1: pos + 1 + ln])
            pos += 1 + ln + 1
        elif vs == b'u':
            pos += -pos % 4
            e.u32(struct.unpack_from('<I', raw, pos)[0])
            pos += 4
        else:
            return None
    if pos != end:
        return None
    e.pad(8)
    return bytes(e.b) + le_body


# ------------------------------------------------------------------ observation + judgement
class Runner:
    def __init__(self, ctx, marshal, message):
        self.ctx = ctx
        self.marshal = marshal
        self.message = message
        self.counter = Counter(marshal)
        self.pending = []       # (stream, case)
        self.frame_ratio = 1.0  # frames the tree under test uses per frame of the model's estimate (calibrate_frames)
        self.c01 = self.locate_c01()   # path of C01's driver binary (read-only use), or None
        self.steps_hook = True  # wrapping marshal.unmarshallers sees the decoder's dispatches
        self.work_hook = True   # wrapping marshal.genCompleteTypes sees the pieces the decoder iterates over

    def locate_c01(self):
        """C01's driver (the value model as C01 / C02 run it), next to this property's own driver.  It is built by C01's
        check, not by this one: used only when it is there and not older than ANY source in the import closure of
        Driver/C01.lean (the tables of the tree under test are regenerated before this harness runs)."""
        ctx = self.ctx
        try:
            bindir = os.path.dirname(ctx.driver_path())
            lean = os.path.dirname(os.path.dirname(os.path.dirname(bindir)))
            exe = os.path.join(bindir, 'drv_c01')
            if not os.path.exists(exe):
                ctx.note('advisory: drv_c01 is not built; the cross-run through C01\'s driver is skipped '
                         '(the value model is still run by this property\'s own driver)')
                return None
            srcs = lean_closure(lean, 'Driver.C01')
            newer = [os.path.relpath(f, lean) for f in srcs if os.path.getmtime(f) > os.path.getmtime(exe)][:4]
            if newer:
                ctx.note('advisory: drv_c01 is older than %s; the cross-run through C01\'s driver is skipped '
                         '(the value model is still run by this property\'s own driver)' % ', '.join(newer))
                return None
            return exe
        except Exception as e:
            ctx.note('advisory: locating drv_c01 failed (%r); cross-run skipped' % (e,))
            return None

    def run_c01(self, cases):
        """verdicts of drv_c01 for `cases` (list of (status, consumed) or None), or None when it is not usable."""
        if self.c01 is None or not cases:
            return None
        try:
            p = subprocess.run([self.c01], input=('\n'.join(c01_line(c) for c in cases) + '\n').encode(),
                               stdout=subprocess.PIPE, stderr=subprocess.DEVNULL, timeout=1800)
            out = p.stdout.decode('utf-8', 'replace').split('\n')
            if out and out[-1] == '':
                out.pop()
            if p.returncode != 0 or len(out) != len(cases):
                raise RuntimeError('rc=%s, %d lines in, %d lines out' % (p.returncode, len(cases), len(out)))
            self.ctx.stat('c01-driver-lines', len(cases))
            return [c01_verdict(ln) for ln in out]
        except Exception as e:
            self.ctx.note('advisory: drv_c01 could not be run (%r); cross-run skipped' % (e,))
            self.c01 = None
            return None

    def check_hooks(self):
        """The counters hang on two module-level names (`marshal.unmarshallers`, `marshal.genCompleteTypes`).  If a tree
        dispatches or splits through something else, the counts are blind - that is the harness's problem, not a finding:
        the comparison of counts is switched off with a note, the other oracles (alarm, memory cap, sliced bytes, result
        size, scaling) stay."""
        c = {'op': 'u', 'sig': 'ay', 'le': True, 'off': 0, 'data': struct.pack('<I', 2) + b'\x07\x09'}
        self.counter.install()
        try:
            o = self.impl(c)
        finally:
            self.counter.restore()
        if o['status'] != 'ok':
            return
        if o['steps'] != 3:
            self.steps_hook = self.work_hook = False
            self.ctx.note('advisory: wrapping marshal.unmarshallers counts %d invocations for unmarshal("ay", 2 bytes) instead '
                          'of 3 - the decoder dispatches through something else; invocation / work counts are not compared '
                          'and the step budget cannot stop a runaway decode (alarm and memory cap still do)' % o['steps'])
        elif o['work'] != 11:
            self.work_hook = False
            self.ctx.note('advisory: wrapping marshal.genCompleteTypes does not see the decoder\'s signature splitting '
                          '(work %d instead of 11 for unmarshal("ay", 2 bytes)); `work` is not compared' % o['work'])

    def calibrate_frames(self):
        """How many interpreter frames one nesting level costs is a property of the tree under test (a helper function
        per level is a harmless refactoring), not of C05.  Measured, not assumed: for four nesting families find the
        smallest depth at which the real decoder answers RecursionError under a limit of 300 frames, ask the model for its
        frame estimate at that depth; ratio = 300 / estimate (1.0 on the tree the estimate was made for)."""
        room = 300
        fams = {
            'struct': lambda d: {'op': 'u', 'sig': '(' * d + 'y' + ')' * d, 'le': True, 'off': 0, 'data': b'\x05'},
            'variant': lambda d: {'op': 'u', 'sig': 'v', 'le': True, 'off': 0, 'data': b'\x01v\0' * d + b'\x01y\0\x07'},
            'array': lambda d: {'op': 'u', 'sig': 'a' * d + 'y', 'le': True, 'off': 0,
                                'data': struct.pack('<I', 4) * d + b'\x01' * 8},
            'generator': lambda d: {'op': 'u', 'sig': 'a' * d, 'le': True, 'off': 0, 'data': b''},
        }
        found = {}
        self.counter.install()
        try:
            for name, mk in fams.items():
                def hits(d):
                    c = mk(d)
                    data = CountingBytes(c['data'])
                    self.counter.L = max(255, len(c['sig']))
                    r = guarded(self.counter, None, lambda: self.marshal.unmarshal(c['sig'], data, 0, True, []), room=room)
                    return r['status'] == 'err:RecursionError'
                lo, hi = 1, 400
                if not hits(hi):
                    continue            # this family does not recurse (any more): nothing to calibrate
                while lo < hi:
                    mid = (lo + hi) // 2
                    if hits(mid):
                        hi = mid
                    else:
                        lo = mid + 1
                found[name] = lo
        finally:
            self.counter.restore()
        if not found:
            return
        try:
            out = self.ctx.model([case_line(fams[n](d)) for n, d in found.items()])
        except Exception:
            out = None
        if not out:
            return
        ratios = {}
        for (n, d), line in zip(found.items(), out):
            m = line.split()
            if len(m) >= 8 and int(m[4]) > 0:
                ratios[n] = room / int(m[4])
                self.ctx.stat('frames %s: RecursionError(limit 300) at depth %d, model estimate %s' % (n, d, m[4]))
        if ratios:
            self.frame_ratio = max(1.0, max(ratios.values()))
            self.ctx.stat('frame-ratio=%.2f' % self.frame_ratio)

    def add(self, stream, case):
        self.pending.append((stream, case))

    def impl(self, c):
        bound = step_bound(c)
        fds = c.get('fds', [])
        if fds is not None:
            fds = list(fds)         # a fresh list per decode: the decoder must not be able to grow the case itself
        data = CountingBytes(c['data'])
        if c['op'] == 'u':
            self.counter.L = max(255, len(c['sig']))
            fn = lambda: self.marshal.unmarshal(c['sig'], data, c['off'], c['le'], fds)
        else:
            self.counter.L = 255
            fn = lambda: self.message.parseMessage(data, fds)
        r = guarded(self.counter, bound + 1, fn)
        obs = {'status': r['status'], 'steps': r['steps'], 'bound': bound, 'work': r['work'], 'cpu': r['cpu'],
               'sliced': r['sliced'], 'own_error': r['own_error']}
        if r['reason'] == 'splitter':
            obs['splitter_generators'] = r['nested']
        if r['status'] == 'ok':
            v = r['value']
            if c['op'] == 'u':
                obs['consumed'] = v[0]
                obs['nvalues'] = len(v[1])
                if 'foreign' in c:               # same-bytes-two-fds: descriptors of ANOTHER call's list in this result
                    ints = set(flat_ints(v[1], []))
                    obs['foreign_fds'] = sorted(ints & set(c['foreign']))
                obs['nodes'], obs['chars'] = nodes(v[1])
            else:
                body = v.body if v.body is not None else []
                obs['nodes'], obs['chars'] = nodes([body])
                obs['hasbody'] = v.body is not None
                obs['work'] += len(c['data'])        # rawHeader, rawPadding, rawBody: the message copied once
        return obs

    def judge(self, stream, c, obs, mline):
        ctx = self.ctx
        cj = case_json(c)
        vj = history_json(c) or cj          # what a violation is stored with: the whole history when the case is a step of one
        st = obs['status']
        cpu = obs.pop('cpu', None)
        ctx.case(stream, sample=cj if len(cj['data']) < 400 else None, nontrivial=obs['steps'] >= 2)
        ctx.impl_trace()
        ctx.stat('outcome=' + (st if not st.startswith('err:') else st))
        ctx.stat('len<=%d' % next(b for b in (0, 8, 32, 128, 512, 4096, 65536, 1 << 40) if len(c['data']) <= b))
        ctx.stat('steps<=%d' % next(b for b in (0, 1, 4, 16, 64, 256, 4096, 65536, 1 << 40) if obs['steps'] <= b))
        ctx.stat('sliced<=%sx input' % next(b for b in (0, 1, 2, 4, 8, 'more') if b == 'more' or obs['sliced'] <= b * len(c['data'])))
        # ---- S4: the property oracle, implementation only.  Everything is measured against the INPUT SIZE
        # (step_bound / work_bound are linear in len(data) for signatures of bounded length), never against what this
        # implementation happened to do: a decoder that reads an `ay` in one call is as good as one that dispatches per byte.
        what = 'parseMessage' if c['op'] == 'p' else 'unmarshal(%r)' % (c['sig'][:40],)
        nbytes = len(c['data'])
        if st == 'ALARM':
            ctx.violation(self.key(c, 'decode-does-not-terminate'),
                          '%s did not finish within %d s on %d bytes' % (what, ALARM_S, nbytes),
                          inp=vj, observed=obs, expected='return or exception within %d invocations' % obs['bound'])
        elif st == 'BUDGET' and 'splitter_generators' in obs:
            ctx.violation('signature-split-not-linear',
                          '%s: genCompleteTypes started %d nested generators after %d unmarshaller invocations '
                          '(one per leading "a" of a piece is what a linear splitter needs)'
                          % (what, obs['splitter_generators'], obs['steps']),
                          inp=vj, observed=obs, expected='at most (invocations + 2) * 256 nested generators')
        elif st == 'BUDGET':
            ctx.violation(self.key(c, 'decode-work-not-linear'),
                          '%s exceeded %d unmarshaller invocations on %d bytes of input'
                          % (what, obs['bound'], nbytes),
                          inp=vj, observed=obs, expected='return or exception within %d invocations' % obs['bound'])
        elif st == 'MEMORY':
            ctx.violation(self.key(c, 'decode-memory'), '%s raised MemoryError' % what, inp=vj, observed=obs,
                          expected='result size bounded by the input')
        elif st == 'err:RecursionError':
            # every nesting level costs a signature character or at least 2 data bytes (a variant's length byte and
            # one signature character) and at most 3 frames; anything deeper is recursion the input does not pay for
            siglen = len(c['sig']) if c['op'] == 'u' else 255 + HEADER_LEN
            levels = siglen + (nbytes - (c['off'] if c['op'] == 'u' else 0)) // 2 + 2
            if 3 * self.frame_ratio * levels + GREY < RECURSION_ROOM:
                ctx.violation(self.key(c, 'recursion-not-justified-by-input'),
                              '%s hit the recursion limit on %d bytes of input (at most %d nesting levels)'
                              % (what, nbytes, levels),
                              inp=vj, observed=obs, expected='nesting bounded by signature length + data length / 2')
        elif st == 'ok':
            if obs['nodes'] > obs['bound'] + 1 or obs['chars'] > nbytes:
                ctx.violation(self.key(c, 'result-size-unrelated-to-input'),
                              '%s built %d nodes / %d characters from %d bytes'
                              % (what, obs['nodes'], obs['chars'], nbytes),
                              inp=vj, observed=obs,
                              expected='nodes <= %d (linear in the input size), characters <= bytes' % (obs['bound'] + 1))
        if st not in ('ALARM', 'BUDGET', 'MEMORY') and obs['sliced'] > SLICE_FACTOR * nbytes + 1024:
            ctx.violation(self.key(c, 'decode-copies-not-linear'),
                          '%s copied %d bytes out of a %d-byte input by slicing (x%.1f)'
                          % (what, obs['sliced'], nbytes, obs['sliced'] / max(nbytes, 1)),
                          inp=vj, observed=obs, expected='at most %d x the input + 1024 bytes' % SLICE_FACTOR)
        if st not in ('ALARM', 'BUDGET', 'MEMORY') and obs['work'] > work_bound(c):
            ctx.violation(self.key(c, 'decode-work-not-linear'),
                          '%s touched %d characters / bytes (invocations + signature scans + data slices) on %d bytes of input'
                          % (what, obs['work'], nbytes), inp=vj, observed=obs, expected='work <= %d' % work_bound(c))
        # ---- S3: correspondence with the model.  Compared: ok / error, consumed bytes, and - when both return -
        # invocation count and work (equal), result nodes <= model size.  When both raise: the implementation may stop
        # EARLIER than the model (steps, work <=) and the exception class is recorded, not compared: a decoder hardened to
        # answer MarshallingError where it answers struct.error today still satisfies C05 and stays quiet here.
        if mline is None:
            return
        m = mline.split()
        if len(m) < 8:
            ctx.disagree(stream, cj, mline, obs, detail='the driver could not read the case')
            return
        if c['op'] == 'u':
            mst, mcons, msteps, mdepth, mframes, msize, mwork, mchars = [m[0]] + [int(x) for x in m[1:8]]
        else:
            mst, msteps, mdepth, mframes, msize, _mbody, mwork, mchars = [m[0]] + [int(x) for x in m[1:8]]
            mcons = None
        ctx.stat('depth<=%d' % next(b for b in (1, 2, 4, 8, 32, 128, 1 << 40) if mdepth <= b))
        if mst == 'fuel':
            ctx.disagree(stream, cj, mline, obs, detail='model ran out of the proved fuel')
            return
        if st == 'err:RecursionError':
            ctx.stat('recursion-error')
            if mframes * self.frame_ratio < RECURSION_ROOM - GREY:
                ctx.disagree(stream, cj, mline, obs, detail='RecursionError below the modelled frame estimate x %.2f' % self.frame_ratio)
            return
        if st in ('ALARM', 'BUDGET', 'MEMORY'):
            ctx.disagree(stream, cj, mline, obs, detail='implementation did not finish within the proved bound')
            return
        bad = []
        if obs.get('foreign_fds'):
            bad.append('descriptors of another call')
        if c.get('fds', []) is None and mst == 'err:TypeError' and st != mst:
            # oobFDs=None is only the public default of marshal.unmarshal, never what txdbus itself passes: a tree that
            # treats None as "no descriptors" is as good as one that raises TypeError on the first UNIX_FD
            ctx.stat('oobFDs=None tolerated by the tree')
            return
        if (mst == 'ok') != (st == 'ok'):
            bad.append('outcome')
        elif st == 'ok':
            if self.steps_hook and msteps != obs['steps']:
                bad.append('steps')
            if self.work_hook and mwork != obs['work']:
                bad.append('work')
            if c['op'] == 'u' and mcons != obs['consumed']:
                bad.append('consumed')
            if obs['nodes'] > msize + 1:
                bad.append('size')
            if obs['chars'] > mchars:
                bad.append('chars')
        else:
            if mst != st:
                ctx.stat('error-class-drift %s (model %s)' % (st, mst))
            if self.steps_hook and obs['steps'] > msteps:
                bad.append('steps-after-error')
            if self.work_hook and obs['work'] > mwork:
                bad.append('work-after-error')
        if obs['steps'] > obs['bound']:
            bad.append('bound')
        if bad:
            ctx.disagree(stream, cj, mline, {k: v for k, v in obs.items()}, detail=','.join(bad))

    def judge_x(self, c, obs, xline, c01v):
        """Stream cost-vs-code-vs-impl: the three verdicts on one unmarshal case.  `xline` = reply of the driver's `x`
        command (cost model, value model), `obs` = the observation of the real decoder already made for the case's own
        stream, `c01v` = verdict of drv_c01 or None."""
        ctx = self.ctx
        cj = case_json(c)
        ctx.case(XSTREAM, sample=cj if len(cj['data']) < 400 else None, nontrivial=obs['steps'] >= 2)
        m = xline.split()
        if len(m) != 9 or not all(x.isdigit() for x in (m[1], m[2], m[4], m[5], m[6], m[7], m[8])):
            ctx.disagree(XSTREAM, cj, xline, obs, detail='the driver could not read the case')
            return
        cost = (m[0], int(m[1]), int(m[2]))
        code = (m[3], int(m[4]), int(m[5]))
        code_fuel, cost_size, code_nodes = int(m[6]), int(m[7]), int(m[8])
        ctx.stat('x-outcome=' + code[0])
        if code_fuel != len(c['sig']) + max(len(c['data']) - c['off'], 0) + 1:       # Cost.codeFuel, mirrored
            ctx.disagree(XSTREAM, cj, xline, obs, detail='codeFuel is not |sig| + (|data| - off) + 1')
            return
        if cost[0] == 'fuel' or code[0] == 'err:RecursionError':
            ctx.disagree(XSTREAM, cj, xline, obs, detail='a model ran out of the proved fuel (fuelFor / codeFuel)')
            return
        if cost != code or (code[0] == 'ok' and code_nodes > cost_size + 1):
            ctx.disagree(XSTREAM, cj, xline, obs,
                         detail='the cost model and the value model differ (theorem cost_agrees_with_code says they cannot)')
            return
        # the value model as C01's own driver runs it (fixed fuel 300: deeper nesting is RecursionError there)
        if c01v is not None:
            if c01v[0] == 'err:RecursionError':
                ctx.stat('c01-driver: RecursionError at its fixed fuel 300')
            elif c01v != (code[0], code[1]):
                ctx.disagree(XSTREAM, cj, xline, {'drv_c01': list(c01v)},
                             detail='drv_c01 (the value model as C01 runs it) differs from the value model run by drv_c05')
        # the real decoder against the value model: same tolerances as the correspondence of the cost model
        st = obs['status']
        if st in ('ALARM', 'BUDGET', 'MEMORY'):
            return                      # reported by the case's own stream
        if st == 'err:RecursionError':
            ctx.stat('x-recursion-error (CPython limit, not modelled)')
            return
        if c.get('fds', []) is None and code[0] == 'err:TypeError' and st != code[0]:
            return                      # oobFDs=None tolerated by the tree: see judge()
        bad = []
        if (code[0] == 'ok') != (st == 'ok'):
            bad.append('outcome')
        elif st == 'ok':
            if code[1] != obs['consumed']:
                bad.append('consumed')
            if code[2] != obs['nvalues']:
                bad.append('values')
            if code_nodes != obs['nodes']:         # PyVal.nodes / nodesList (Wire/CostValue.lean) vs nodes() above
                bad.append('nodes')
        elif code[0] != st:
            # Exception class (theorem: the two models agree on it; here: do they agree with the code?).  Allow-list of
            # hardenings: the tree answers its OWN MarshallingError (or a subclass) where the models say a built-in
            # exception escapes (struct.error, IndexError, KeyError, TypeError, RuntimeError, UnicodeDecodeError).  Any
            # other difference of class is a disagreement of this stream.
            if obs.get('own_error'):
                ctx.stat('x-error-class-hardened %s (models %s)' % (st, code[0]))
            else:
                bad.append('class')
        if bad:
            ctx.disagree(XSTREAM, cj, xline, {k: v for k, v in obs.items()},
                         detail='value model (and cost model) vs implementation: ' + ','.join(bad))

    def growth(self, seed, n1, n2):
        """Stream cumulative-growth (oracle only).  n2 pairwise distinct hostile inputs are decoded one after the other in
        this process; each under its own step budget / alarm like any other case (so work PER INPUT is bounded whatever
        came before), and the number of memory blocks the interpreter holds (after a collection) is read after n1 and
        after n2 inputs.  A decoder that remembers something per input it has seen - an unbounded memo keyed by
        signature or bytes - grows by at least one block per input; a bounded cache has saturated long before n1."""
        import random
        ctx = self.ctx
        rng = random.Random(seed)
        inp = {'op': 'growth', 'seed': seed, 'n1': n1, 'n2': n2}
        outcomes = {}
        worst = None
        b1 = b2 = None
        gc_was = gc.isenabled()
        self.counter.install()
        try:
            for i in range(n2 + 1):
                if i == n1 or i == n2:
                    gc.collect()
                    if i == n1:
                        b1 = sys.getallocatedblocks()
                    else:
                        b2 = sys.getallocatedblocks()
                        break
                c = growth_case(rng, i)
                o = self.impl(c)
                st = o['status']
                outcomes[st] = outcomes.get(st, 0) + 1
                if st in ('ALARM', 'BUDGET', 'MEMORY') or o['steps'] > o['bound']:
                    if worst is None:
                        worst = (c, o, i)
                    if st == 'ALARM':
                        break
                del c, o
        finally:
            self.counter.restore()
            if gc_was:
                gc.enable()
        done = i
        ctx.case('cumulative-growth', sample={'op': 'growth', 'inputs': done}, n=done)
        ctx.impl_trace(done)
        for k, v in sorted(outcomes.items()):
            ctx.stat('growth outcome=%s' % k, v)
        if worst is not None:
            c, o, i = worst
            o.pop('cpu', None)
            ctx.violation(self.key(c, 'decode-work-not-linear' if o['status'] != 'ALARM' else 'decode-does-not-terminate'),
                          'after %d other hostile inputs in the same process, %s exceeded its budget (%s, %d invocations, bound %d)'
                          % (i, 'parseMessage' if c['op'] == 'p' else 'unmarshal(%r)' % (c['sig'][:40],), o['status'], o['steps'], o['bound']),
                          inp=dict(inp, n2=i + 1, n1=min(n1, i)), observed=o, expected='return or exception within the step budget')
        if b1 is None or b2 is None or n2 - n1 < 1000:      # (a replay of a budget violation inside the loop has no window)
            return
        per = (b2 - b1) / float(n2 - n1)
        ctx.stat('growth: %.4f retained blocks per input between input %d and %d' % (per, n1, n2))
        if per >= GROWTH_LIMIT:
            ctx.violation('decode-state-grows-without-bound',
                          'decoding %d pairwise distinct small hostile inputs (signatures at top level, inside a variant, as body '
                          'signature) leaves %d more memory blocks allocated than decoding %d of them: %.2f per input, each '
                          'rejected input costs the process memory for ever' % (n2, b2 - b1, n1, per),
                          inp=inp, observed={'blocks_after_n1': b1, 'blocks_after_n2': b2, 'per_input': per},
                          expected='retained state independent of the number of inputs decoded (< %.2f blocks per input)' % GROWTH_LIMIT)

    def scaling(self, sizes, with_cpu):
        """Model-independent: the same shape at n and 4n bytes must cost about 4 times as much - counted invocations and
        counted work always, CPU time (gc off, best of two) only where asked (thorough tier)."""
        ctx = self.ctx
        self.counter.install()
        gc_was = gc.isenabled()
        gc.disable()
        try:
            for shape in SCALING_SHAPES:
                for fault in ((False, True, 'all') if shape in ('as', 'a{sv}') else (False, True)):
                    for n in sizes:
                        obs = []
                        for nb in (n, 4 * n):
                            c = scaling_case(shape, nb, fault)
                            o = self.impl(c)
                            if with_cpu and o['status'] not in ('ALARM', 'BUDGET', 'MEMORY'):
                                o['cpu'] = min(o['cpu'], self.impl(c)['cpu'])
                            cpu = o.get('cpu')
                            self.judge('scaling', c, dict(o), None)
                            obs.append((c, o, cpu))
                            gc.collect()
                        (c1, o1, t1), (c4, o4, t4) = obs
                        ctx.stat('scaling %s%s n=%d: steps x%.2f work x%.2f%s' % (
                            shape, '+fault' if fault is True else '+allbad' if fault else '', n, o4['steps'] / max(o1['steps'], 1),
                            o4['work'] / max(o1['work'], 1),
                            ' cpu x%.1f' % (t4 / max(t1, 0.02)) if with_cpu and t1 is not None and t4 is not None else ''))
                        if any(o['status'] in ('ALARM', 'BUDGET', 'MEMORY') for o in (o1, o4)):
                            continue        # already reported by judge
                        inp = {'scaling': shape, 'fault': fault, 'n': n}
                        if o4['steps'] > 4.4 * o1['steps'] + 64 or o4['work'] > 4.4 * o1['work'] + 1024:
                            ctx.violation('decode-work-superlinear',
                                          '%s%s: %d -> %d bytes (x4) costs %d -> %d invocations, %d -> %d units of work'
                                          % (shape, ' with a fault at the end' if fault else '', len(c1['data']), len(c4['data']),
                                             o1['steps'], o4['steps'], o1['work'], o4['work']),
                                          inp=inp, observed={'small': o1, 'large': o4}, expected='at most x4.4')
                        elif with_cpu and t1 is not None and t4 is not None and t4 > 10 * max(t1, 0.02):
                            ctx.violation('decode-time-superlinear',
                                          '%s%s: %d -> %d bytes (x4) costs %.3f s -> %.3f s CPU with the same x4 invocations'
                                          % (shape, ' with a fault at the end' if fault else '', len(c1['data']), len(c4['data']), t1, t4),
                                          inp=inp, observed={'small_cpu': t1, 'large_cpu': t4}, expected='at most x10 CPU time')
        finally:
            if gc_was:
                gc.enable()
            self.counter.restore()

    def key(self, c, base):
        if base not in ('decode-work-not-linear', 'decode-does-not-terminate', 'decode-memory'):
            return base
        sig = c['sig'] if c['op'] == 'u' else self.signature_field(c['data'])
        if c['op'] == 'p' and (not isinstance(sig, str) or len(sig) > 255):
            return 'signature-field-unbounded'
        text = (sig if isinstance(sig, str) else '') + c['data'].decode('latin-1')   # variant signatures are in the data
        return 'zero-size-array-element-loop' if self.zero_size_elem(text) else base

    def signature_field(self, raw):
        """the value parseMessage would use as body signature (real header decoder, itself under budget and alarm);
        '' when the header decode does not finish or fails."""
        def fn():
            hval = self.marshal.unmarshal(HSIG, raw, 0, raw[:1] == b'l', [])[1]
            sig = ''
            for code, v in hval[6]:
                if code == SIGCODE:
                    sig = v
            return sig
        r = guarded(self.counter, step_bound({'op': 'p', 'data': raw}) + 1, fn)
        return r['value'] if r['status'] == 'ok' else ''

    @staticmethod
    def zero_size_elem(sig):
        return any(t in sig for t in ('a()', 'a{}', 'a(()', 'a({}', 'a{()', 'a{{}'))

    def flush(self):
        if not self.pending:
            return
        pend, self.pending = self.pending, []
        xi = [i for i, (_, c) in enumerate(pend) if c['op'] == 'u' and len(c['data']) <= XMAX and len(c['sig']) <= XMAX]
        try:
            out = self.ctx.model([case_line(c) for _, c in pend] + [x_line(pend[i][1]) for i in xi])
        except Exception as e:           # driver failure: report once as a disagreement of the first stream
            self.ctx.disagree(pend[0][0], case_json(pend[0][1]), 'driver failed: %r' % (e,), None)
            out = None
        xout = dict(zip(xi, out[len(pend):])) if out else {}
        c01 = self.run_c01([pend[i][1] for i in xi]) if out else None
        c01v = dict(zip(xi, c01)) if c01 else {}
        self.counter.install()
        try:
            for i, (stream, c) in enumerate(pend):
                obs = self.impl(c)
                self.judge(stream, c, obs, out[i] if out else None)
                if i in xout:
                    self.judge_x(c, obs, xout[i], c01v.get(i))
        finally:
            self.counter.restore()


def locate(ctx, marshal, message):
    """Header signature and the field code of the body signature, through PUBLIC behaviour (harness/c03_probe.py: the
    bytes of a message the module itself builds must decode under the candidate; parse a message carrying each field
    code and see which attribute is set).  The private names `message._headerFormat` / `_hcode` are only its fast path;
    when they are gone the probe's advisory goes into the evidence notes."""
    global HEADER_LEN, HSIG, SIGCODE
    from harness import c03_probe as P
    adv = []
    try:
        HSIG = P.header_signature(message, marshal, adv)
        codes = [k for k, v in P.field_by_code(message, marshal, HSIG, adv).items() if v == 'signature']
        if len(codes) == 1:
            SIGCODE = codes[0]
        else:
            ctx.note('no unique header field code sets `signature` (%r): keeping %d' % (codes, SIGCODE))
    except Exception as e:          # the harness's own reach into the tree: never a finding about the tree
        ctx.note('locating the header signature / signature field code failed (%r): keeping %r / %d' % (e, HSIG, SIGCODE))
    HEADER_LEN = len(HSIG)
    for a in adv:
        ctx.note('advisory: ' + a)


def recursion_limit_check(ctx):
    """A tree that raises the interpreter's recursion limit at import makes "RecursionError after ~330 nesting levels"
    (the bound this harness and the property's reading rely on) false; guarded() would hide it by setting its own limit."""
    code = ('import sys; sys.path.insert(0, %r); a = sys.getrecursionlimit(); '
            'import txdbus.marshal, txdbus.message, txdbus.protocol; print(a, sys.getrecursionlimit())' % (ctx.repo,))
    try:
        out = subprocess.run([sys.executable, '-c', code], stdout=subprocess.PIPE, stderr=subprocess.DEVNULL,
                             timeout=120).stdout.decode().split()
        before, after = int(out[0]), int(out[1])
    except Exception as e:
        ctx.note('recursion-limit check could not run: %r' % (e,))
        return
    ctx.stat('recursion-limit-after-import=%d' % after)
    if after != before:
        ctx.violation('recursion-limit-changed',
                      'importing txdbus changes sys.getrecursionlimit() from %d to %d: nesting through variants '
                      '(one level per 3 bytes) is then bounded only by the message size' % (before, after),
                      inp={'op': 'import'}, observed={'before': before, 'after': after}, expected='unchanged')


def run(ctx):
    from txdbus import marshal, message
    locate(ctx, marshal, message)
    rng = ctx.rng
    thorough = ctx.tier == 'thorough'
    R = Runner(ctx, marshal, message)
    recursion_limit_check(ctx)
    R.check_hooks()
    R.calibrate_frames()

    # ---- corpus first
    for name, d in ctx.corpus():
        R.add(d.get('stream', 'hostile-signatures'), case_from_json(d['input'] if 'input' in d else d))
    R.flush()

    # ---- the large witness of quadratic work through a string-typed signature field (one case, rejected at once
    #      by the repaired code; on a tree without the repair it runs into the step budget)
    R.add('hostile-message-signature', {'op': 'p', 'data': quadratic_message(4400, 1100)})
    R.add('hostile-message-signature', {'op': 'p', 'data': quadratic_message_as(4400, 1100)})
    R.flush()

    # ---- valid (sig, value) pairs: all truncations, byte mutations, lying lengths
    nvalid = ctx.scale(quick=150, thorough=1200)
    lim = None if thorough else 16
    for _ in range(nvalid):
        try:
            sig, le, off, data, fds = gen_valid(rng, marshal)
        except Exception as e:      # the tree's own ENCODER refuses a conforming value (e.g. after an earlier decode left a
            ctx.stat('generator: marshal of a conforming value raised %s' % type(e).__name__)   # memo half-filled): C01's
            continue                # finding, not this harness's crash - the decode streams go on
        ctx.stat('valid-sig-len=%d' % min(len(sig), 20))
        ctx.stat('fds=' + ('None' if fds is None else 'list' if fds else '[]'))
        base = {'op': 'u', 'sig': sig, 'le': le, 'off': off, 'fds': fds}
        R.add('unmarshal-valid-truncated-mutated', dict(base, data=data))
        for d in truncations(data, rng, lim):
            if len(d) >= off:
                R.add('unmarshal-valid-truncated-mutated', dict(base, data=d))
        for d in byte_mutations(data, rng, lim):
            R.add('unmarshal-valid-truncated-mutated', dict(base, data=d))
        for d in length_lies(data, le, rng, None if thorough else 4):
            R.add('lying-lengths', dict(base, data=d))
        fields = length_fields(marshal, data, lambda: marshal.unmarshal(sig, data, off, le, None if fds is None else list(fds)))
        ctx.stat('length-fields', len(fields))
        for d in field_lies(data, le, fields):
            R.add('lying-lengths', dict(base, data=d))
        for _ in range(8 if thorough else 3):       # the valid data under a faulted signature
            R.add('hostile-signatures', dict(base, sig=fault_sig(rng, sig), data=data))
        if len(R.pending) > 3000:
            R.flush()
    R.flush()

    # ---- valid messages: all truncations, byte mutations, lying lengths
    nmsg = ctx.scale(quick=80, thorough=300)
    lim = None if thorough else 24
    for _ in range(nmsg):
        try:
            raw, fds = gen_message(rng, marshal, message)
        except Exception as e:
            ctx.stat('generator: building a valid message raised %s' % type(e).__name__)
            continue
        ctx.stat('fds=' + ('None' if fds is None else 'list' if fds else '[]'))
        R.add('message-truncated-mutated', {'op': 'p', 'data': raw, 'fds': fds})
        for d in truncations(raw, rng, lim):
            R.add('message-truncated-mutated', {'op': 'p', 'data': d, 'fds': fds})
        for d in byte_mutations(raw, rng, lim):
            R.add('message-truncated-mutated', {'op': 'p', 'data': d, 'fds': fds})
        for d in length_lies(raw, raw[:1] == b'l', rng, None if thorough else 4):
            R.add('lying-lengths', {'op': 'p', 'data': d, 'fds': fds})
        fields = length_fields(marshal, raw, lambda: message.parseMessage(raw, None if fds is None else list(fds)))
        ctx.stat('length-fields', len(fields))
        for d in field_lies(raw, raw[:1] == b'l', fields, extra=[(4, 4)]):      # + the body length of the fixed header
            R.add('lying-lengths', {'op': 'p', 'data': d, 'fds': fds})
        for d in resign(raw, rng, 6 if thorough else 2):
            R.add('hostile-message-signature', {'op': 'p', 'data': d})
        if len(R.pending) > 3000:
            R.flush()
    R.flush()

    # ---- hostile signatures: top level, inside a variant
    sigs = hostile_sigs(rng, thorough)
    reps = 3 if thorough else 1
    for s in sigs:
        for _ in range(reps):
            n = rng.choice([0, 4, 8, 16, 24, 64])
            data = hostile_data(rng, n)
            le = rng.random() < 0.8
            R.add('hostile-signatures', {'op': 'u', 'sig': s, 'le': le, 'off': rng.choice([0, 0, 1, 4, 8]), 'data': data})
            sb = s.encode('utf-8')
            if len(sb) <= 255:
                vdata = bytes([len(sb)]) + sb + b'\0' + data
                R.add('hostile-signatures', {'op': 'u', 'sig': 'v', 'le': le, 'off': 0, 'data': vdata})
                R.add('hostile-signatures', {'op': 'u', 'sig': 'av', 'le': le, 'off': 0,
                                             'data': struct.pack('<I' if le else '>I', len(vdata)) + vdata})
        if len(R.pending) > 3000:
            R.flush()
    # many CONSECUTIVE arrays at one level (a splitter that re-splits the rest for every 'a' is exponential in their number)
    for unit in ('ay', 'as', 'a(y)', 'aay', 'a{yy}', 'av'):
        for k in (1, 2, 3, 5, 8, 12, 16, 20, 24, 32, 64, 127):
            sig = (unit * k)[:255 - 255 % len(unit)] if len(unit) * k > 255 else unit * k
            for data in (b'', b'\0' * 8 * min(k, 40), hostile_data(rng, 64)):
                R.add('hostile-signatures', {'op': 'u', 'sig': sig, 'le': True, 'off': 0, 'data': data})
            sb = sig.encode()
            vdata = bytes([len(sb)]) + sb + b'\0' + b'\0' * 64
            R.add('hostile-signatures', {'op': 'u', 'sig': 'v', 'le': True, 'off': 0, 'data': vdata})
            R.add('hostile-signatures', {'op': 'u', 'sig': 'a(yv)', 'le': True, 'off': 0,
                                         'data': struct.pack('<I', len(vdata) + 1) + b'\0' * 4 + b'\x01' + vdata})
            R.add('hostile-message-signature', {'op': 'p', 'data': raw_message([f_path, f_member, f_sig_g(sig)], b'\0' * 8 * min(k, 40))})
    R.flush()
    # zero-size elements with every small non-zero length word (the F1 family), arrays of many elements
    for s in ('a()', 'a{}', 'a(())', 'a(()())', 'aa()', 'a(a())', 'a({})', 'a{()()}'):
        for n in (1, 4, 8, 16, 0xffffffff):
            R.add('hostile-signatures', {'op': 'u', 'sig': s, 'le': True, 'off': 0,
                                         'data': struct.pack('<I', n) + b'\0' * 28})
    # nested variants: depth grows with the data (RecursionError zone included)
    for depth in (1, 2, 10, 100, 200, 300, 330, 400, 600):
        data = b'\x01v\0' * depth + b'\x01y\0\x07'
        R.add('hostile-signatures', {'op': 'u', 'sig': 'v', 'le': True, 'off': 0, 'data': data})
    for depth in (50, 120, 300, 330, 450, 700, 2000):
        R.add('hostile-signatures', {'op': 'u', 'sig': '(' * depth + 'y' + ')' * depth, 'le': True, 'off': 0, 'data': b'\x05'})
        R.add('hostile-signatures', {'op': 'u', 'sig': 'a' * depth + 'y', 'le': True, 'off': 0,
                                     'data': (struct.pack('<I', 4) * depth)[:4 * min(depth, 64)]})
    R.flush()

    # near the worst case of the linear bound: 255-character element signatures, hundreds of elements
    for sig, elem, n in (('a(y' + '()' * 125 + ')', b'\x01' + b'\0' * 7, 500), ('a(yv)', b'\x05\x01y\0\x09\0\0\0', 400),
                         ('aay', struct.pack('<I', 3) + b'abc\0', 300), ('a(' + '(' * 120 + 'y' + ')' * 120 + ')', b'\x01' + b'\0' * 7, 200),
                         ('av', b'\x03a()\0' + struct.pack('<I', 0), 256), ('a{yv}', b'\x07\x02ay\0\0\0\0' + struct.pack('<I', 4) + b'wxyz', 250)):
        body = struct.pack('<I', len(elem) * n) + b'\0' * 4 + elem * n
        R.add('hostile-signatures', {'op': 'u', 'sig': sig, 'le': True, 'off': 0, 'data': body})
        R.add('hostile-signatures', {'op': 'u', 'sig': sig, 'le': True, 'off': 0, 'data': body[:len(body) - 3]})
        if len(sig) <= 255:
            R.add('hostile-message-signature', {'op': 'p', 'data': raw_message([f_path, f_member, f_sig_g(sig)], body)})
    R.flush()

    # the scaling shapes at 6 KB, compared with the model (larger ones are oracle-only: the list-based model is quadratic)
    for shape in SCALING_SHAPES:
        for fault in (False, True):
            c = scaling_case(shape, 6144, fault)
            R.add('hostile-signatures' if c['op'] == 'u' else 'hostile-message-signature', c)
    R.flush()

    # ---- hostile signatures as body signature of a message
    for raw in hostile_messages(rng, thorough):
        R.add('hostile-message-signature', {'op': 'p', 'data': raw})
    R.flush()

    # ---- huge declared lengths
    for sig in ('ay', 'as', 'a(yv)', 'aay', 's', 'g', 'v', 'a{sv}', 'a(ss)', 'aas'):
        for lv in (0xffffffff, 0x80000000, 0x7fffffff, 0x04000000, 0x04000001):
            for le in (True, False):
                w = struct.pack('<I' if le else '>I', lv)
                R.add('huge-lengths', {'op': 'u', 'sig': sig, 'le': le, 'off': 0, 'data': w})
                R.add('huge-lengths', {'op': 'u', 'sig': sig, 'le': le, 'off': 0, 'data': w + b'\0' * 4 + w + b'\1' * 24})
                R.add('huge-lengths', {'op': 'u', 'sig': sig, 'le': le, 'off': 0, 'data': w + w + w + w})
    for sig in ('h', 'ah', 'a(yh)', 'a{sh}', '(h)'):          # a descriptor index far beyond any descriptor list
        for lv in (0xffffffff, 0x7fffffff, 0x04000000, 5, 1, 0):
            for fds in ([], [4], [4, 5, 6], None):
                w = struct.pack('<I', lv)
                R.add('huge-lengths', {'op': 'u', 'sig': sig, 'le': True, 'off': 0, 'fds': fds, 'data': w})
                R.add('huge-lengths', {'op': 'u', 'sig': sig, 'le': True, 'off': 0, 'fds': fds,
                                       'data': struct.pack('<I', 8) + b'\0' * 4 + w + w + w})
    for raw in (raw_message([f_path, f_member, f_sig_g('ay')], struct.pack('<I', 0xffffffff) + b'\0' * 8, bodylen=0xffffffff),
                raw_message([f_path, f_member, f_sig_g('s')], struct.pack('<I', 0xffffffff) + b'ab\0'),
                raw_message([f_path, f_member, f_sig_g('as')], struct.pack('<II', 0xfffffff0, 0xffffffff)),
                raw_message([f_path, f_member], b'', arrlen=0xffffffff)):
        R.add('huge-lengths', {'op': 'p', 'data': raw})
    R.flush()

    # ---- unstructured bytes
    nrand = ctx.scale(quick=1000, thorough=10000)
    for _ in range(nrand):
        n = rng.choice([0, 1, 2, 15, 16, 17, 24, 40, 80])
        data = bytes(rng.choice([0, 1, 8, 0x6c, 0x42, rng.randrange(256)]) for _ in range(n))
        if rng.random() < 0.5 and data:
            data = rng.choice([b'l', b'B']) + bytes([rng.randrange(1, 5)]) + data[2:]
        R.add('random-bytes', {'op': 'p', 'data': data})
        R.add('random-bytes', {'op': 'u', 'sig': rng.choice(['yyyyuua(yv)', 'a(yv)', 'av', 'a{sv}', 'v', 'aav']),
                               'le': rng.random() < 0.5, 'off': 0, 'data': data})
        if len(R.pending) > 3000:
            R.flush()
    R.flush()

    # ---- state-leak round: histories in one process (STATE_AUDIT G8 iii / v)
    for _ in range(ctx.scale(quick=60, thorough=400)):
        try:
            hist = poison_history(rng, marshal)
        except Exception as e:
            ctx.stat('generator: marshal of a conforming value raised %s' % type(e).__name__)
            continue
        for c in hist:
            R.add('poison-then-valid', c)
        if len(R.pending) > 3000:
            R.flush()
    R.flush()
    for _ in range(ctx.scale(quick=40, thorough=200)):
        try:
            hist = fds_history(rng, marshal)
        except Exception as e:
            ctx.stat('generator: marshal of a conforming value raised %s' % type(e).__name__)
            continue
        for c in hist:
            R.add('same-bytes-two-fds', c)
    R.flush()
    R.growth(rng.getrandbits(32), *((5000, 20000) if not thorough else (10000, 60000)))

    # ---- scaling: n vs 4n (oracle only)
    R.scaling([16384] if not thorough else [65536, 262144], with_cpu=thorough)


def replay(ctx, data):
    from txdbus import marshal, message
    locate(ctx, marshal, message)
    R = Runner(ctx, marshal, message)
    if data['input'].get('op') == 'import':
        return recursion_limit_check(ctx)
    if 'scaling' in data['input']:
        return R.scaling([data['input']['n']], True)
    if data['input'].get('op') == 'growth':
        R.check_hooks()
        return R.growth(data['input']['seed'], data['input']['n1'], data['input']['n2'])
    if data['input'].get('op') == 'history':        # a leak through process state: run the whole history, in order
        R.check_hooks()
        R.calibrate_frames()
        for c in as_history([case_from_json(d) for d in data['input']['cases']]):
            R.add(data.get('stream', 'poison-then-valid'), c)
        return R.flush()
    R.check_hooks()
    R.calibrate_frames()
    R.add(data.get('stream', 'replay'), case_from_json(data['input']))
    R.flush()
