"""Type-directed generator of (DBus type, value) pairs for the wire-codec properties (C01, C02) and for
anyone else who needs conforming values (C03, C05, C10, C19 ...).  Library only: no txdbus import at
module level (the wrapper classes are looked up lazily from the txdbus currently imported), every random
choice comes from the `rng` (a `random.Random`) passed in.

TYPES (`ty`)            a one-character string for a basic type or the variant: 'y' 'b' 'n' 'q' 'i' 'u' 'x' 't'
                        'd' 's' 'o' 'g' 'h' 'v';  ('a', elem);  ('(', (f1, ..., fn));  ('{', key, value).
                        `render(ty)` / `render_all(tys)` give the signature string; `parse_sig(s)` is the inverse.

SPEC VALUES (`sv`)      the abstract value of a type, independent of how Python code spells it:
                        integer types: int;  'b': bool;  'd': float;  's' 'o' 'g': str;
                        'h': the descriptor object itself (an int here; the wire carries its index);
                        'v': ('V', ty, sv);  array: list of sv;  struct: list of sv;  dict entry: (k_sv, v_sv).

PYTHON VALUES (`pv`)    what is handed to txdbus: `to_python(rng, ty, sv)` picks a spelling at random - a
                        struct as list, tuple or object with `dbusOrder`; an array as list or tuple ('ay' also
                        as bytearray); an array of dict entries as dict; integers plain or wrapped; strings
                        plain or wrapped.  Inside a variant the spelling is chosen so that txdbus's inference
                        (`sigFromPy`) yields exactly the type recorded in the spec value.

EXPECTED DECODING       `expected_decoded(ty, sv)`: the normalised value `unmarshal` must return (tuples/objects
                        as lists, byte arrays as lists of ints, wrappers as plain values, variants as their
                        content, arrays of dict entries as dicts).

Main entry points
    gen_type(rng, depth, ...)            one valid complete type
    gen_types(rng, depth, max_n)         a signature (list of types)
    gen_variant_type(rng, depth)         a type that txdbus's inference can produce for a variant's content
    gen_spec(rng, ty, depth)             a spec value (boundary values favoured) that `to_python` can spell
    gen_spec_free(rng, ty, depth)        a spec value with arbitrarily typed variants (for decoders)
    gen_value(rng, ty)                   = to_python(rng, ty, gen_spec(rng, ty))
    to_python(rng, ty, sv, fds=None)     Python spelling; descriptors met are appended to `fds` in wire order
    BOUNDARY[code]                       boundary spec values per basic type
    all_types(max_len)                   every valid single complete type whose signature has length <= max_len
    collect_fds(ty, sv, out)             descriptors of a spec value in wire order
    gen_mixed_case(rng) / mixed_matrix() variants holding containers whose members are of different classes (plain value then
                                         typed wrappers / bools ...), which `to_python` never spells
    limit_cases(rng)                     a fixed list of cases AT the limits of the grammar (32 arrays, 32 structs, 255 characters)
"""
import struct

BASIC = 'ybnqiuxtdsogh'
FIXED = 'ybnqiuxtdh'
INT_RANGE = {
    'y': (0, 2 ** 8 - 1), 'n': (-2 ** 15, 2 ** 15 - 1), 'q': (0, 2 ** 16 - 1), 'i': (-2 ** 31, 2 ** 31 - 1),
    'u': (0, 2 ** 32 - 1), 'x': (-2 ** 63, 2 ** 63 - 1), 't': (0, 2 ** 64 - 1),
}
ALIGN = {'y': 1, 'b': 4, 'n': 2, 'q': 2, 'i': 4, 'u': 4, 'x': 8, 't': 8, 'd': 8, 's': 4, 'o': 4, 'g': 1,
         'a': 4, '(': 8, 'v': 1, '{': 8, 'h': 4}          # the table of the DBus specification
WRAPPER = {'y': 'Byte', 'b': 'Boolean', 'n': 'Int16', 'q': 'UInt16', 'i': 'Int32', 'u': 'UInt32',
           'x': 'Int64', 't': 'UInt64', 'g': 'Signature', 'o': 'ObjectPath'}


def _bits(x):
    return struct.unpack('>Q', struct.pack('>d', x))[0]


def _dbl(bits):
    return struct.unpack('>d', struct.pack('>Q', bits))[0]


DOUBLE_BITS = [0x0000000000000000, 0x8000000000000000, 0x3FF0000000000000, 0xBFF0000000000000,
               0x7FF0000000000000, 0xFFF0000000000000, 0x7FF8000000000000, 0x7FF8000000000001,
               0xFFF8000000000000, 0x0000000000000001, 0x000FFFFFFFFFFFFF, 0x0010000000000000,
               0x7FEFFFFFFFFFFFFF, 0x400921FB54442D18, 0x3FB999999999999A, 0x4340000000000000]

STRINGS = ['', 'a', 'hello world', 'é', '€', '\U0001F600', 'a\u0080߿ࠀ￿\U00010000\U0010ffff',
           ' ', 'x' * 7, 'y' * 8, 'z' * 9, '\x01\x7f', '\r\n', 'ü' * 4, 'tab\there']
PATHS = ['/', '/a', '/org/freedesktop/DBus', '/a/b_1/C2', '/_', '/0', '/a0/b1/c2/d3/e4/f5/g6']
SIGS = ['', 'i', 'ai', 'a{sv}', '(ii)', 'v', 'a(ya{s(iv)})', 'yyyyuua(yv)', 's', 'aaaai', 'h']

BOUNDARY = {c: sorted({lo, lo + 1, -1 if lo < 0 else lo, 0, 1, hi - 1, hi, (lo + hi) // 2,
                       hi // 256, 255 if hi >= 255 else hi, 256 if hi >= 256 else hi})
            for c, (lo, hi) in INT_RANGE.items()}
# plain Python ints at and around every integer range boundary: inside a variant each of them has a DBus type
# (the statement of C01 lists "integer range boundaries"): [-2**31, 2**31) travels as INT32, the rest of
# [-2**63, 2**63) as INT64, [2**63, 2**64) as UINT64 - written here from the type ranges, not from txdbus
PLAIN_INT_BOUNDARIES = sorted(set(
    v for b in (2 ** 7, 2 ** 8, 2 ** 15, 2 ** 16, 2 ** 31, 2 ** 32, 2 ** 63, 2 ** 64)
    for v in (b - 2, b - 1, b, b + 1, -b - 1, -b, -b + 1, -b + 2) if -2 ** 63 <= v < 2 ** 64) | {0, 1, -1})


def plain_int_type(n):
    """The DBus type a plain int has inside a variant (any int in [-2**63, 2**64) has one)."""
    if -2 ** 31 <= n < 2 ** 31:
        return 'i'
    if -2 ** 63 <= n < 2 ** 63:
        return 'x'
    if 2 ** 63 <= n < 2 ** 64:
        return 't'
    raise ValueError('no DBus integer type holds %d' % n)


BOUNDARY['x'] = sorted(set(BOUNDARY['x']) | {v for v in PLAIN_INT_BOUNDARIES if -2 ** 63 <= v < 2 ** 63 and abs(v) >= 2 ** 31 - 2})
BOUNDARY['t'] = sorted(set(BOUNDARY['t']) | {v for v in PLAIN_INT_BOUNDARIES if v >= 2 ** 31 - 2})
BOUNDARY['b'] = [False, True]
BOUNDARY['d'] = [_dbl(b) for b in DOUBLE_BITS]
BOUNDARY['s'] = STRINGS
BOUNDARY['o'] = PATHS
BOUNDARY['g'] = SIGS
BOUNDARY['h'] = [0, 1, 2, 3, 7, 100, 1023]


# ---------------------------------------------------------------------------- types
def render(ty):
    if isinstance(ty, str):
        return ty
    if ty[0] == 'a':
        return 'a' + render(ty[1])
    if ty[0] == '(':
        return '(' + ''.join(render(f) for f in ty[1]) + ')'
    if ty[0] == '{':
        return '{' + render(ty[1]) + render(ty[2]) + '}'
    raise ValueError('not a type: %r' % (ty,))


def render_all(tys):
    return ''.join(render(t) for t in tys)


def code(ty):
    """The type code = first character of the signature (key of the alignment table)."""
    return ty if isinstance(ty, str) else ty[0]


def parse_sig(s):
    """Signature string -> list of types (accepts the shape grammar; ValueError otherwise)."""
    tys, i = [], 0
    while i < len(s):
        t, i = _parse_one(s, i)
        tys.append(t)
    return tys


def _parse_one(s, i):
    if i >= len(s):
        raise ValueError('truncated signature')
    c = s[i]
    if c in BASIC or c == 'v':
        return c, i + 1
    if c == 'a':
        e, j = _parse_one(s, i + 1)
        return ('a', e), j
    if c == '(':
        fs, j = [], i + 1
        while j < len(s) and s[j] != ')':
            f, j = _parse_one(s, j)
            fs.append(f)
        if j >= len(s):
            raise ValueError('unterminated struct')
        return ('(', tuple(fs)), j + 1
    if c == '{':
        k, j = _parse_one(s, i + 1)
        v, j = _parse_one(s, j)
        if j >= len(s) or s[j] != '}':
            raise ValueError('bad dict entry')
        return ('{', k, v), j + 1
    raise ValueError('bad type code %r' % (c,))


def depth_of(ty):
    if isinstance(ty, str):
        return 0
    if ty[0] == 'a':
        return 1 + depth_of(ty[1])
    if ty[0] == '(':
        return 1 + max(depth_of(f) for f in ty[1])
    return 1 + max(depth_of(ty[1]), depth_of(ty[2]))


def has_code(ty, c):
    return c in render(ty)


def gen_type(rng, depth=3, allow_fd=True, allow_variant=True, basic_only=False):
    """One valid single complete type: nesting at most `depth` containers deep."""
    basics = BASIC if allow_fd else BASIC.replace('h', '')
    if basic_only or depth <= 0 or rng.random() < 0.35:
        if allow_variant and not basic_only and rng.random() < 0.12:
            return 'v'
        return rng.choice(basics)
    r = rng.random()
    if r < 0.40:
        if rng.random() < 0.35:      # array of dict entries
            k = rng.choice(basics)
            return ('a', ('{', k, gen_type(rng, depth - 2, allow_fd, allow_variant)))
        return ('a', gen_type(rng, depth - 1, allow_fd, allow_variant))
    if r < 0.85:
        n = rng.choice([1, 1, 2, 2, 2, 3, 3, 4, 6])
        return ('(', tuple(gen_type(rng, depth - 1, allow_fd, allow_variant) for _ in range(n)))
    return 'v' if allow_variant else rng.choice(basics)


def gen_types(rng, depth=3, max_n=4, allow_fd=True, allow_variant=True):
    n = rng.choice([1, 1, 1, 2, 2, 3, max_n])
    return [gen_type(rng, depth, allow_fd, allow_variant) for _ in range(n)]


def gen_variant_type(rng, depth=2):
    """A type that `sigFromPy` can infer for some Python value (so that it can sit inside a variant that
    txdbus itself encodes): no 'h'; 'v' only as the element of a heterogeneous list or as the value of a
    heterogeneous dict; containers that must be non-empty are handled by `gen_spec`."""
    basics = BASIC.replace('h', '')
    if depth <= 0 or rng.random() < 0.45:
        return rng.choice(basics)
    r = rng.random()
    if r < 0.30:
        return ('a', gen_variant_type(rng, depth - 1))
    if r < 0.40:
        return ('a', 'v')
    if r < 0.60:
        k = rng.choice(basics)
        v = 'v' if rng.random() < 0.3 else gen_variant_type(rng, depth - 2)
        return ('a', ('{', k, v))
    n = rng.choice([1, 2, 2, 3])
    return ('(', tuple(gen_variant_type(rng, depth - 1) for _ in range(n)))


def all_types(max_len, allow_fd=True):
    """Every valid single complete type whose signature has at most `max_len` characters."""
    basics = BASIC if allow_fd else BASIC.replace('h', '')
    memo = {}

    def singles(n):        # types of rendered length exactly n
        if n in memo:
            return memo[n]
        out = []
        if n == 1:
            out = list(basics) + ['v']
        elif n >= 2:
            out += [('a', e) for e in singles(n - 1)]
            if n >= 3:
                out += [('(', fs) for fs in seqs(n - 2) if fs]
            if n >= 5:      # a{kv}: 'a' '{' k v '}'
                for k in basics:
                    out += [('a', ('{', k, v)) for v in singles(n - 4)]
        memo[n] = out
        return out

    smemo = {}

    def seqs(n):           # tuples of types of total rendered length exactly n
        if n in smemo:
            return smemo[n]
        out = [()] if n == 0 else []
        for first in range(1, n + 1):
            for t in singles(first):
                out += [(t,) + rest for rest in seqs(n - first)]
        smemo[n] = out
        return out

    res = []
    for n in range(1, max_len + 1):
        res += singles(n)
    return res


# ---------------------------------------------------------------------------- spec values
def _gen_string(rng):
    if rng.random() < 0.6:
        return rng.choice(STRINGS)
    n = rng.choice([0, 1, 2, 3, 4, 5, 7, 8, 9, 15, 16, 17, 40])
    pools = ['abc XYZ019_/.', 'éüßñ', '€ࠀ￿', '\U0001F600\U00010000\U0010ffff', '\x01\t\n\x7f']
    return ''.join(rng.choice(rng.choice(pools)) for _ in range(n))


def _gen_path(rng):
    if rng.random() < 0.5:
        return rng.choice(PATHS)
    n = rng.choice([1, 1, 2, 3, 5])
    al = 'abcXYZ_019'
    return ''.join('/' + ''.join(rng.choice(al) for _ in range(rng.choice([1, 2, 3, 8]))) for _ in range(n))


def gen_basic(rng, c):
    if c in INT_RANGE:
        lo, hi = INT_RANGE[c]
        return rng.choice(BOUNDARY[c]) if rng.random() < 0.5 else rng.randint(lo, hi)
    if c == 'b':
        return rng.random() < 0.5
    if c == 'd':
        r = rng.random()
        if r < 0.45:
            return rng.choice(BOUNDARY['d'])
        if r < 0.75:
            return _dbl(rng.getrandbits(64))
        return rng.uniform(-1e6, 1e6)
    if c == 's':
        return _gen_string(rng)
    if c == 'o':
        return _gen_path(rng)
    if c == 'g':
        if rng.random() < 0.6:
            return rng.choice(SIGS)
        g = render_all(gen_types(rng, 2, 3))
        return g if len(g) <= 255 else 'ai'
    if c == 'h':
        return rng.choice(BOUNDARY['h'])
    raise ValueError(c)


def _len(rng, depth):
    return rng.choice([0, 0, 1, 1, 2, 3, 5] if depth > 0 else [0, 1, 2])


def gen_spec_free(rng, ty, depth=3):
    """A spec value whose variants hold ANY valid single complete type (also typings that txdbus's own
    encoder never produces: empty arrays of a concrete type, descriptors, variants in variants) - for
    decoders fed by another implementation.  Not spellable through `to_python` in general."""
    if isinstance(ty, str):
        if ty == 'v':
            vt = gen_type(rng, max(depth - 1, 0))
            return ('V', vt, gen_spec_free(rng, vt, depth - 1))
        return gen_basic(rng, ty)
    if ty[0] == 'a':
        el = ty[1]
        n = _len(rng, depth)
        if not isinstance(el, str) and el[0] == '{':
            out, seen = [], []
            for _ in range(n):
                k = gen_basic(rng, el[1])
                if any(_key_eq(k, s) for s in seen) or (el[1] == 'd' and k != k):
                    continue
                seen.append(k)
                out.append((k, gen_spec_free(rng, el[2], depth - 1)))
            return out
        return [gen_spec_free(rng, el, depth - 1) for _ in range(n)]
    if ty[0] == '(':
        return [gen_spec_free(rng, f, depth - 1) for f in ty[1]]
    return (gen_basic(rng, ty[1]), gen_spec_free(rng, ty[2], depth - 1))


def gen_spec(rng, ty, depth=3, in_variant=False):
    """A spec value of type `ty`.  `in_variant`: the value will be spelt for txdbus's inference, so the
    containers whose element type the inference reads off the first element must not be empty (except
    'av' and 'a{sv}', which are what empty containers infer to)."""
    if isinstance(ty, str):
        if ty == 'v':
            if rng.random() < 0.25:         # a plain int at an integer range boundary (spelt plain by to_python)
                n = rng.choice(PLAIN_INT_BOUNDARIES)
                return ('V', plain_int_type(n), n)
            vt = gen_variant_type(rng, max(depth - 1, 0))
            return ('V', vt, gen_spec(rng, vt, depth - 1, True))
        return gen_basic(rng, ty)
    if ty[0] == 'a':
        el = ty[1]
        n = _len(rng, depth)
        if not isinstance(el, str) and el[0] == '{':
            if in_variant:
                if el[2] == 'v':
                    n = 0 if (n == 0 and el[1] == 's') else max(n, 2)
                else:
                    n = max(n, 1)
            out, seen = [], []
            for _ in range(n):
                k = gen_basic(rng, el[1])
                if any(_key_eq(k, s) for s in seen) or (el[1] == 'd' and k != k):
                    continue
                seen.append(k)
                out.append((k, gen_spec(rng, el[2], depth - 1, in_variant)))
            if in_variant:
                out = _fix_variant_dict(rng, el, out, depth)
            return out
        if in_variant:
            n = max(n, 2) if el == 'v' and n > 0 else (n if el == 'v' else max(n, 1))
        return [gen_spec(rng, el, depth - 1, in_variant) for _ in range(n)]
    if ty[0] == '(':
        return [gen_spec(rng, f, depth - 1, in_variant) for f in ty[1]]
    if ty[0] == '{':
        return (gen_basic(rng, ty[1]), gen_spec(rng, ty[2], depth - 1, in_variant))
    raise ValueError(ty)


def _key_eq(a, b):
    if isinstance(a, float) and a != a:
        return False
    return a == b


def _fix_variant_dict(rng, el, out, depth):
    """Inside a variant a dict infers `a{kv}` from its items: it must be non-empty unless the type is
    a{sv}; a value type 'v' needs two values of different classes (see `to_python`)."""
    kt, vt = el[1], el[2]
    need = 0 if (vt == 'v' and kt == 's') else (2 if vt == 'v' else 1)
    if vt == 'v' and out and len(out) < 2:
        need = 2
    tries = 0
    while len(out) < need and tries < 200:
        tries += 1
        k = gen_basic(rng, kt)
        if any(_key_eq(k, s) for s, _ in out) or (kt == 'd' and k != k):
            continue
        out.append((k, gen_spec(rng, vt, depth - 1, True)))
    return out


def collect_fds(ty, sv, out):
    """Append the descriptors of a spec value in wire order."""
    if isinstance(ty, str):
        if ty == 'h':
            out.append(sv)
        elif ty == 'v':
            collect_fds(sv[1], sv[2], out)
    elif ty[0] == 'a':
        for e in sv:
            collect_fds(ty[1], e, out)
    elif ty[0] == '(':
        for f, e in zip(ty[1], sv):
            collect_fds(f, e, out)
    else:
        collect_fds(ty[1], sv[0], out)
        collect_fds(ty[2], sv[1], out)
    return out


# ---------------------------------------------------------------------------- Python spellings
def _m():
    from txdbus import marshal
    return marshal


class DbusOrderStruct:
    """A struct given as an object that declares its field order."""

    def __init__(self, fields=(), sig=None):
        self.dbusOrder = ['f%d' % i for i in range(len(fields))]
        for a, f in zip(self.dbusOrder, fields):
            setattr(self, a, f)
        if sig is not None:
            self.dbusSignature = sig          # lets the object stand inside a variant

    def __repr__(self):
        return 'DbusOrderStruct(%r)' % ([getattr(self, a) for a in self.dbusOrder],)


def _variant_class_of(ty, sv):
    """The Python class `to_python(..., in_variant=True)` uses for a value of this type (needed to make
    the elements of an 'av' list / the values of an 'a{kv}' dict of visibly different classes)."""
    m = _m()
    if isinstance(ty, str):
        if ty == 'i':
            return int
        if ty == 'x':
            return int if not (-2 ** 31 <= sv < 2 ** 31) else m.Int64
        if ty == 't':
            return int if sv >= 2 ** 63 else m.UInt64
        if ty == 'b':
            return bool
        if ty == 'd':
            return float
        if ty == 's':
            return str
        return getattr(m, WRAPPER[ty])
    if ty[0] == 'a':
        if not isinstance(ty[1], str) and ty[1][0] == '{':
            return dict
        return list
    return tuple


def to_python(rng, ty, sv, fds=None, in_variant=False):
    """A Python spelling of spec value `sv` of type `ty`.  Descriptors met are appended to `fds`.
    `in_variant`: False, or 'top' (the value is what the inference looks at directly: the content of a
    variant or a field of a tuple in it) or 'nested' (an element of a list / item of a dict inside a
    variant, whose class must agree with its siblings)."""
    m = _m()
    if isinstance(ty, str):
        if ty == 'v':
            return to_python(rng, sv[1], sv[2], fds, 'top')
        if ty == 'h':
            if fds is not None:
                fds.append(sv)
            return sv
        if in_variant:
            if ty in ('b', 'd', 's'):
                return sv
            if ty == 'i':
                return sv if rng.random() < 0.7 else m.Int32(sv)
            cls = _variant_class_of(ty, sv)
            return sv if cls is int else cls(sv)
        if ty == 'b':
            return sv if rng.random() < 0.8 else m.Boolean(1 if sv else 0)
        if ty in INT_RANGE:
            r = rng.random()
            if r < 0.6:
                return sv
            if r < 0.85:
                return getattr(m, WRAPPER[ty])(sv)
            return rng.choice([m.Int64, m.UInt64, m.Byte, m.Int32])(sv)     # any int subclass packs the same
        if ty in ('o', 'g'):
            return sv if rng.random() < 0.6 else getattr(m, WRAPPER[ty])(sv)
        return sv
    if ty[0] == 'a':
        el = ty[1]
        if not isinstance(el, str) and el[0] == '{':
            if in_variant:
                return _variant_dict(rng, el, sv, fds)
            return _dict_in_order(rng, el, sv, fds)
        if in_variant:
            if el == 'v':
                return _hetero_list(rng, sv, fds)
            if el == 'y' and in_variant == 'top' and rng.random() < 0.5:
                return bytearray(sv)
            xs = [to_python(rng, el, e, fds, 'nested') for e in sv]
            return _same_class(el, sv, xs)
        xs = [to_python(rng, el, e, fds) for e in sv]
        if el == 'y' and rng.random() < 0.4:
            return bytearray(sv)
        return xs if rng.random() < 0.75 else tuple(xs)
    if ty[0] == '(':
        xs = [to_python(rng, f, e, fds, 'top' if in_variant else False) for f, e in zip(ty[1], sv)]
        if in_variant == 'top' and rng.random() < 0.25:
            return DbusOrderStruct(xs, render(ty))
        if in_variant:
            return tuple(xs)
        r = rng.random()
        return xs if r < 0.4 else (tuple(xs) if r < 0.75 else DbusOrderStruct(xs))
    if ty[0] == '{':
        k = to_python(rng, ty[1], sv[0], fds, in_variant)
        v = to_python(rng, ty[2], sv[1], fds, in_variant)
        return (k, v) if rng.random() < 0.7 or in_variant else [k, v]
    raise ValueError(ty)


def _dict_in_order(rng, el, sv, fds):
    d = {}
    for k, v in sv:
        kk = to_python(rng, el[1], k, fds)
        d[kk] = to_python(rng, el[2], v, fds)
    return d


def _same_class(el, svs, xs):
    """Inside a variant a list infers 'a' + type(first element) only if every later element is an instance
    of the class of the first: spell every element with the class of the first."""
    if not xs or not isinstance(el, str) or el not in INT_RANGE:
        return xs
    m = _m()
    if el == 'i':
        cls = type(xs[0])
        return [x if type(x) is cls else (int(x) if cls is int else cls(x)) for x in xs]
    if all(_variant_class_of(el, s) is int for s in svs):
        return [int(x) for x in xs]
    return [getattr(m, WRAPPER[el])(int(x)) for x in xs]


def _hetero_list(rng, sv, fds):
    """An 'av' list inside a variant: empty, or with a later element that is not an instance of the class
    of the first (the spec values are variants; their own spelling decides the classes)."""
    xs = [to_python(rng, 'v', e, fds) for e in sv]
    if not xs:
        return xs
    first = type(xs[0])
    if all(isinstance(x, first) for x in xs[1:]):
        raise Retry()
    return xs


def _variant_dict(rng, el, sv, fds):
    kt, vt = el[1], el[2]
    d = {}
    for k, v in sv:
        kk = to_python(rng, kt, k, fds, 'nested')
        d[kk] = to_python(rng, vt, v, fds, 'top' if vt == 'v' else 'nested')
    if len(d) != len(sv):
        raise Retry()
    vals = list(d.values())
    keys = list(d.keys())
    if not vals:
        if not (kt == 's' and vt == 'v'):
            raise Retry()
        return d
    if kt in INT_RANGE and kt != 'i':
        # the key signature is read off ONE key: all keys carry the wrapper class
        m = _m()
        if not all(_variant_class_of(kt, k) is int for k, _ in sv):
            d = {getattr(m, WRAPPER[kt])(int(k)): v for k, v in d.items()}
            vals = list(d.values())
    first = type(vals[0])
    same = all(isinstance(x, first) for x in vals[1:])
    if vt == 'v':
        if same:
            raise Retry()
    else:
        if not same:
            raise Retry()
        # the value signature is read off ONE value: make all of them the same class
        if isinstance(vt, str) and vt in INT_RANGE:
            fixed = _same_class(vt, [v for _, v in sv], vals)
            if any(type(x) is not type(fixed[0]) for x in fixed):
                raise Retry()
            d = dict(zip(d.keys(), fixed))
        elif any(type(x) is not first for x in vals):
            raise Retry()
    return d


class Retry(Exception):
    """The random spelling would not infer to the recorded type; generate another case."""


def expected_decoded(ty, sv):
    """What `unmarshal` must return for this value (descriptors: the object that was passed)."""
    if isinstance(ty, str):
        if ty == 'v':
            return expected_decoded(sv[1], sv[2])
        return sv
    if ty[0] == 'a':
        el = ty[1]
        if not isinstance(el, str) and el[0] == '{':
            d = {}
            for k, v in sv:
                d[_hashable(expected_decoded(el[1], k))] = expected_decoded(el[2], v)
            return d
        return [expected_decoded(el, e) for e in sv]
    if ty[0] == '(':
        return [expected_decoded(f, e) for f, e in zip(ty[1], sv)]
    return [expected_decoded(ty[1], sv[0]), expected_decoded(ty[2], sv[1])]


def _hashable(x):
    return x


def gen_value(rng, ty, depth=3, fds=None):
    """A conforming Python value of type `ty` (random spelling)."""
    for _ in range(50):
        try:
            return to_python(rng, ty, gen_spec(rng, ty, depth), fds)
        except Retry:
            continue
    raise RuntimeError('could not generate a value of type %s' % render(ty))


def gen_case(rng, depth=3, max_n=4, allow_fd=True, allow_variant=True):
    """(types, spec values, python values, descriptors in wire order, expected decoding)."""
    for _ in range(200):
        tys = gen_types(rng, depth, max_n, allow_fd, allow_variant)
        if len(render_all(tys)) > 255:
            continue
        try:
            svs = [gen_spec(rng, t, depth) for t in tys]
            fds = []
            pvs = [to_python(rng, t, s, fds) for t, s in zip(tys, svs)]
        except Retry:
            continue
        return tys, svs, pvs, fds, [expected_decoded(t, s) for t, s in zip(tys, svs)]
    raise RuntimeError('could not generate a case')


# ---------------------------------------------------------------------------- large / deep / boundary-size cases
LARGE_KINDS = ['array-long', 'array-long', 'string-long', 'signature-long', 'variant-signature-long', 'deep-arrays',
               'deep-structs', 'deep-mixed', 'nan-key', 'array-of-long-strings']
ARRAY_LENGTHS = [8, 9, 15, 16, 17, 31, 33, 64, 100, 255, 256, 300]
STRING_BYTES = [254, 255, 256, 257, 300, 4095, 4096, 65535, 65536, 70000]
SIG_LENGTHS = [126, 127, 128, 129, 200, 254, 255]


def _nest(rng, levels, leaf):
    """A type nested `levels` deep over `leaf` using 'a' / '(' as `levels` says ('a', '(' or 'm' mixed)."""
    ty = leaf
    for kind in levels:
        ty = ('a', ty) if kind == 'a' else ('(', (ty,))
    return ty


def _nest_spec(ty, leafval, width=1):
    if isinstance(ty, str):
        return leafval
    if ty[0] == 'a':
        return [_nest_spec(ty[1], leafval) for _ in range(width)]
    return [_nest_spec(ty[1][0], leafval)]


def gen_large_case(rng, kind=None):
    """(kind, types, spec values): size- and depth-boundary cases that the ordinary generator never reaches -
    arrays of 8..300 elements, strings of 255..70 000 bytes, signatures of 127..255 characters (as `g` values and
    as the content type of a variant), nesting up to the specification's 32 arrays + 32 structs, NaN dict keys."""
    kind = kind or rng.choice(LARGE_KINDS)
    lead = rng.choice(['y', 'u', 'x', 's', 'q'])       # shifts the residue at which the interesting value starts
    if kind == 'array-long':
        el = rng.choice(['y', 'n', 'u', 'x', 't', 'd', 'b', 's', ('(', ('y', 'x')), ('(', ('u',)), ('{', 's', 'u'),
                         ('{', 'y', 'x'), ('a', 'y'), 'v'])
        n = rng.choice(ARRAY_LENGTHS)
        ty = ('a', el)
        if not isinstance(el, str) and el[0] == '{':
            sv = []
            for i in range(n):
                k = ('k%d' % i) if el[1] == 's' else i % 256
                if any(_key_eq(k, k0) for k0, _ in sv):
                    continue
                sv.append((k, gen_basic(rng, el[2])))
        else:
            sv = [gen_spec(rng, el, 1) for _ in range(n)]
        tys, svs = [lead, ty, 'y'], [gen_basic(rng, lead), sv, 7]
    elif kind == 'string-long':
        nbytes = rng.choice(STRING_BYTES)
        unit = rng.choice(['a', 'é', '€'])
        s = unit * (nbytes // len(unit.encode())) + 'z' * (nbytes % len(unit.encode()))
        code_ = rng.choice(['s', 's', 'o'])
        if code_ == 'o':
            s = ('/' + 'p' * 9) * (nbytes // 10) + '/' + 'q' * (nbytes % 10 - 1 if nbytes % 10 > 1 else 1)
        tys, svs = [lead, code_, 'x'], [gen_basic(rng, lead), s, -2]
    elif kind == 'array-of-long-strings':
        tys = [('a', 's'), 'u']
        svs = [['a' * rng.choice([255, 256, 300]) for _ in range(rng.choice([2, 9]))], 5]
    elif kind == 'signature-long':
        n = rng.choice(SIG_LENGTHS)
        g = rng.choice(['i' * n, '(' + 'y' * (n - 2) + ')', 'a' * 31 + 'y' + 'u' * (n - 32)])
        tys, svs = [lead, 'g', 'u'], [gen_basic(rng, lead), g, 9]
    elif kind == 'variant-signature-long':
        n = rng.choice(SIG_LENGTHS)
        vt = ('(', tuple(['y'] * (n - 2)))
        tys, svs = [lead, 'v', 'u'], [gen_basic(rng, lead), ('V', vt, [i % 256 for i in range(n - 2)]), 9]
    elif kind in ('deep-arrays', 'deep-structs', 'deep-mixed'):
        depth = rng.choice([8, 9, 16, 31, 32])
        if kind == 'deep-arrays':
            levels = 'a' * depth
        elif kind == 'deep-structs':
            levels = '(' * depth
        else:
            levels = 'a(' * depth                      # the specification's limit: 32 arrays AND 32 structs
        leaf = rng.choice(['y', 'x', 's'])
        ty = _nest(rng, levels, leaf)
        tys, svs = [lead, ty], [gen_basic(rng, lead), _nest_spec(ty, gen_basic(rng, leaf))]
    elif kind == 'nan-key':
        vt = rng.choice(['i', 's', 'v'])
        nan = _dbl(rng.choice([0x7FF8000000000000, 0xFFF8000000000001, 0x7FF0000000000001]))
        entries = [(nan, gen_spec(rng, vt, 1)), (1.5, gen_spec(rng, vt, 1))]
        rng.shuffle(entries)
        tys, svs = [('a', ('{', 'd', vt))], [entries]
    else:
        raise ValueError(kind)
    return kind, tys, svs


def spell_case(rng, tys, svs):
    """Python spelling of a whole case: (pvs, descriptors in wire order, expected decoding)."""
    for _ in range(50):
        try:
            fds = []
            pvs = [to_python(rng, t, s, fds) for t, s in zip(tys, svs)]
            return pvs, fds, [expected_decoded(t, s) for t, s in zip(tys, svs)]
        except Retry:
            continue
    raise RuntimeError('could not spell the case %s' % render_all(tys))


def top_spelling(rng, pvs):
    """The `variableList` handed to marshal(): a list, a tuple or an object declaring its field order."""
    r = rng.random()
    if r < 0.6:
        return list(pvs), 'list'
    if r < 0.8:
        return tuple(pvs), 'tuple'
    return DbusOrderStruct(list(pvs)), 'dbusOrder-object'


def value_stats(ty, sv, stat, depth=0, in_variant=0):
    """Report the dimensions on which size- or shape-dependent defects hinge (`stat(key)` is called per value)."""
    if isinstance(ty, str):
        if ty == 'v':
            stat('variant-nesting=%d' % min(in_variant + 1, 4))
            if sv[1] in ('i', 'x', 't') and sv[2] in PLAIN_INT_BOUNDARIES:
                stat('variant:plain-int-at-range-boundary')
                if abs(sv[2]) in (2 ** 31, 2 ** 63):
                    stat('variant:plain-int-exactly-2^31-or-2^63')
            stat('variant-content-signature-length=%s' % _bucket(len(render(sv[1])), [1, 4, 20, 127, 255]))
            value_stats(sv[1], sv[2], stat, depth, in_variant + 1)
        elif ty in 'so':
            n = len(sv.encode('utf-8'))
            stat('string-bytes=%s' % _bucket(n, [0, 8, 40, 255, 65535]))
            if any(ord(c) > 127 for c in sv):
                stat('string:non-ascii')
        elif ty == 'g':
            stat('signature-value-length=%s' % _bucket(len(sv), [0, 4, 20, 127, 255]))
        elif ty == 'd' and sv != sv:
            stat('double:nan')
        return
    if ty[0] == 'a':
        stat('array-length=%s' % _bucket(len(sv), [0, 1, 5, 16, 64]))
        if not sv:
            stat('empty-array-of-alignment=%d' % ALIGN[code(ty[1])])
        for e in sv:
            value_stats(ty[1], e, stat, depth + 1, in_variant)
    elif ty[0] == '(':
        for f, e in zip(ty[1], sv):
            value_stats(f, e, stat, depth + 1, in_variant)
    else:
        if isinstance(sv[0], float) and sv[0] != sv[0]:
            stat('dict-key:nan')
        value_stats(ty[1], sv[0], stat, depth + 1, in_variant)
        value_stats(ty[2], sv[1], stat, depth + 1, in_variant)


def _bucket(n, edges):
    prev = None
    for e in edges:
        if n <= e:
            return ('%d' % e) if prev is None or prev + 1 == e else '%d..%d' % (prev + 1, e)
        prev = e
    return '>%d' % edges[-1]


def type_stats(ty):
    """(nesting depth, number of type codes) of a type - for distribution reports."""
    return depth_of(ty), len(render(ty))


# ---------------------------------------------------------------------------- heterogeneous containers inside variants
# A list (or the values of a dict) carried by a variant whose members are NOT all of one Python class has no single
# element type: it travels as an array of variants ('av' / 'a{kv}'), every member under the type of its own class -
# a plain int by its range, a typed wrapper by its `dbusSignature`, bool as BOOLEAN, str / ObjectPath / Signature as
# 's' / 'o' / 'g'.  `to_python` never spells the mixtures in which a later member is an instance of a SUBCLASS of the
# first member's class (plain int then Int64 / UInt32 / bool, plain str then ObjectPath ...); the generators below do.
# The expectation is written from the classes alone (no call of txdbus's inference).
MIXED_INT_KINDS = ['int', 'int', 'bool', 'y', 'n', 'q', 'i', 'u', 'x', 't', 'Boolean']
MIXED_STR_KINDS = ['str', 'str', 'o', 'g']
MIXED_ANY_KINDS = MIXED_INT_KINDS + MIXED_STR_KINDS + ['float']


def mixed_member(rng, kind):
    """(type, spec value, Python value) of one member of a mixed container: `kind` = 'int' (plain int, typed by its
    range), 'bool', 'Boolean' (the wrapper), a code of INT_RANGE (the typed wrapper of that code), 'str', 'o', 'g'
    (ObjectPath / Signature wrapper), 'float'."""
    m = _m()
    if kind == 'int':
        n = rng.choice(PLAIN_INT_BOUNDARIES) if rng.random() < 0.5 else rng.choice([0, 1, 2, 5, -3, 1000, 70000])
        return plain_int_type(n), n, n
    if kind == 'bool':
        b = rng.random() < 0.5
        return 'b', b, b
    if kind == 'Boolean':
        b = rng.random() < 0.5
        return 'b', b, m.Boolean(1 if b else 0)
    if kind in INT_RANGE:
        n = gen_basic(rng, kind)
        return kind, n, getattr(m, WRAPPER[kind])(n)
    if kind == 'str':
        s = _gen_string(rng)
        return 's', s, s
    if kind == 'o':
        p = _gen_path(rng)
        return 'o', p, m.ObjectPath(p)
    if kind == 'g':
        g = rng.choice(SIGS)
        return 'g', g, m.Signature(g)
    if kind == 'float':
        x = gen_basic(rng, 'd')
        return 'd', x, x
    raise ValueError(kind)


def _mixed_tuple(rng):
    """A struct member: a tuple is typed field by field, whatever the classes of its fields."""
    ms = [mixed_member(rng, rng.choice(MIXED_ANY_KINDS)) for _ in range(rng.choice([1, 2, 3]))]
    return ('(', tuple(t for t, _, _ in ms)), [s for _, s, _ in ms], tuple(p for _, _, p in ms)


def gen_mixed_members(rng, depth=1):
    """Two or more members (type, spec value, Python value), at least one of the later ones of another exact class than
    the first - favouring a PLAIN first member followed by instances of subclasses of its class."""
    family = rng.choice(['int', 'int', 'int', 'str', 'any'])
    kinds = {'int': MIXED_INT_KINDS, 'str': MIXED_STR_KINDS, 'any': MIXED_ANY_KINDS}[family]
    first = ('str' if family == 'str' else 'int') if rng.random() < 0.6 else rng.choice(kinds)
    members = [mixed_member(rng, first)]
    for _ in range(rng.choice([1, 1, 2, 3, 5])):
        r = rng.random()
        if depth > 0 and r < 0.08:
            sv, pv = gen_mixed_container(rng, depth - 1)
            members.append((sv[1], sv[2], pv))
        elif r < 0.14:
            members.append(_mixed_tuple(rng))
        else:
            members.append(mixed_member(rng, rng.choice(kinds)))
    cls0 = type(members[0][2])
    if all(type(p) is cls0 for _, _, p in members[1:]):
        for _ in range(100):
            cand = mixed_member(rng, rng.choice(kinds))
            if type(cand[2]) is not cls0:
                break
        else:
            cand = ('d', 1.5, 1.5) if cls0 is not float else ('s', 'x', 'x')
        members[rng.randrange(1, len(members))] = cand
    return members


def _mixed_keys(rng, n):
    """`n` distinct dict keys of ONE class (the key type is read off one key): (key type, spec keys, Python keys)."""
    m = _m()
    r = rng.random()
    if r < 0.7:
        pool = ['', 'a', 'k', 'volume', 'position', 'é', 'opts', 'x' * 9, 'key with space', '€']
        ks = rng.sample(pool, n)
        return 's', ks, ks
    if r < 0.85:
        ks = rng.sample([0, 1, -1, 7, 255, 256, 2 ** 31 - 1, -2 ** 31, 65536, -300], n)
        return 'i', ks, ks
    c = rng.choice(['y', 'q', 'u', 't', 'x'])
    ks = rng.sample(sorted(set(BOUNDARY[c]) | {2, 3, 5, 8, 13, 21, 34, 55}), n)
    return c, ks, [getattr(m, WRAPPER[c])(k) for k in ks]


def gen_mixed_container(rng, depth=1):
    """(spec value of type 'v', Python value): a variant holding a heterogeneous list ('av') or a dict with
    heterogeneous values ('a{kv}')."""
    members = gen_mixed_members(rng, depth)
    if rng.random() < 0.6:
        ty = ('a', 'v')
        sv = [('V', t, s) for t, s, _ in members]
        pv = [p for _, _, p in members]
    else:
        kt, ksv, kpv = _mixed_keys(rng, len(members))
        ty = ('a', ('{', kt, 'v'))
        sv = [(k, ('V', t, s)) for k, (t, s, _) in zip(ksv, members)]
        pv = {k: p for k, (_, _, p) in zip(kpv, members)}
    return ('V', ty, sv), pv


MIXED_CONTEXTS = ['v', 'v', 'av', 'a{sv}', 'a{sv}', '(vy)', 'v(..)', 'vv']


def gen_mixed_case(rng, context=None):
    """(context, types, spec values, Python values): a heterogeneous container held by a variant that sits at top
    level, in an array of variants, as a value of an `a{sv}` dict, in a struct, or (typed field by field) in a tuple
    inside a variant."""
    context = context or rng.choice(MIXED_CONTEXTS)
    lead = rng.choice(['y', 'u', 'x', 's', 'q'])
    lead_sv = gen_basic(rng, lead)
    sv, pv = gen_mixed_container(rng)

    def other_variant():
        for _ in range(50):
            try:
                s = gen_spec(rng, 'v', 1)
                return s, to_python(rng, 'v', s)
            except Retry:
                continue
        return ('V', 'i', 0), 0
    if context == 'v':
        tys, svs, pvs = ['v'], [sv], [pv]
    elif context == 'vv':
        sv2, pv2 = gen_mixed_container(rng)
        tys, svs, pvs = ['v', 'v'], [sv, sv2], [pv, pv2]
    elif context == 'av':
        items = [other_variant() for _ in range(rng.choice([0, 1, 2]))]
        items.insert(rng.randrange(len(items) + 1), (sv, pv))
        tys, svs, pvs = [('a', 'v')], [[s for s, _ in items]], [[p for _, p in items]]
    elif context == 'a{sv}':
        items = [other_variant() for _ in range(rng.choice([0, 1, 2]))]
        items.insert(rng.randrange(len(items) + 1), (sv, pv))
        keys = rng.sample(['opts', 'a', '', 'Metadata', 'é', 'k2'], len(items))
        tys = [('a', ('{', 's', 'v'))]
        svs = [[(k, s) for k, (s, _) in zip(keys, items)]]
        pvs = [{k: p for k, (_, p) in zip(keys, items)}]
    elif context == '(vy)':
        tys, svs = [('(', ('v', 'y'))], [[sv, 9]]
        pvs = [rng.choice([tuple, list])([pv, 9])]
    elif context == 'v(..)':
        t0, s0, p0 = mixed_member(rng, rng.choice(MIXED_ANY_KINDS))
        vt = ('(', (t0, sv[1]))
        tys, svs, pvs = ['v'], [('V', vt, [s0, sv[2]])], [(p0, pv)]
    else:
        raise ValueError(context)
    return context, [lead] + tys, [lead_sv] + svs, [to_python(rng, lead, lead_sv)] + pvs


def mixed_matrix():
    """Deterministic: every (class of the first member) x (class of a later member, at both ends of its range) pair
    of different classes, as ((type, spec value, Python value) first, ... later)."""
    m = _m()
    firsts = [('i', 1, 1), ('x', 2 ** 40, 2 ** 40), ('t', 2 ** 63, 2 ** 63), ('b', True, True), ('s', 'a', 'a'),
              ('d', 1.5, 1.5), ('i', 7, m.Int32(7)), ('y', 1, m.Byte(1)), ('x', -5, m.Int64(-5))]
    laters = []
    for c in 'ynqiuxt':
        lo, hi = INT_RANGE[c]
        laters += [(c, lo, getattr(m, WRAPPER[c])(lo)), (c, hi, getattr(m, WRAPPER[c])(hi))]
    laters += [('b', False, False), ('b', True, True), ('b', True, m.Boolean(1)), ('o', '/a', m.ObjectPath('/a')),
               ('g', 'ai', m.Signature('ai')), ('i', -2 ** 31, -2 ** 31), ('x', 2 ** 31, 2 ** 31),
               ('x', -2 ** 63, -2 ** 63), ('t', 2 ** 64 - 1, 2 ** 64 - 1), ('s', 'é', 'é'), ('d', -0.5, -0.5)]
    return [(f, l) for f in firsts for l in laters if type(f[2]) is not type(l[2])]


def mixed_stats(ty, sv, pv, stat):
    """Distribution report for a value holding mixed containers (walks type, spec value and Python value together)."""
    if isinstance(ty, str):
        if ty == 'v':
            mixed_stats(sv[1], sv[2], pv, stat)
        return
    if ty[0] == '(':
        fields = list(pv) if isinstance(pv, (list, tuple)) else []
        for f, s, p in zip(ty[1], sv, fields):
            mixed_stats(f, s, p, stat)
        return
    if ty[0] != 'a':
        return
    el = ty[1]
    if el == 'v' and isinstance(pv, list):
        triples = list(zip([s[1] for s in sv], [s[2] for s in sv], pv))
    elif not isinstance(el, str) and el[0] == '{' and el[2] == 'v' and isinstance(pv, dict):
        triples = list(zip([s[1][1] for s in sv], [s[1][2] for s in sv], pv.values()))
    else:
        return
    if len(triples) >= 2:
        t0, s0, p0 = triples[0]
        sub = [(t, s, p) for t, s, p in triples[1:] if type(p) is not type(p0) and isinstance(p, type(p0))]
        if sub:
            stat('mixed:plain-first-then-wrapper-or-bool')      # only int and str have subclasses here
            if t0 in INT_RANGE and any(t in INT_RANGE and not INT_RANGE[t0][0] <= s <= INT_RANGE[t0][1]
                                       for t, s, _ in sub):
                stat('mixed:later-member-outside-range-of-first-type')
        elif any(type(p) is not type(p0) for _, _, p in triples[1:]):
            stat('mixed:unrelated-classes')
    for t, s, p in triples:
        mixed_stats(t, s, p, stat)


# ---------------------------------------------------------------------------- the specification's limits
MAX_ARRAY_NESTING = 32      # DBus specification: arrays nest at most 32 deep,
MAX_STRUCT_NESTING = 32     # structs (and dict entries) at most 32 deep,
MAX_SIGNATURE = 255         # a signature is at most 255 bytes long.


def _pad_types(tys, total, fill='y'):
    """`tys` followed by as many `fill` types as bring the whole signature to exactly `total` characters."""
    n = total - len(render_all(tys))
    if n < 0 or n % len(render(fill)):
        raise ValueError('cannot pad %s to %d' % (render_all(tys), total))
    return list(tys) + [fill] * (n // len(render(fill)))


def limit_cases(rng):
    """A fixed list of (kind, types, spec values) AT the limits of the DBus type grammar (never beyond them): 32
    nested arrays, 32 nested structs, both, signatures of exactly 255 characters - at top level, inside structs /
    arrays / dict entries, and as the inferred type of a value held by a variant (plain nested lists / tuples).
    The list of TYPES is the same on every run; `rng` only picks leaf values."""
    A, S = MAX_ARRAY_NESTING, MAX_STRUCT_NESTING
    out = []

    def leafval(leaf):
        if leaf == 'v':
            n = rng.choice(PLAIN_INT_BOUNDARIES)
            return ('V', plain_int_type(n), n)
        if isinstance(leaf, str):
            return gen_basic(rng, leaf)
        if leaf[0] == 'a':
            return [leafval(leaf[1]), leafval(leaf[1])]
        if leaf[0] == '(':
            return [leafval(f) for f in leaf[1]]
        return (leafval(leaf[1]), leafval(leaf[2]))

    def nested(levels, leaf):
        """`leaf` wrapped level by level, innermost first: 'a' = an array of one element, '(' = a struct of one field."""
        ty, sv = leaf, leafval(leaf)
        for kind in levels:
            ty, sv = (('a', ty), [sv]) if kind == 'a' else (('(', (ty,)), [sv])
        return ty, sv

    def add(kind, tys, svs):
        if len(render_all(tys)) > MAX_SIGNATURE:
            raise ValueError('limit case %s beyond the signature limit' % kind)
        out.append((kind, tys, svs))

    # -- arrays: exactly 32 (and 31) deep, several leaves, an empty innermost array, two elements per level at the top
    for leaf in ['y', 'x', 's', 'v', ('(', ('y', 'x')), ('{', 's', 'y')]:
        ty, sv = nested('a' * A, leaf)
        add('arrays-32', [ty], [sv])
    ty, sv = nested('a' * (A - 1), 'q')
    add('arrays-31', [ty], [sv])
    ty, sv = _nest(rng, 'a' * A, 'x'), []
    for _ in range(A - 1):
        sv = [sv]
    add('arrays-32-innermost-empty', ['y', ty], [1, sv])
    ty, sv = nested('a' * A, 'n')
    add('arrays-32-two-branches', [ty, 'y'], [[sv[0], sv[0]], 7])
    # -- structs: exactly 32 (and 31) deep
    for leaf in ['y', 'x', 's']:
        ty, sv = nested('(' * S, leaf)
        add('structs-32', [ty], [sv])
    ty, sv = nested('(' * (S - 1), 'u')
    add('structs-31', [ty], [sv])
    # -- one kind inside the other
    ty, sv = nested('a' * A, 'q')
    add('arrays-32-in-struct', [('(', ('y', ty, 'q'))], [[5, sv, 65535]])
    ty, sv = nested('(' * S, 'q')
    add('structs-32-in-array', ['y', ('a', ty)], [3, [sv, sv]])
    ty, sv = nested('a' * A + '(' * S, 'y')
    add('structs-32-around-arrays-32', [ty], [sv])
    ty, sv = nested('(' * S + 'a' * A, 'x')
    add('arrays-32-around-structs-32', ['y', ty], [1, sv])
    ty, sv = nested('a(' * A, 's')
    add('arrays-32-structs-32-alternating', [ty], [sv])
    ty, sv = nested('a' * (A - 1), ('{', 'y', ('a', 'u')))
    add('arrays-32-through-dict-entry', [ty], [sv])
    # -- signatures of exactly 255 characters (and 254)
    add('signature-255-bytes', ['y'] * MAX_SIGNATURE, [i % 256 for i in range(MAX_SIGNATURE)])
    add('signature-254-mixed', _pad_types(['s', 'x'], 254, 'q'), ['é', -1] + [i for i in range(252)])
    add('signature-255-one-struct', [('(', tuple(['y'] * (MAX_SIGNATURE - 2)))], [[i % 256 for i in range(MAX_SIGNATURE - 2)]])
    ty, sv = nested('a' * A, 'y')
    tys = _pad_types(['u', ty], MAX_SIGNATURE, 'u')
    add('signature-255-with-arrays-32', tys, [4, sv] + [2 ** 32 - 1] * (len(tys) - 2))
    ty, sv = nested('a' * A + '(' * S, 'y')
    tys = _pad_types([ty], MAX_SIGNATURE, 'q')
    add('signature-255-with-arrays-32-structs-32', tys, [sv] + [i for i in range(len(tys) - 1)])
    d = ('a', ('{', 's', 'v'))
    add('signature-255-dicts', [d] * (MAX_SIGNATURE // 5), [[] if i % 3 else [('k', ('V', 'i', i))] for i in range(MAX_SIGNATURE // 5)])
    add('signature-255-as-g-value', ['g', 'y'], ['a' * A + 'y' + '(' * S + 'i' + ')' * S + 'u' * (MAX_SIGNATURE - A - 2 * S - 2), 1])
    # -- the same limits for the type INFERRED for the content of a variant
    for leaf in ['i', 's', 'd', 'x', 'b']:
        ty, sv = nested('a' * A, leaf)
        add('variant-arrays-32', ['v'], [('V', ty, sv)])
    ty, sv = nested('a' * (A - 1), 'i')
    add('variant-arrays-31', ['y', 'v'], [0, ('V', ty, sv)])
    for leaf in ['i', 's']:
        ty, sv = nested('(' * S, leaf)
        add('variant-structs-32', ['v'], [('V', ty, sv)])
    ty, sv = nested('a(' * A, 'i')
    add('variant-arrays-32-structs-32-alternating', ['v'], [('V', ty, sv)])
    ty, sv = nested('a' * A + '(' * S, 'i')
    add('variant-structs-32-around-arrays-32', ['y', 'v'], [2, ('V', ty, sv)])
    ty, sv = nested('a' * A, 'i')
    add('variant-arrays-32-in-a{sv}', [d, 'y'], [[('deep', ('V', ty, sv)), ('flat', ('V', 's', 'x'))], 1])
    add('variant-arrays-32-in-av', [('a', 'v')], [[('V', 'i', 1), ('V', ty, sv)]])
    add('variant-arrays-32-in-struct', [('(', ('y', 'v'))], [[1, ('V', ty, sv)]])
    vt = ('(', ('y', ty, 's'))
    add('variant-struct-holding-arrays-32', ['v'], [('V', vt, [200, sv, 'z'])])
    n = MAX_SIGNATURE - 2
    add('variant-signature-255', ['v'], [('V', ('(', tuple(['i'] * n)), [i - 100 for i in range(n)])])
    vt = ('(', tuple([ty] + ['i'] * (MAX_SIGNATURE - 2 - A - 1)))
    add('variant-signature-255-with-arrays-32', ['v'], [('V', vt, [sv] + [0] * (MAX_SIGNATURE - 2 - A - 1))])
    return out


# ---------------------------------------------------------------------------- state-leak round: deterministic histories
# (2026-09-30)  Sequences of uses inside ONE scenario, for the codec harnesses (C01, C02): signatures that share a
# suffix, groups of Python values that are `==` / equal-hash but of different classes.  Nothing here calls txdbus's
# inference: the type of a member is written from its class alone.
def suffix_shapes(rng, used, want_fd=False, max_len=40):
    """A FRESH suffix signature S (two or more complete types; not in `used`, which is updated) and the signatures a
    history walks through: `X a S` (an array whose element type is the first type of S, then the rest of S - the splitter
    meets S as "everything after the `a`"), `S` itself, `(S)`, `a(S)`, and `X a S` behind a longer prefix.
    -> (S as a list of types, {name: list of types})."""
    for _ in range(200):
        n = rng.choice([2, 2, 2, 3, 3, 4])
        S = [gen_type(rng, rng.choice([0, 0, 0, 1, 1, 2])) for _ in range(n)]
        if want_fd and 'h' not in render_all(S):
            S[rng.randrange(len(S))] = rng.choice(['h', 'h', ('a', 'h'), ('(', ('h', 's'))])
        if not want_fd and 'h' in render_all(S):
            continue
        s = render_all(S)
        if s in used or len(s) > max_len:
            continue
        used.add(s)
        break
    else:
        raise RuntimeError('no fresh suffix signature left')
    allow_fd = want_fd
    X = [gen_type(rng, 1, allow_fd=allow_fd) for _ in range(rng.choice([0, 1, 1, 2]))]
    X2 = X + [gen_type(rng, 1, allow_fd=allow_fd)]
    shapes = {
        'XaS': X + [('a', S[0])] + S[1:],
        'S': list(S),
        '(S)': [('(', tuple(S))],
        'a(S)': [('a', ('(', tuple(S)))],
        'X2aS': X2 + [('a', S[0])] + S[1:],
    }
    return S, shapes


def ladder_numbers(k):
    """Members (type, spec value, Python value) that are all `==` k and hash alike but belong to different classes:
    plain int, float, every integer wrapper, and for 0 / 1 also bool and the Boolean wrapper.  0 <= k <= 255."""
    m = _m()
    out = [(plain_int_type(k), k, k), ('d', float(k), float(k))]
    for c in 'ynqiuxt':
        out.append((c, k, getattr(m, WRAPPER[c])(k)))
    if k in (0, 1):
        out += [('b', bool(k), bool(k)), ('b', bool(k), m.Boolean(k))]
    return out


def ladder_strings(i):
    """Two groups of equal strings of different classes: (plain str, ObjectPath) and (plain str, Signature)."""
    m = _m()
    p = '/eq%d/p' % i
    g = 'a' * (i % 5) + 'i' + 'u' * (i % 3)
    return [[('s', p, p), ('o', p, m.ObjectPath(p))], [('s', g, g), ('g', g, m.Signature(g))]]


LADDER_CONTEXTS = ['v', 'v(ms)', 'v((m))', 'va{ms}', 'v[m]', 'a{sv}', 'av', 'v(sm)m']


def ladder_case(context, member, tag='x'):
    """(types, spec values, Python values) of one member in one context: bare in a variant, as a field of a tuple, in a
    nested tuple, as a dict key, in a one-element list, as a value of an `a{sv}` dict, as an element of `av`, and twice
    in one call."""
    t, s, p = member
    if context == 'v':
        return ['v'], [('V', t, s)], [p]
    if context == 'v(ms)':
        return ['v'], [('V', ('(', (t, 's')), [s, tag])], [(p, tag)]
    if context == 'v((m))':
        return ['v'], [('V', ('(', (('(', (t,)),)), [[s]])], [((p,),)]
    if context == 'va{ms}':
        return ['v'], [('V', ('a', ('{', t, 's')), [(s, tag)])], [{p: tag}]
    if context == 'v[m]':
        return ['v'], [('V', ('a', t), [s])], [[p]]
    if context == 'a{sv}':
        return [('a', ('{', 's', 'v'))], [[(tag, ('V', t, s))]], [{tag: p}]
    if context == 'av':
        return [('a', 'v')], [[('V', t, s)]], [[p]]
    if context == 'v(sm)m':
        return ['v', 'v'], [('V', ('(', ('s', t)), [tag, s]), ('V', t, s)], [(tag, p), p]
    raise ValueError(context)


def ladders(n_numbers=9, all_rotations=False):
    """Deterministic list of (name, [ (context, member), ... ]): per context and per group of equal members one sequence
    in which every member appears, the class that comes FIRST rotating from group to group (the numbers / strings of two
    sequences differ, so each sequence meets its group for the first time)."""
    out = []
    numbers = [1, 0, 2, 3, 5, 7, 100, 200, 255, 4, 6, 8, 9, 10, 11, 12, 13, 14, 15, 16][:n_numbers]
    si = 0
    for ci, context in enumerate(LADDER_CONTEXTS):
        for ki, k in enumerate(numbers):
            members = ladder_numbers(k)
            rots = range(len(members)) if all_rotations else [(ci + ki) % len(members)]
            for r in rots:
                seq = members[r:] + members[:r]
                out.append(('%s:%d:rot%d' % (context, k, r), [(context, mb, 'x%d' % k) for mb in seq]))
        for _ in range(2 if not all_rotations else 4):
            for group in ladder_strings(si):
                seq = group if si % 2 == 0 else group[::-1]
                out.append(('%s:%s:%s-first' % (context, seq[0][1], seq[0][0]), [(context, mb, 'x') for mb in seq]))
            si += 1
    return out


def damage(rng, body, le):
    """A damaged copy of an encoding (truncated, bytes flipped, a length word overwritten, bytes inserted) -> (kind, bytes)."""
    body = bytearray(body)
    kind = rng.choice(['truncate', 'truncate', 'flip', 'flip', 'len', 'insert'])
    if kind == 'truncate' and body:
        body = body[:rng.randrange(len(body))]
    elif kind == 'flip' and body:
        for _ in range(rng.choice([1, 1, 2, 4])):
            i = rng.randrange(len(body))
            body[i] = rng.choice([0, 1, 2, 4, 7, 8, 0x7f, 0x80, 0xff, body[i] ^ (1 << rng.randrange(8))])
    elif kind == 'len' and len(body) >= 4:
        i = rng.randrange(0, len(body) - 3)
        body[i:i + 4] = struct.pack('<I' if le else '>I', rng.choice([0, 1, 3, 4, 5, 7, 8, 9, 16, 255, 256, 65536,
                                                                    2 ** 26, 2 ** 31, 2 ** 32 - 1, len(body)]))
    elif kind == 'insert' and body:
        i = rng.randrange(len(body) + 1)
        body[i:i] = bytes(rng.choice([0, 1, 0xff]) for _ in range(rng.choice([1, 2, 4])))
    return kind, bytes(body)


def map_fds(ty, sv, f):
    """The spec value with every descriptor `d` replaced by `f(d)` (same wire bytes: the wire carries indices)."""
    if isinstance(ty, str):
        if ty == 'h':
            return f(sv)
        if ty == 'v':
            return ('V', sv[1], map_fds(sv[1], sv[2], f))
        return sv
    if ty[0] == 'a':
        return [map_fds(ty[1], e, f) for e in sv]
    if ty[0] == '(':
        return [map_fds(t, e, f) for t, e in zip(ty[1], sv)]
    return (map_fds(ty[1], sv[0], f), map_fds(ty[2], sv[1], f))
