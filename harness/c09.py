"""C09 - connecting always concludes; a lost connection fails all pending work once.
Correspondence + oracle harness.

Every scenario is a finite history driven through the REAL `txdbus.client.connect`:

  * `twisted.internet.testing.MemoryReactorClock` records the connection attempts of the endpoints that
    `endpoints.getDBusEndpoints` built; the harness fails or completes each attempt
    (`_WrappingFactory.clientConnectionFailed` / `buildProtocol` + `makeConnection` on a StringTransport;
    unix entries get a transport that provides IUNIXTransport, so that their handshake negotiates
    descriptor passing);
  * handshake lines, the Hello reply / error and later replies are real bytes through `dataReceived`
    (whole, or cut anywhere: "before / within / after each line");
  * the transport close (`connectionLost(reason)`) is injected at EVERY point of every base history;
  * `txdbus.client.reactor` is the same MemoryReactorClock, so call timeouts are virtual DelayedCalls;
  * pending calls and disconnect callbacks are real Python callables that carry a reaction
    (nothing / issue a new call / unregister itself / register another callback / obtain a new proxy
    synchronously from explicit interfaces and register a callback on it) which they perform
    when the code runs them inside `connectionLost`;
  * the CALLER may cancel the Deferred that callRemote / getRemoteObject handed back while the reply is outstanding
    (`Deferred.cancel()`: it fires with CancelledError at once; txdbus is not told, the `_pendingCalls` entry and its
    DelayedCall stay until a reply, the timeout or the loss deletes them - each of which must then fire NOTHING on that
    Deferred, while the loss must still cancel its timer);
  * proxies come from `getRemoteObject` with explicit interfaces (a DBusInterface, a list of them, a known
    name) and via introspection (interfaces=None, an unknown name, a list with an unknown name; the
    Introspect reply is scripted XML); the user "drops" a proxy by deleting the only strong reference.

A scenario of the stream `lifecycle-reconnect` is ONE PROCESS that calls `client.connect` several times with the same
address string on the same reactor (a reconnect after a loss; connections side by side): nothing a real process would
not reset is reset between its connects (same reactor object, same modules, same environment), and each connect is
judged like a single one - in particular its attempts must be the listed addresses in listed order up to the first
one reachable THIS time.

Two judgements per scenario:
  S3 correspondence  trace of observable effects + final tables  ==  Lean model (drv_c09, `life`);
                     parsed endpoint list == Lean model (`parse`)
  S4 oracle          implementation only, written from the property statement (see `judge`).
"""
import gc
from harness import c09_locate
from harness import c09_handshake
from harness.c09_locate import Reach
import itertools
import os
import shutil
import tempfile
import weakref

STREAMS = ['endpoints-parse', 'lifecycle-close-everywhere', 'lifecycle-random', 'lifecycle-reactions',
           'lifecycle-extended', 'lifecycle-reconnect', 'lifecycle-two-live', 'connect-through-handshake']
THEOREMS = ['connect_fires_once', 'first_reachable_in_order', 'lost_fails_everything_once', 'cancelled_only_by_caller',
            'every_connect_tries_in_written_order', 'endpoint_prefix_table',
            'address_list_in_listed_order', 'written_addresses_tried_in_order',
            'connect_fired_iff_terminated_through_handshake', 'refused_authentication_fails_connect',
            'rejected_by_every_mechanism_fails_connect', 'connect_succeeds_when_handshake_completes',
            'connect_succeeds_against_spec_server']
TRUSTED_BASE = [
    'Twisted semantics assumed by the model and emulated by the harness: connectionLost is delivered once, no data '
    'after it; transport.loseConnection() is followed by connectionLost(ConnectionDone); an exception escaping '
    'dataReceived is turned into connectionLost; endpoint connect Deferreds fire once (MemoryReactorClock + '
    '_WrappingFactory are the real Twisted classes)',
    'Python semantics mirrored by hand in Client/Lifecycle.lean and Client/Endpoints.lean and validated only by the '
    'streams: list iteration by index under mutation, dict size check in a dict iterator, list.remove (first match), '
    'WeakValueDictionary (entry dies with its value, dict order), str.split / startswith / int() on ASCII, '
    'function-level scope of the variable `path` in getDBusEndpoints',
    'the weak_id (busName, objectPath, interfaces) of a proxy is abstracted to a natural number; equal keys <=> equal triples',
    'Deferred / DelayedCall: a cell that fires once, a timer that is live until cancelled or fired; Deferred.cancel() '
    'without a canceller fires CancelledError at once and swallows the NEXT callback/errback made on it '
    '(_suppressAlreadyCalled) - mirrored by Call.cancelled, validated by the streams',
]
ASSUMPTIONS = [
    'connect-through-handshake (C09 x C07, Client/ConnectAuth.lean): after transport.loseConnection() the transport delivers '
    'no further dataReceived; that the reactor then calls connectionLost is NOT assumed by the model - it is the step '
    '`lost`, and a run without it is a run in which nothing fires (stated next to connect_fired_iff_terminated_through_handshake); '
    'the binary framing / decoding of the Hello answer is a parameter of the model (owned by C04, C03, C08)',
    'Twisted calls connectionLost exactly once per connection and delivers nothing afterwards',
    'the Hello reply of a bus carries the unique name as one string (a reply without a body leaves busName None)',
    'address lists are well-formed (malformed ones are compared with the model but not judged: connect() raises instead '
    'of returning a Deferred)',
    'reactions issue calls WITHOUT a timeout; callbacks do not raise; a callback registered or a call issued while '
    'connectionLost is running is not owed anything by the property (the oracle only demands "at most once" for them)',
    'calls issued on a connection after it was lost are outside the property',
]
RULE = ('endpoints-parse: rendered well-formed address lists plus mutations (dropped keys, doubled "=", prefix in a '
        'later component, launchd/unknown transports, session/system).  lifecycle-*: a base history = address list '
        'with a chosen unreachable prefix (each failing with one of 14 exception classes: refused, other ConnectErrors, DNSLookupError, timeouts, OSError, Exception, CancelledError, ...), a scripted handshake (REJECTED/ERROR/DATA steps, unix-fd negotiation, cut '
        'lines), Hello reply or error (whole or cut), 0..14 user operations (incl. the caller cancelling the Deferred of '
        'an outstanding call, timed or not) and replies/expiries on the ready '
        'connection, optionally the close; close-everywhere = every prefix of a base history followed by the close; '
        'reactions = every assignment of the six reactions to a fixed skeleton of callbacks and calls; reconnect = one '
        'process that connects 2..4 times with the same address string on the same reactor (each earlier connection lost '
        'or left open beside the next), every pattern of reachable addresses over three connects of `A;B` and `A;B;C`.  '
        'connect-through-handshake = the factory\'s protocol on a recording transport, server byte scripts (accept the k-th '
        'mechanism / reject all / any mix of REJECTED, ERROR, DATA, OK good and bad, AGREE_UNIX_FD, lines outside the protocol, '
        'non-UTF-8, over-long lines; then the Hello reply with / without name, error, a non-message, a reply to another call, '
        'a partial answer, nothing) cut into reads anywhere, connectionLost before every read / after the last / never / twice.  distinct = '
        'distinct canonical JSON of (address, steps); non-trivial = the transport connected (lifecycle) / at least one '
        'entry (parse)')

REACTIONS = ['n', 'c', 'u', 'r', 'p', 'x']
_UNIQUE = [0]
XML_HEAD = ('<!DOCTYPE node PUBLIC "-//freedesktop//DTD D-BUS Object Introspection 1.0//EN" '
            '"http://www.freedesktop.org/standards/dbus/1.0/introspect.dtd">\n')


def hexs(s):
    return ''.join('%06x' % ord(c) for c in s) or '-'


# ----------------------------------------------------------------------------------------------------------------
# address lists (written from the DBus specification; independent of endpoints.py)

def render_entry(e):
    """transport:key=value,...  (DBus specification); `guid` is an optional extra key, `swap` permutes host/port."""
    k = e['kind']
    if k == 'unix':
        kv = [('path', e['path'])]
    elif k == 'tmpdir':
        kv = [('tmpdir', e['dir'])]
    elif k == 'abstract':
        kv = [('abstract', e['name'])]
    elif k == 'tcp':
        kv = [('host', e['host']), ('port', '%d' % e['port'])]
    elif k == 'nonce-tcp':
        kv = [('host', e['host']), ('port', '%d' % e['port']), ('noncefile', e['noncefile'])]
    else:
        raise ValueError(k)
    if e.get('swap') and len(kv) >= 2:
        kv[0], kv[1] = kv[1], kv[0]
    if e.get('guid'):
        kv.insert(e.get('guidpos', len(kv)) % (len(kv) + 1), ('guid', e['guid']))
    transport = {'unix': 'unix', 'tmpdir': 'unix', 'abstract': 'unix', 'tcp': 'tcp', 'nonce-tcp': 'nonce-tcp'}[k]
    return transport + ':' + ','.join('%s=%s' % p for p in kv)


def entry_target(e):
    """The `at:` token an attempt on this entry must show."""
    k = e['kind']
    if k == 'unix':
        return 'at:U:' + hexs(e['path'])
    if k == 'tmpdir':
        return 'at:U:' + hexs(e['dir'] + '/dbus-' + str(os.getpid()))
    if k == 'abstract':
        return 'at:U:' + hexs('\0' + e['name'])
    return 'at:T:%s:%d' % (hexs(e['host']), e['port'])


def gen_entry(rng, tmp):
    k = rng.choice(['unix', 'unix', 'abstract', 'tmpdir', 'tcp', 'tcp', 'nonce-tcp'])
    if k == 'unix':
        e = {'kind': 'unix', 'path': rng.choice(['/tmp/verif-bus-%d' % rng.randrange(4), '/run/user/0/bus',
                                                 '/var/run/dbus/system_bus_socket', 'rel/é-bus'])}
    elif k == 'tmpdir':
        e = {'kind': 'tmpdir', 'dir': rng.choice(['/tmp', '/tmp/verif-%d' % rng.randrange(3), '/var/tmp'])}
    elif k == 'abstract':
        e = {'kind': 'abstract', 'name': rng.choice(['/tmp/dbus-Xy%d' % rng.randrange(4), 'verif'])}
    else:
        host = rng.choice(['127.0.0.1', 'localhost', '::1', 'bus.example.org', '10.0.0.%d' % rng.randrange(9)])
        port = rng.choice([1, 80, 1234, 65535, rng.randrange(1, 65536)])
        e = {'kind': k, 'host': host, 'port': port}
        if k == 'nonce-tcp':
            e['noncefile'] = os.path.join(tmp, 'nonce')
        if rng.random() < 0.25:
            e['swap'] = True
    if rng.random() < 0.35:           # every real DBUS_SESSION_BUS_ADDRESS carries ,guid=...
        e['guid'] = '%032x' % rng.getrandbits(128)
        e['guidpos'] = rng.randrange(4)
    return e


EMPTY_ADDRESSES = ['', ';', 'launchd:env=DBUS_LAUNCHD_SESSION_BUS_SOCKET', 'autolaunch:', 'x-unknown:a=b;']


def gen_address(rng, tmp, n=None):
    if n is None:
        n = rng.choice([0, 1, 1, 1, 2, 2, 3, 4])
    entries = [gen_entry(rng, tmp) for _ in range(n)]
    if n == 0:
        return entries, rng.choice(EMPTY_ADDRESSES)
    addr = ';'.join(render_entry(e) for e in entries)
    if rng.random() < 0.15:
        addr += ';'                       # a trailing separator adds no endpoint
    return entries, addr


# ----------------------------------------------------------------------------------------------------------------
# the real code, driven step by step

class Mods:
    def __init__(self):
        from twisted.internet import error as tie, interfaces
        from twisted.internet.address import UNIXAddress
        from twisted.internet.testing import MemoryReactorClock, StringTransport
        from twisted.python.failure import Failure
        from zope.interface import implementer
        import txdbus.client as client
        import txdbus.protocol
        from txdbus import endpoints, error, interface, message
        if hasattr(txdbus.protocol, '_is_linux'):
            txdbus.protocol._is_linux = False      # server-side credential lookup; irrelevant to a client
        self.tie, self.client, self.message, self.error = tie, client, message, error
        self.interface, self.endpoints = interface, endpoints
        self.Failure, self.MemoryReactorClock, self.StringTransport = Failure, MemoryReactorClock, StringTransport
        self.UNIXAddress = UNIXAddress

        @implementer(interfaces.IUNIXTransport)
        class UnixStringTransport(StringTransport):
            def sendFileDescriptor(self, fd):
                pass
        self.UnixStringTransport = UnixStringTransport

        class ObservedClock(MemoryReactorClock):
            """MemoryReactorClock whose DelayedCalls report their cancellation."""
            on_cancel = None

            on_call_later = None

            def callLater(self, delay, f, *a, **kw):
                dc = MemoryReactorClock.callLater(self, delay, f, *a, **kw)
                if self.on_call_later is not None:
                    self.on_call_later(dc)
                orig = dc.canceller

                def canceller(c):
                    if self.on_cancel is not None:
                        self.on_cancel(c)
                    orig(c)
                dc.canceller = canceller
                return dc
            # attempt index -> exception: that connectTCP/connectUNIX call is recorded, then raises
            # (the endpoint turns it into an already-failed Deferred: try_next_ep runs inside connect())
            sync_fail = None

            on_attempt = None

            def _maybe_raise(self):
                if self.on_attempt is not None:
                    self.on_attempt()         # the attempt is observed the moment it is made
                k = len(self.connectors) - 1
                if self.sync_fail and k in self.sync_fail:
                    raise self.sync_fail[k]

            def connectTCP(self, *a, **kw):
                c = MemoryReactorClock.connectTCP(self, *a, **kw)
                self._maybe_raise()
                return c

            def connectUNIX(self, *a, **kw):
                c = MemoryReactorClock.connectUNIX(self, *a, **kw)
                self._maybe_raise()
                return c
        self.ObservedClock = ObservedClock
        # the module global(s) of txdbus.client through which it reaches the reactor (`reactor` today)
        from twisted.internet import reactor as real_reactor
        self.reactor_names = [n for n, v in vars(client).items() if v is real_reactor] or ['reactor']
        self.DBusClientConnection = client.DBusClientConnection
        self.loc = c09_locate.Locator(self)


# Reactions beyond the model's alphabet, exercised by the implementation-only stream `lifecycle-extended`:
#   d  let go of another live proxy (the user's last reference) while connectionLost runs
#   t  issue a call WITH a timeout
#   k  cancel another registered callback of the same list (one that has not run yet, if any)
#   q  conn.disconnect() (transport.loseConnection() on a transport that is already gone)
EXTENDED = ('d', 't', 'k', 'q')


class VerifCallbackError(Exception):
    """What a callback with reaction 'x' raises."""


class ConnCb:
    def __init__(self, run, cid, r):
        self.run, self.cid, self.r = run, cid, r

    def __call__(self, conn, reason):
        run = self.run
        run.fx.append('cc:%d' % self.cid)
        run.cb_runs[self.cid] = run.cb_runs.get(self.cid, 0) + 1
        if self.r == 'c':
            run.issue_call(conn, None, 'n', during_loss=True)
        elif self.r == 'u':
            conn.cancelNotifyOnDisconnect(self)
        elif self.r == 'r':
            conn.notifyOnDisconnect(ConnCb(run, run.new_cb(late=True), 'n'))
        elif self.r == 'p':
            run.late_proxy(conn)
        elif self.r == 'x':
            raise VerifCallbackError('connection-level disconnect callback #%d raises' % self.cid)
        elif self.r in EXTENDED:
            run.ext_react(self.r, conn, self, None)


class ProxyCb:
    def __init__(self, run, pid, cid, r):
        self.run, self.pid, self.cid, self.r = run, pid, cid, r

    def __call__(self, proxy, reason):
        run = self.run
        run.fx.append('pc:%d:%d' % (self.pid, self.cid))
        run.cb_runs[self.cid] = run.cb_runs.get(self.cid, 0) + 1
        if self.r == 'c':
            run.issue_call(run.proto, None, 'n', during_loss=True)
        elif self.r == 'u':
            proxy.cancelNotifyOnDisconnect(self)
        elif self.r == 'r':
            proxy.notifyOnDisconnect(ProxyCb(run, self.pid, run.new_cb(late=True), 'n'))
        elif self.r == 'p':
            run.late_proxy(run.proto)
        elif self.r == 'x':
            raise VerifCallbackError('disconnect callback #%d of proxy #%d raises' % (self.cid, self.pid))
        elif self.r in EXTENDED:
            run.ext_react(self.r, run.proto, self, self.pid)


class Run:
    """One scenario on the real code.  Everything observable goes to self.fx in the model's vocabulary."""

    def __init__(self, M, scenario, reactor=None):
        self.M = M
        self.sc = scenario
        self.shared_reactor = reactor      # an earlier connect of the same process made it (lifecycle-reconnect)
        self.attempt_missing = None
        self.fx = []
        self.fired = []
        self.parse_error = None
        self.phase = 'connecting'          # harness bookkeeping (what was DONE to the code), for the oracle only
        self.concluded_by = None
        self.wp = None
        self.transport = None
        self.proto = None
        self.closed = False
        self.close_reason = None
        self.loss_exc = None
        self.n_attempts_seen = 0
        self.n_unix = 0
        self.n_tcp = 0
        self.serial_idx = {}               # real serial -> issue index
        self.idx_serial = {}
        self.calls = {}                    # issue index -> dict(kind, timed, done, late)
        self.next_cb = 0
        self.cb_runs = {}
        self.late_cbs = set()
        self.conn_cbs = []                 # ConnCb objects registered through user operations (harness view)
        self.proxies = {}                  # proxy id -> dict(obj, ref, explicit, key, cbs (ProxyCb list), alive, cb_ids)
        self.next_proxy = 0
        self.at_loss = None                # snapshot taken just before a close in phase ready
        self.ifaces = {}
        self.unexpected = []
        self.double_fire = None
        self.stalled = None
        self.att = []
        self.af_count = 0
        self.dropped_in_loss = set()
        self.loss_thresholds = None
        self.lose_inside = set()
        self.fx_signal = 0
        self.signal_loses = False
        self.stat_inside = None
        self.cancelled_in_loss = set()
        self.deferreds = {}                # issue index -> the Deferred the caller was handed
        self.cancelling = None             # issue index of the call whose Deferred the caller is cancelling right now
        self.siblings = []                 # the other connections alive in the same process (lifecycle-two-live)
        self.cross = []                    # effects a step on ANOTHER connection had on this one

    # -- helpers ---------------------------------------------------------------------------------------------
    def new_cb(self, late=False):
        c = self.next_cb
        self.next_cb += 1
        if late:
            self.late_cbs.add(c)
        return c

    def note_attempts(self):
        conns = self.reactor.connectors
        while self.n_attempts_seen < len(conns):
            dest = conns[self.n_attempts_seen].getDestination()
            self.n_attempts_seen += 1
            if isinstance(dest, self.M.UNIXAddress):
                rec = self.reactor.unixClients[self.n_unix]
                self.cur_factory = rec[1]
                self.cur_unix = True
                self.n_unix += 1
                self.fx.append('at:U:' + hexs(rec[0]))
            else:
                rec = self.reactor.tcpClients[self.n_tcp]
                self.cur_factory = rec[2]
                self.cur_unix = False
                self.n_tcp += 1
                self.fx.append('at:T:%s:%d' % (hexs(rec[0]), rec[1]))
            self.cur_connector = conns[self.n_attempts_seen - 1]
            self.att.append((self.cur_factory, self.cur_connector, self.cur_unix))

    def _connected(self, res):
        kind = 'connection' if isinstance(res, self.M.client.DBusClientConnection) else 'value:' + type(res).__name__
        self.fired.append(kind)
        self.fx.append('cf:' + kind)

    def _connect_failed(self, f):
        M = self.M
        if f.check(M.tie.ConnectError) and not f.check(M.tie.ConnectionRefusedError):
            kind = 'noAddress' if 'No valid bus' in f.getErrorMessage() else 'unreachable'
        elif f.check(M.error.RemoteError) and 'without a bus name' in f.getErrorMessage():
            kind = 'helloNoName'
        elif f.check(M.error.RemoteError):
            kind = 'helloError'
        elif self.is_loss(f):
            kind = 'lostEarly'
        else:
            kind = 'failure:' + f.type.__name__
        self.fired.append(kind)
        self.fx.append('cf:' + kind)

    def is_loss(self, f):
        """Is this Failure the loss reason (the object, its exception, or an exception of the same class)?"""
        r = self.close_reason
        return r is not None and (f is r or f.value is r.value or type(f.value) is type(r.value))

    def enter(self, fn, *a):
        """Call into the library the way the reactor would; an escaping exception is recorded."""
        try:
            fn(*a)
            return None
        except Exception as e:          # noqa: BLE001
            if type(e).__name__ == 'AlreadyCalledError':
                self.double_fire = 'AlreadyCalledError in %s' % getattr(fn, '__name__', '?')
            return e

    def lose(self, reason):
        """The reactor's connectionLost(reason)."""
        self.closed = True
        self.close_reason = reason
        if self.phase == 'ready':
            self.snapshot_at_loss()
            self.phase = 'lost'
        else:
            if self.concluded_by is None:
                self.concluded_by = 'closed-early'
            self.phase = 'closedEarly'
        exc = self.enter(self.wp.connectionLost, reason)
        if exc is not None:
            self.loss_exc = exc
            self.fx.append('crash')

    def deliver(self, data, may_raise=False):
        if self.closed or not data:
            return
        exc = self.enter(self.wp.dataReceived, data)
        if exc is not None:
            if not may_raise:
                self.fx.append('crash')
                self.unexpected.append(repr(exc))
            self.lose(self.M.Failure(exc))
        elif self.transport.disconnecting and not self.closed:
            self.lose(self.M.Failure(self.M.tie.ConnectionDone()))

    def lose_from_inside(self, where):
        """The user's callback closes the connection (`conn.disconnect()`) on a transport that delivers
        connectionLost synchronously (as StringTransportWithDisconnection does): the loss happens INSIDE the callback,
        while the library is still in the middle of handling the reply / error / timeout / signal."""
        if self.closed:
            return
        self.stat_inside = where
        self.proto.disconnect()
        self.lose(self.M.Failure(self.M.tie.ConnectionDone()))

    def map_new_serials(self, kind, timed, r, late):
        pc = getattr(self.proto, '_pendingCalls', None) or {}
        new = [s for s in pc if s not in self.serial_idx]
        out = []
        for s in new:
            i = len(self.serial_idx)
            self.serial_idx[s] = i
            self.idx_serial[i] = s
            self.calls[i] = {'kind': kind, 'timed': timed, 'done': [], 'late': late, 'r': r}
            out.append(i)
        # the DelayedCalls made while this call was issued are its timers
        dcs, self.new_dcs[:] = list(self.new_dcs), []
        if len(out) == 1:
            for dc in dcs:
                self.dc_idx[id(dc)] = (dc, out[0])
        return out

    def attach(self, d, i, r):
        def ok(res):
            self.calls[i]['done'].append('ok')
            self.fx.append('ok:%d' % i)
            if i in self.lose_inside:
                self.lose_from_inside('reply-callback')

        def err(f):
            M = self.M
            if self.cancelling == i:
                # the caller's own d.cancel(): CancelledError, not a conclusion by the library
                self.calls[i]['done'].append('cancelled')
                self.fx.append('er:%d:cancelled' % i)
                return
            if i in self.lose_inside and not self.closed:
                kind = 'timeout' if f.check(M.error.TimeOut) else 'remote' if f.check(M.error.RemoteError) else \
                    'other:' + f.type.__name__
                self.calls[i]['done'].append(kind)
                self.fx.append('er:%d:%s' % (i, kind))
                self.lose_from_inside('timeout-errback' if kind == 'timeout' else 'error-errback')
                return
            if self.is_loss(f):
                kind = 'lost'
            elif f.check(M.error.TimeOut):
                kind = 'timeout'
            elif f.check(M.error.IntrospectionFailed):
                kind = 'introspectionFailed'
            elif f.check(M.error.RemoteError):
                kind = 'remote'
            else:
                kind = 'other:' + f.type.__name__
            self.calls[i]['done'].append(kind)
            self.fx.append('er:%d:%s' % (i, kind))
            if kind == 'lost':
                if r == 'c':
                    self.issue_call(self.proto, None, 'n', during_loss=True)
                elif r == 'r':
                    self.proto.notifyOnDisconnect(ConnCb(self, self.new_cb(late=True), 'n'))
                elif r == 'p':
                    self.late_proxy(self.proto)
                elif r == 'x':
                    raise VerifCallbackError('errback of call #%d raises' % i)
                elif r in EXTENDED:
                    self.ext_react(r, self.proto, None, None)
        d.addCallbacks(ok, err)
        d.addErrback(lambda f: f.trap(VerifCallbackError) and None)

    def issue_call(self, conn, timeout, r, during_loss=False):
        d = conn.callRemote('/org/example/Obj', 'Method', interface='org.example.Iface',
                            destination='org.example.Service', timeout=timeout)
        new = self.map_new_serials('user', bool(timeout), r, during_loss)
        if len(new) != 1:
            self.unexpected.append('callRemote made %d table entries' % len(new))
            return
        self.deferreds[new[0]] = d
        self.attach(d, new[0], r)

    def late_proxy(self, conn):
        """Reaction 'p': obtain a new proxy synchronously (explicit interfaces) and register a callback on it."""
        iface = self.iface_for(900)
        got = []
        conn.getRemoteObject('org.example.Late', '/org/example/late', iface).addCallbacks(
            got.append, lambda f: self.unexpected.append('getRemoteObject(explicit) inside connectionLost failed: '
                                                          + f.type.__name__))
        if not got:
            return
        p = self.add_proxy(got[0], True, 900, 'iface')
        del got[:]
        rec = self.proxies[p]
        cb = ProxyCb(self, p, self.new_cb(late=True), 'n')
        rec['cbs'].append(cb)
        rec['obj'].notifyOnDisconnect(cb)

    def ext_react(self, kind, conn, cb, pid):
        if kind == 't':
            self.issue_call(conn, 40.0 + len(self.calls), 'n', during_loss=True)
        elif kind == 'q':
            conn.disconnect()
        elif kind == 'd':
            alive = [p for p, rec in self.proxies.items() if rec['alive'] and rec['obj'] is not None and p != pid]
            if alive:
                later = [p for p in alive if pid is not None and p > pid]
                p = min(later) if later else max(alive)      # preferably the next proxy the walk would visit
                self.dropped_in_loss.add(p)
                self.op_drop({'p': p, 'during_loss': True})
        elif kind == 'k':
            if pid is None:
                lst, owner = self.M.loc.conn_callbacks(conn) or [], conn
            else:
                owner = self.proxies[pid]['obj']
                lst = self.M.loc.proxy_callbacks(owner) or []
            others = [c for c in lst if c is not cb and hasattr(c, 'cid')]
            if others:
                target = others[-1]
                self.cancelled_in_loss.add(target.cid)
                owner.cancelNotifyOnDisconnect(target)

    def snapshot_at_loss(self):
        self.loss_thresholds = (len(self.serial_idx), self.next_cb, self.next_proxy)
        self.at_loss = {
            'outstanding': sorted(i for i, c in self.calls.items() if not c['done']),
            # concluded by the caller (CancelledError), yet still in the table (with their timers) when the loss comes
            'cancelled': sorted(i for i, c in self.calls.items() if c['done'] == ['cancelled']
                                and self.idx_serial.get(i) in (getattr(self.proto, '_pendingCalls', None) or {})),
            'completed': sorted(i for i, c in self.calls.items() if c['done']),
            'conn_cbs': [c.cid for c in self.conn_cbs],
            'conn_cb_r': {c.cid: c.r for c in self.conn_cbs},
            'proxies': {p: {'cbs': [c.cid for c in rec['cbs']], 'r': {c.cid: c.r for c in rec['cbs']},
                            'explicit': rec['explicit'], 'key': rec['key'], 'form': rec['form']}
                        for p, rec in self.proxies.items() if rec['alive']},
            'runs_before': dict(self.cb_runs),
            'fx_len': len(self.fx),
        }

    # -- operations --------------------------------------------------------------------------------------------
    def start(self):
        M = self.M
        self.reactor = self.shared_reactor if self.shared_reactor is not None else M.ObservedClock()
        self.reactor.on_attempt = self.note_attempts
        # attempts, unix and tcp clients recorded by the reactor before this connect belong to earlier connects
        k = self.n_attempts_seen = len(self.reactor.connectors)
        self.n_unix = len(self.reactor.unixClients)
        self.n_tcp = len(self.reactor.tcpClients)
        self.reactor.sync_fail = {}
        for st in self.sc['steps']:
            if st['op'] == 'af':
                if st.get('sync'):
                    self.reactor.sync_fail[k] = make_failure_exc(M, st.get('exc'))
                k += 1
        self.new_dcs = []
        self.dc_idx = {}            # id(DelayedCall) -> (DelayedCall, issue index of the call it belongs to)
        self.reactor.on_call_later = self.new_dcs.append
        self.reactor.on_cancel = self._on_cancel
        for n in M.reactor_names:
            setattr(M.client, n, self.reactor)
        try:
            d = M.client.connect(self.reactor, self.sc['address'])
        except Exception as e:      # noqa: BLE001
            self.parse_error = type(e).__name__
            return
        self.note_attempts()      # attempts made inside connect() come before anything the Deferred tells us
        d.addCallbacks(self._connected, self._connect_failed)
        del d
        if self.n_attempts_seen == 0:
            self.phase = 'exhausted'
            self.concluded_by = 'no-address'

    def _on_cancel(self, dc):
        """A DelayedCall was cancelled: it is reported by the connection whose call it belongs to."""
        for r in [self] + self.siblings:
            if id(dc) in r.dc_idx:
                r.fx.append('tc:%d' % r.dc_idx[id(dc)][1])
                return
        self.fx.append('tc:-1')

    def activate(self):
        """This connection is the one the next step acts on (several live connections share one reactor)."""
        self.reactor.on_attempt = self.note_attempts
        self.reactor.on_call_later = self.new_dcs.append
        self.reactor.on_cancel = self._on_cancel
        for n in self.M.reactor_names:
            setattr(self.M.client, n, self.reactor)

    def op_foreign_reply(self, st):
        """A method return that carries the serial of a call of ANOTHER connection of this process arrives here: it answers
        nothing on this connection (serials are per process, so the number is in nobody else's table)."""
        M = self.M
        sib = [r for r in self.siblings if r.idx_serial.get(st['i']) is not None]
        if not sib:
            return
        self.deliver(M.message.MethodReturnMessage(sib[0].idx_serial[st['i']]).rawMessage)

    def op_af(self, st):
        M = self.M
        k = self.af_count
        self.af_count += 1
        if k >= len(self.att):
            self.attempt_missing = 'the script fails attempt #%d of this connect, which was never made' % k
            self.unexpected.append('failure of attempt #%d which was never made' % k)
            return
        if not st.get('sync'):
            fac, conn, _ = self.att[k]
            fac.clientConnectionFailed(conn, M.Failure(make_failure_exc(M, st.get('exc'))))
        # (a synchronous failure already happened inside connectTCP / connectUNIX)
        self.note_attempts()
        if len(self.att) == k + 1:
            self.phase = 'exhausted'
            self.concluded_by = 'exhausted'
            if self.sc.get('entries') is not None and len(self.att) < len(self.sc['entries']):
                # addresses remain, yet nothing is outstanding any more: the rest of the script cannot be played
                self.stalled = 'attempt #%d failed with %s%s; %d of %d addresses tried, no attempt outstanding' % (
                    k, st.get('exc') or 'ConnectionRefusedError', ' (synchronously)' if st.get('sync') else '',
                    len(self.att), len(self.sc['entries']))

    def op_ac(self, st):
        M = self.M
        if self.af_count >= len(self.att):
            self.attempt_missing = 'the script completes attempt #%d of this connect, which was never made' % self.af_count
            self.unexpected.append('completion of attempt #%d which was never made' % self.af_count)
            return
        self.wp = self.cur_factory.buildProtocol(None)
        self.transport = M.UnixStringTransport() if self.cur_unix else M.StringTransport()
        self.wp.makeConnection(self.transport)
        self.proto = c09_locate.wrapped_protocol(self.wp, M.DBusClientConnection)
        self.phase = 'authenticating'

    def op_auth(self, st):
        toks = st['tok']
        self.deliver(bytes.fromhex(st['hex']), may_raise=bool(st.get('raises')))
        if 'ax' in toks:
            if self.concluded_by in (None, 'closed-early'):
                self.concluded_by = 'auth-failed'
            if not self.closed:
                self.unexpected.append('authentication failure step left the transport open')
        elif 'ao' in toks:
            if self.closed or not getattr(self.proto, '_authenticated', False):
                self.unexpected.append('final handshake line did not authenticate')
                return
            self.phase = 'helloSent'
            self.map_new_serials('hello', False, 'n', False)

    def hello_bytes(self, ok, named=True, name=':1.42'):
        M = self.M
        serial = self.idx_serial[0]
        if ok and not named:
            return M.message.MethodReturnMessage(serial).rawMessage          # no body: no bus name
        if ok:
            return M.message.MethodReturnMessage(serial, body=[name], signature='s').rawMessage
        return M.message.ErrorMessage('org.freedesktop.DBus.Error.LimitsExceeded', serial,
                                      body=['too many connections'], signature='s').rawMessage

    def op_hello(self, st):
        data = self.hello_bytes(st['ok'], st.get('named', True), st.get('name', ':1.42'))
        part = st.get('part')
        if part == 'head':
            self.deliver(data[:cut_at(data, st['cut'])])
            return
        if part == 'tail':
            data = data[cut_at(data, st['cut']):]
        self.deliver(data)
        if self.closed:
            return
        self.calls[0]['done'].append('ok' if st['ok'] else 'remote')
        if st['ok'] and not st.get('named', True):
            self.phase = 'helloFailed'
            self.concluded_by = 'hello-reply-without-name'
        elif st['ok']:
            self.phase = 'ready'
            self.concluded_by = 'hello-reply'
        else:
            self.phase = 'helloFailed'
            self.concluded_by = 'hello-error'

    def op_close(self, st):
        M = self.M
        if self.closed:
            return          # the code closed the transport itself (the reactor told it so already)
        exc = M.tie.ConnectionDone() if st.get('reason', 'done') == 'done' else M.tie.ConnectionLost()
        self.lose(M.Failure(exc))

    def op_call(self, st):
        self.issue_call(self.proto, st['timeout'], st['r'])

    def op_notify(self, st):
        cb = ConnCb(self, self.new_cb(), st['r'])
        self.conn_cbs.append(cb)
        self.proto.notifyOnDisconnect(cb)

    def op_cancel_notify(self, st):
        for cb in self.conn_cbs:
            if cb.cid == st['c']:
                self.conn_cbs.remove(cb)
                self.proto.cancelNotifyOnDisconnect(cb)
                return
        self.unexpected.append('cancel_notify of an unknown callback')

    def iface_for(self, key):
        M = self.M
        if key not in self.ifaces:
            self.ifaces[key] = M.interface.DBusInterface('org.example.K%d' % key, M.interface.Method('m'))
        return self.ifaces[key]

    def add_proxy(self, obj, explicit, key, form):
        p = self.next_proxy
        self.next_proxy += 1
        self.proxies[p] = {'obj': obj, 'ref': weakref.ref(obj), 'explicit': explicit, 'key': key, 'form': form,
                           'cbs': [], 'alive': True, 'cb_ids': []}
        return p

    def op_proxy_explicit(self, st):
        key, form = st['key'], st['form']
        iface = self.iface_for(key)
        arg = {'iface': iface, 'list': [iface], 'name': iface.name}[form]
        got = []

        def ok(prox):
            got.append(prox)

        def err(f):
            self.unexpected.append('getRemoteObject(explicit) failed: ' + f.type.__name__)
        self.proto.getRemoteObject('org.example.B%d' % key, '/org/example/o%d' % key, arg).addCallbacks(ok, err)
        if got:
            self.add_proxy(got[0], True, key, form)
        del got[:]

    def op_proxy_introspect(self, st):
        M = self.M
        key, form = st['key'], st['form']
        _UNIQUE[0] += 1      # a name no earlier scenario can have made known (no reach into the interface cache)
        name = 'org.example.U%d_n%d' % (key, _UNIQUE[0])
        arg = {'none': None, 'name': name, 'namelist': [name]}[form]
        d = self.proto.getRemoteObject('org.example.B%d' % key, '/org/example/o%d' % key, arg)
        new = self.map_new_serials('introspect', False, 'n', False)
        if len(new) != 1:
            self.unexpected.append('getRemoteObject(introspect) made %d table entries' % len(new))
            return
        i = new[0]
        self.calls[i]['key'] = key
        self.calls[i]['form'] = form
        self.calls[i]['iface_name'] = name

        def ok(prox):
            self.calls[i]['done'].append('ok')
            self.fx.append('ok:%d' % i)
            self.add_proxy(prox, False, key, form)

        def err(f):
            kind = ('cancelled' if self.cancelling == i else
                    'introspectionFailed' if f.check(M.error.IntrospectionFailed) else
                    'lost' if self.is_loss(f) else 'other:' + f.type.__name__)
            self.calls[i]['done'].append(kind)
            self.fx.append('er:%d:%s' % (i, kind))
        d.addCallbacks(ok, err)
        self.deferreds[i] = d

    def op_cancel_call(self, st):
        """The caller gives up on an outstanding call: `.cancel()` on the Deferred it was handed."""
        i = st['i']
        d = self.deferreds.get(i)
        if d is None:
            self.unexpected.append('cancel of call #%d which the harness did not issue' % i)
            return
        self.cancelling = i
        try:
            exc = self.enter(d.cancel)
        finally:
            self.cancelling = None
        if exc is not None:
            self.fx.append('crash')
            self.unexpected.append('Deferred.cancel() raised ' + repr(exc))

    def op_proxy_notify(self, st):
        rec = self.proxies.get(st['p'])
        if rec is None or rec['obj'] is None:
            self.unexpected.append('operation on proxy #%d which does not exist' % st['p'])
            return
        cb = ProxyCb(self, st['p'], self.new_cb(), st['r'])
        rec['cbs'].append(cb)
        rec['obj'].notifyOnDisconnect(cb)

    def op_proxy_cancel(self, st):
        rec = self.proxies.get(st['p'])
        if rec is None or rec['obj'] is None:
            self.unexpected.append('operation on proxy #%d which does not exist' % st['p'])
            return
        for cb in rec['cbs']:
            if cb.cid == st['c']:
                rec['cbs'].remove(cb)
                rec['obj'].cancelNotifyOnDisconnect(cb)
                return
        self.unexpected.append('proxy_cancel of an unknown callback')

    def op_drop(self, st):
        rec = self.proxies.get(st['p'])
        if rec is None or rec['obj'] is None:
            self.unexpected.append('operation on proxy #%d which does not exist' % st['p'])
            return
        lst = self.M.loc.proxy_callbacks(rec['obj'])
        rec['cb_ids'] = None if lst is None else [getattr(c, 'cid', -1) for c in lst]
        rec['obj'] = None
        rec['alive'] = False
        if st.get('during_loss'):
            return          # the library may legitimately hold the proxy while it walks its registry
        if rec['ref']() is not None:
            gc.collect()
        if rec['ref']() is not None:
            self.unexpected.append('dropped proxy is still alive (harness holds a reference)')

    def reply_bytes(self, i, ok):
        M = self.M
        serial = self.idx_serial[i]
        c = self.calls[i]
        if not ok:
            return M.message.ErrorMessage('org.example.Error.Failed', serial, body=['no'], signature='s').rawMessage
        if c['kind'] == 'introspect':
            xml = (XML_HEAD + '<node name="/org/example/o%d"><interface name="%s">'
                   '<method name="m"/></interface></node>' % (c['key'], c['iface_name']))
            return M.message.MethodReturnMessage(serial, body=[xml], signature='s').rawMessage
        return M.message.MethodReturnMessage(serial).rawMessage

    def op_reply(self, st):
        if st.get('lose_inside'):
            self.lose_inside.add(st['i'])
        data = self.reply_bytes(st['i'], st['ok'])
        part = st.get('part')
        if part == 'head':
            self.deliver(data[:cut_at(data, st['cut'])])
            return
        if part == 'tail':
            data = data[cut_at(data, st['cut']):]
        self.deliver(data)

    def op_add_match(self, st):
        """conn.addMatch(callback, ...): an AddMatch call to the bus; the rule is live once it is answered."""
        def on_signal(msg):
            self.fx_signal += 1
            if self.signal_loses:
                self.lose_from_inside('signal-callback')
        d = self.proto.addMatch(on_signal, mtype='signal', interface='org.example.Sig')
        new = self.map_new_serials('user', False, 'n', False)
        if len(new) != 1:
            self.unexpected.append('addMatch made %d table entries' % len(new))
            return
        self.attach(d, new[0], 'n')

    def op_signal(self, st):
        M = self.M
        self.signal_loses = bool(st.get('lose_inside'))
        before = self.fx_signal
        self.deliver(M.message.SignalMessage('/org/example/Obj', 'Ping', 'org.example.Sig').rawMessage)
        if self.fx_signal == before:
            self.unexpected.append('the signal did not reach the callback registered with addMatch')

    def op_expire(self, st):
        if st.get('lose_inside'):
            self.lose_inside.add(st['i'])
        mine = [dc for dc, i in self.dc_idx.values() if i == st['i']]
        dc = mine[0] if mine else None
        live = self.reactor.getDelayedCalls()
        if dc is None or dc not in live or any(o.getTime() < dc.getTime() for o in live if o is not dc):
            self.unexpected.append('expire of a timer that is not the earliest live one')
            return
        exc = self.enter(self.reactor.advance, dc.getTime() - self.reactor.seconds())
        if exc is not None:
            self.fx.append('crash')
            self.unexpected.append(repr(exc))

    # -- end of history ----------------------------------------------------------------------------------------
    def finish(self):
        """Quiescence probe (only once the transport is gone): let all virtual time pass."""
        self.after_probe = []
        self.timers_left = None
        if self.closed:
            self.timers_left = self.timer_indices()
            n = len(self.fx)
            exc = self.enter(self.reactor.advance, 10 ** 7)
            self.after_probe = self.fx[n:] + (['raised ' + repr(exc)] if exc is not None else [])

    def timer_indices(self):
        out = []
        for dc in self.reactor.getDelayedCalls():
            if id(dc) not in self.dc_idx and any(id(dc) in r.dc_idx for r in self.siblings):
                continue            # the timer of a call of another live connection of this process
            out.append(self.dc_idx.get(id(dc), (None, -1))[1])
        return sorted(out)

    def state(self):
        """The final tables in the format of the driver's stateStr (without the phase)."""
        def nats(l):
            return ','.join(str(x) for x in l) or '-'
        pc = getattr(self.proto, '_pendingCalls', None) or {}
        pend = ','.join('%d%s%s' % (self.serial_idx.get(s, -1), 'c' if getattr(v[0], 'called', False) else '',
                                    't' if v[1] else '') for s, v in pc.items()) or '-'
        loc = self.M.loc
        # tables behind private names: found by behaviour (c09_locate); '?' = not reachable, left out of the comparison
        dcs = loc.conn_callbacks(self.proto) if self.proto is not None else []
        dc_s = '?' if dcs is None else nats(getattr(c, 'cid', -1) for c in dcs)
        reg = loc.registry(self.proto) if self.proto is not None else []
        by_obj = {id(rec['obj']): p for p, rec in self.proxies.items() if rec['obj'] is not None}
        reg_s = '?' if reg is None else nats(by_obj.get(id(x), -1) for x in reg)
        prox = []
        for p in sorted(self.proxies):
            rec = self.proxies[p]
            if rec['obj'] is not None:
                lst = loc.proxy_callbacks(rec['obj'])
                ids = None if lst is None else [getattr(c, 'cid', -1) for c in lst]
            else:
                ids = rec['cb_ids']
            prox.append('%d%s[%s]' % (p, 'a' if rec['alive'] else 'd',
                                      '?' if ids is None else '.'.join(str(c) for c in ids)))
        return ('fired=%s pend=%s timers=%s dc=%s reg=%s prox=%s'
                % (','.join(self.fired) or '-', pend, nats(self.timers_now), dc_s, reg_s, ','.join(prox) or '-'))


# Every way an endpoint's connect Deferred can fail is an unreachable address: (model kind, exception).
FAILURES = [
    ('refused', 'ConnectionRefusedError'),
    ('connectError', 'ConnectError'), ('connectError', 'NoRouteError'), ('connectError', 'ConnectBindError'),
    ('connectError', 'UnknownHostError'),
    ('dnsLookup', 'DNSLookupError'),
    ('timeout', 'TimeoutError'), ('timeout', 'TCPTimedOutError'), ('timeout', 'builtins.TimeoutError'),
    ('other', 'builtins.Exception'), ('other', 'builtins.OSError'), ('other', 'builtins.ValueError'),
    ('other', 'CancelledError'), ('other', 'ConnectionLost'),
]


def make_failure_exc(M, name):
    if not name:
        return M.tie.ConnectionRefusedError()
    if name.startswith('builtins.'):
        import builtins
        cls = getattr(builtins, name[9:])
        return cls(5, 'verif: attempt failed') if cls is OSError else cls('verif: attempt failed')
    if name == 'CancelledError':
        from twisted.internet import defer
        return defer.CancelledError()
    return getattr(M.tie, name)('verif: attempt failed')


def af_step(rng):
    why, exc = rng.choice(FAILURES)
    st = {'op': 'af', 'why': why, 'exc': exc}
    if rng.random() < 0.25:
        st['sync'] = True        # reactor.connectTCP / connectUNIX itself raises
    return st


def cut_at(data, permille):
    return max(1, min(len(data) - 1, len(data) * permille // 1000))


def play(run, sc):
    run.reach = None
    try:
        run.start()
        if run.parse_error is None:
            for st in sc['steps']:
                getattr(run, 'op_' + st['op'])(st)
                if run.unexpected or run.stalled:
                    break
            run.timers_now = run.timer_indices()
            run.final = run.state()
            run.fx_end = list(run.fx)
            run.finish()
    except Reach as e:
        run.reach = str(e)


def execute(M, sc):
    known = getattr(M.interface.DBusInterface, 'knownInterfaces', None)     # documented class-level cache (optional)
    saved = dict(known) if isinstance(known, dict) else None
    saved_reactor = {n: getattr(M.client, n, None) for n in M.reactor_names}
    run = Run(M, sc)
    try:
        play(run, sc)
    finally:
        if saved is not None:
            known.clear()
            known.update(saved)
        for n, v in saved_reactor.items():
            setattr(M.client, n, v)
    return run


def round_scenario(sc, k):
    """The k-th connect of a multi-connect scenario, as a single-connect scenario."""
    return {'entries': sc.get('entries'), 'address': sc['address'], 'steps': sc['rounds'][k]}


def execute_rounds(M, sc):
    """One process, several `client.connect` calls with the same address string on the SAME reactor.  Nothing is reset
    between the connects (the harness's own save/restore brackets the whole scenario)."""
    known = getattr(M.interface.DBusInterface, 'knownInterfaces', None)
    saved = dict(known) if isinstance(known, dict) else None
    saved_reactor = {n: getattr(M.client, n, None) for n in M.reactor_names}
    reactor = M.ObservedClock()
    runs = []
    try:
        for k in range(len(sc['rounds'])):
            rsc = round_scenario(sc, k)
            run = Run(M, rsc, reactor=reactor)
            runs.append(run)
            play(run, rsc)
            if run.reach is not None or run.unexpected or run.stalled or run.parse_error is not None:
                break           # the rest of the script was written for a process in which this connect went as scripted
    finally:
        if saved is not None:
            known.clear()
            known.update(saved)
        for n, v in saved_reactor.items():
            setattr(M.client, n, v)
    return runs


def execute_live(M, sc):
    """One process, several connections ALIVE AT THE SAME TIME on one reactor: `sc['rounds'][k]` are the steps of connection
    k, `sc['order']` says whose next step is played.  Around every step the observable effects and the tables of all the
    OTHER connections are compared: a step on one connection must not touch another one."""
    known = getattr(M.interface.DBusInterface, 'knownInterfaces', None)
    saved = dict(known) if isinstance(known, dict) else None
    saved_reactor = {n: getattr(M.client, n, None) for n in M.reactor_names}
    reactor = M.ObservedClock()
    n = len(sc['rounds'])
    runs = [Run(M, round_scenario(sc, k), reactor=reactor) for k in range(n)]
    for r in runs:
        r.siblings = [x for x in runs if x is not r]
        r.reach = None
        r.started = False
        r.after_probe, r.timers_left = [], None
    pos = [0] * n
    try:
        try:
            for k in sc['order']:
                run = runs[k]
                if pos[k] >= len(sc['rounds'][k]) or run.unexpected or run.stalled or run.parse_error is not None:
                    continue
                if not run.started:
                    run.started = True
                    run.start()
                    if run.parse_error is not None:
                        continue
                run.activate()
                def snap(y):
                    y.timers_now = y.timer_indices()
                    return y.state()
                others = [(y, len(y.fx), snap(y)) for y in run.siblings if y.started and y.parse_error is None]
                st = sc['rounds'][k][pos[k]]
                pos[k] += 1
                getattr(run, 'op_' + st['op'])(st)
                for y, nfx, state in others:
                    after = snap(y)
                    if len(y.fx) != nfx or after != state:
                        y.cross.append({'step': dict(st, conn=k), 'on': runs.index(y), 'new_effects': y.fx[nfx:],
                                        'tables_before': state, 'tables_after': after})
        except Reach as e:
            for r in runs:
                r.reach = str(e)
        live = [r for r in runs if r.started and r.parse_error is None and r.reach is None]
        for r in live:
            r.timers_now = r.timer_indices()
            r.final = r.state()
            r.fx_end = list(r.fx)
            if r.closed:
                r.timers_left = r.timer_indices()
        # quiescence: let all virtual time pass ONCE; what a lost connection still does then is its `after_probe`
        if live:
            marks = [(r, len(r.fx)) for r in live]
            exc = live[0].enter(reactor.advance, 10 ** 7)
            for r, k0 in marks:
                if r.closed:
                    r.after_probe = r.fx[k0:] + (['raised ' + repr(exc)] if exc is not None else [])
    finally:
        if saved is not None:
            known.clear()
            known.update(saved)
        for nme, v in saved_reactor.items():
            setattr(M.client, nme, v)
    out = []
    for r in runs:
        if not r.started:
            break
        out.append(r)
    return out


# ----------------------------------------------------------------------------------------------------------------
# tokens for the model

def step_tokens(st):
    op = st['op']
    if op == 'af':
        return ['af:' + st.get('why', 'refused')]
    if op == 'ac':
        return [op]
    if op == 'auth':
        return list(st['tok'])
    if op == 'hello':
        if st.get('part') == 'head':
            return []
        return [('hr' if st.get('named', True) else 'hr:noname') if st['ok'] else 'he']
    if op == 'close':
        return ['cl']
    if op == 'call':
        return ['ca:%d:%s' % (1 if st['timeout'] else 0, st['r'])]
    if op == 'notify':
        return ['no:' + st['r']]
    if op == 'cancel_notify':
        return ['cn:%d' % st['c']]
    if op == 'proxy_explicit':
        return ['pe:%d' % st['key']]
    if op == 'proxy_introspect':
        return ['pi:%d' % st['key']]
    if op == 'proxy_notify':
        return ['pn:%d:%s' % (st['p'], st['r'])]
    if op == 'proxy_cancel':
        return ['pc:%d:%d' % (st['p'], st['c'])]
    if op == 'drop':
        return ['dp:%d' % st['p']]
    if op == 'cancel_call':
        return ['cd:%d' % st['i']]
    if op == 'reply':
        if st.get('part') == 'head':
            return []
        return ['rp:%d:%d' % (st['i'], 1 if st['ok'] else 0)] + (['cl'] if st.get('lose_inside') else [])
    if op == 'expire':
        return ['ex:%d' % st['i']] + (['cl'] if st.get('lose_inside') else [])
    if op == 'foreign_reply':
        return ['rp:9999:1']        # a reply to a serial that is not in this connection's table: nothing
    if op == 'add_match':
        return ['ca:0:n']
    if op == 'signal':
        return ['cl'] if st.get('lose_inside') else []
    raise ValueError(op)


def model_line(sc):
    if 'rounds' in sc:
        toks = ' /'.join(''.join(' ' + t for st in steps for t in step_tokens(st)) for steps in sc['rounds'])
        return 'proc ' + hexs(str(os.getpid())) + ' ' + hexs(sc['address']) + toks
    toks = [t for st in sc['steps'] for t in step_tokens(st)]
    return 'life ' + hexs(str(os.getpid())) + ' ' + hexs(sc['address']) + ''.join(' ' + t for t in toks)


def canon_view(view, thr=None):
    """Order of effects is compared only where the statement orders them: the connection attempts and the connect
    Deferred (in sequence); everything else as a multiset; then the final tables.  Identities handed out WHILE
    connectionLost runs (late calls, callbacks, proxies: ids >= the counters at the loss, `thr`) depend on the order in
    which the library happens to visit its tables: they are all written `L`."""
    if view is None or ' | ' not in view:
        return view
    big = 10 ** 9
    tc, tcb, tp = thr if thr else (big, big, big)

    def L(x, t):
        return 'L' if x.isdigit() and int(x) >= t else x
    log, state = view.split(' | ', 1)
    toks = []
    for t in log.split(' '):
        if not t:
            continue
        f = t.split(':')
        if f[0] == 'er' and f[-1] == 'introspectionFailed':
            f[-1] = 'lost'   # getRemoteObject's Deferred may fail with the loss itself or IntrospectionFailed wrapping it
        if f[0] in ('er', 'ok', 'tc') and len(f) >= 2:
            f[1] = L(f[1], tc)
        elif f[0] == 'cc' and len(f) == 2:
            f[1] = L(f[1], tcb)
        elif f[0] == 'pc' and len(f) == 3:
            f[1], f[2] = L(f[1], tp), L(f[2], tcb)
        toks.append(':'.join(f))
    seq = [t for t in toks if t.startswith('at:') or t.startswith('cf:')]
    st = []
    for t in state.split(' '):
        k, _, v = t.partition('=')
        if v not in ('-', '?', ''):
            if k == 'pend':
                v = ','.join(sorted(('L' + ('t' if x.endswith('t') else '')) if L(x.rstrip('t'), tc) == 'L' else x
                                    for x in v.split(',')))
            elif k == 'timers':
                v = ','.join(sorted(L(x, tc) for x in v.split(',')))
            elif k == 'dc':
                v = ','.join(L(x, tcb) for x in v.split(','))
            elif k == 'reg':
                # the registry is a set of live proxies: which of them are in it is compared, not its internal order
                v = ','.join(sorted((L(x, tp) for x in v.split(',')), key=lambda x: (len(x), x)))
            elif k == 'prox':
                ents = []
                for e in v.split(','):
                    head, _, rest = e.partition('[')
                    cbs = rest.rstrip(']')
                    pid, flag = head[:-1], head[-1:]
                    cbs = '.'.join(L(c, tcb) for c in cbs.split('.')) if cbs not in ('', '?') else cbs
                    ents.append((L(pid, tp), flag, cbs))
                early = [e for e in ents if e[0] != 'L']
                late = sorted(e for e in ents if e[0] == 'L')
                v = ','.join('%s%s[%s]' % e for e in early + late)
        st.append(k + '=' + v if _ else t)
    return ' '.join(seq) + ' || ' + ' '.join(sorted(toks)) + ' | ' + ' '.join(st)


def mask_unreachable(model, impl):
    """Tables the harness could not reach print as '?' on the implementation side: leave them out on both sides."""
    if model is None or ' | ' not in model or ' | ' not in impl:
        return model
    ml, ms = model.split(' | ', 1)
    istate = dict(t.split('=', 1) for t in impl.split(' | ', 1)[1].split(' ') if '=' in t)
    out = []
    for t in ms.split(' '):
        k, _, v = t.partition('=')
        iv = istate.get(k, '')
        if iv == '?':
            v = '?'
        elif k == 'prox' and '?' in iv:
            import re
            v = re.sub(r'\[[^\]]*\]', '[?]', v)
        out.append(k + '=' + v)
    return ml + ' | ' + ' '.join(out)


def model_view(line):
    """Drop the phase (not an attribute of the code) from the driver's answer."""
    if line is None:
        return None
    if ' | ' not in line:
        return line
    log, state = line.split(' | ', 1)
    state = ' '.join(t for t in state.split(' ') if not t.startswith('ph='))
    return log.strip() + ' | ' + state


def impl_view(run):
    if run.parse_error is not None:
        return 'parse-err ' + run.parse_error
    final = run.final
    if '[?]' in final:
        import re
        final = ' '.join(re.sub(r'\[[^\]]*\]', '[?]', t) if t.startswith('prox=') else t for t in final.split(' '))
    return ' '.join(run.fx_end) + ' | ' + final


# ----------------------------------------------------------------------------------------------------------------
# the property oracle (implementation only)

def judge(run, sc):
    """Violations of the property statement visible in this run: list of (key, what, observed, expected)."""
    out = []
    if run.parse_error is not None and sc.get('entries') is not None and not run.unexpected:
        # a well-formed list (possibly without any usable address): connect() must hand back a Deferred
        return [('connect-raised', 'connect() raised %s instead of returning a Deferred that fails' % run.parse_error,
                 run.parse_error, 'a Deferred')]
    if run.parse_error is not None or run.unexpected:
        return out
    entries = sc.get('entries')
    nfired = len(run.fired)
    if run.stalled:
        # every kind of failure of an address is an unreachable address: the walk must go on (or fail the Deferred)
        return [('connect-walk-stops-at-failed-address',
                 'the address walk stopped: %s; the connect Deferred fired %d times' % (run.stalled, nfired),
                 {'fired': run.fired, 'attempts': [f for f in run.fx if f.startswith('at:')]},
                 'the next listed address is tried')]
    # addresses are tried in listed order, one at a time, up to the first reachable one
    if entries is not None:
        nfail = sum(1 for st in sc['steps'] if st['op'] == 'af')
        expect = [entry_target(e) for e in entries[:nfail + 1]]
        got = [f for f in run.fx if f.startswith('at:')]
        if got != expect:
            # the rest of the script was written for the listed order: it no longer applies
            return [('connect-order', 'connection attempts are not the listed addresses in order', got, expect)]
    # the connect Deferred fires at most once, and has fired once the history concluded
    if run.double_fire:
        out.append(('deferred-fired-twice', 'the code fired a Deferred that had fired already (AlreadyCalledError escaped): %s'
                    % run.double_fire, run.double_fire, 'every Deferred fires once'))
    if nfired > 1:
        out.append(('connect-deferred-fired-twice', 'the Deferred returned by connect() fired %d times' % nfired,
                    run.fired, 'one firing'))
    if run.concluded_by is not None:
        want = 'connection' if run.concluded_by == 'hello-reply' else 'failure'
        if nfired == 0:
            key = {'closed-early': 'connect-deferred-never-fires-on-early-close',
                   'auth-failed': 'connect-deferred-never-fires-on-early-close'}.get(
                       run.concluded_by, 'connect-deferred-never-fires-' + run.concluded_by)
            out.append((key, 'the history concluded (%s) but the Deferred returned by connect() never fired'
                        % run.concluded_by, run.fired, want))
        elif nfired == 1:
            got = 'connection' if run.fired[0] == 'connection' else 'failure'
            if run.concluded_by == 'hello-reply-without-name' and got == 'connection':
                out.append(('hello-reply-without-name-yields-dead-connection',
                            'Hello was answered without a bus name, yet the Deferred fired with a connection (busName %r): '
                            'its loss will be ignored' % (getattr(run.proto, 'busName', None),), run.fired, 'failure'))
            elif got != want or run.fired[0].startswith('value:'):
                out.append(('connect-deferred-wrong-kind', 'history concluded by %s, Deferred fired with %s'
                            % (run.concluded_by, run.fired[0]), run.fired, want))
    elif nfired != 0:
        out.append(('connect-deferred-fired-early', 'the Deferred fired although nothing concluded the attempt',
                    run.fired, 'no firing yet'))
    # loss of an established connection
    al = run.at_loss
    if al is not None:
        after = run.fx[al['fx_len']:]
        crashed = run.loss_exc is not None
        crash_key = None
        if crashed:
            msg = str(run.loss_exc)
            if isinstance(run.loss_exc, VerifCallbackError):
                crash_key = 'loss-aborted-by-raising-disconnect-callback'
            elif isinstance(run.loss_exc, RuntimeError) and 'changed size during iteration' in msg:
                crash_key = 'connectionlost-dict-changed-size'
            else:
                crash_key = 'connectionlost-raised-' + type(run.loss_exc).__name__
        if crashed and not isinstance(run.loss_exc, VerifCallbackError):
            out.append((crash_key, 'connectionLost raised %r (no user callback raised)' % (run.loss_exc,),
                        repr(run.loss_exc), 'no exception'))
        for i in al['outstanding']:
            done = run.calls[i]['done']
            want = ['introspectionFailed', 'lost'] if run.calls[i]['kind'] == 'introspect' else ['lost']
            if len(done) != 1 or done[0] not in want:
                key = crash_key or ('pending-call-not-failed-on-loss' if not done else 'pending-call-failed-wrongly-on-loss')
                out.append((key, 'call #%d was outstanding when the connection was lost; its Deferred fired %r'
                            % (i, done), done, want))
        for i in al['completed']:
            if len(run.calls[i]['done']) != 1:
                out.append(('completed-call-fired-again-on-loss', 'call #%d had completed before the loss; fired %r'
                            % (i, run.calls[i]['done']), run.calls[i]['done'], 'one completion'))
        late_calls = {i for i, c in run.calls.items() if c['late']}
        timers_left = [i for i in (run.timers_left or []) if i not in late_calls]   # a timed call issued on the lost
        if timers_left:                                                           # connection may time out later
            out.append((crash_key or 'timer-left-after-loss', 'delayed calls remain after the connection was lost: calls %r'
                        % (timers_left,), timers_left, []))
        before = al['runs_before']
        cbs = al['conn_cbs']
        for pos, c in enumerate(cbs):
            n = run.cb_runs.get(c, 0) - before.get(c, 0)
            if c in run.cancelled_in_loss and n <= 1:
                continue        # cancelled by another callback while connectionLost ran: running it or not is fine
            if n != 1:
                if crash_key:
                    key = crash_key
                elif n == 0 and pos > 0 and al['conn_cb_r'][cbs[pos - 1]] == 'u':
                    key = 'disconnect-callback-skipped-after-self-unregister'
                else:
                    key = 'disconnect-callback-ran-%d-times' % n
                out.append((key, 'connection-level disconnect callback #%d (position %d) ran %d times on loss' % (c, pos, n),
                            n, 1))
        for p, rec in sorted(al['proxies'].items()):
            for pos, c in enumerate(rec['cbs']):
                n = run.cb_runs.get(c, 0) - before.get(c, 0)
                if n == 1:
                    continue
                if (c in run.cancelled_in_loss or p in run.dropped_in_loss) and n <= 1:
                    continue    # cancelled / its proxy let go of while connectionLost ran: no longer owed
                if crash_key:
                    key = crash_key
                elif n == 0 and pos > 0 and rec['r'][rec['cbs'][pos - 1]] == 'u' and \
                        (run.cb_runs.get(rec['cbs'][pos - 1], 0) - before.get(rec['cbs'][pos - 1], 0)) == 1:
                    key = 'disconnect-callback-skipped-after-self-unregister'
                elif n == 0 and rec['explicit']:
                    key = 'explicit-proxy-disconnect-callback-never-runs'
                elif n == 0 and any(q > p and r2['key'] == rec['key'] and not r2['explicit'] and r2['form'] == rec['form']
                                    for q, r2 in run.proxies.items()):
                    key = 'introspected-proxies-share-registry-slot'
                else:
                    key = 'proxy-disconnect-callback-ran-%d-times' % n
                out.append((key, 'disconnect callback #%d of live %s proxy #%d ran %d times on loss'
                            % (c, 'explicit' if rec['explicit'] else 'introspected', p, n), n, 1))
        # work created while connectionLost was running: at most once
        for c in run.late_cbs:
            if run.cb_runs.get(c, 0) > 1:
                out.append(('late-callback-ran-twice', 'callback #%d registered during connectionLost ran %d times'
                            % (c, run.cb_runs[c]), run.cb_runs[c], '<= 1'))
        for i, c in run.calls.items():
            if c['late'] and len(c['done']) > 1:
                out.append(('late-call-fired-twice', 'call #%d issued during connectionLost fired %r' % (i, c['done']),
                            c['done'], '<= 1'))
    # nothing fires afterwards
    late_timeouts = {'er:%d:timeout' % i for i, c in run.calls.items() if c['late'] and c['timed']}
    after_probe = [f for f in (run.after_probe or []) if f not in late_timeouts]
    if run.closed and after_probe:
        key = 'fires-after-loss'
        if isinstance(run.loss_exc, VerifCallbackError):
            key = 'loss-aborted-by-raising-disconnect-callback'
        elif run.loss_exc is not None:
            key = ('connectionlost-dict-changed-size' if 'changed size during iteration' in str(run.loss_exc)
                   else 'connectionlost-raised-' + type(run.loss_exc).__name__)
        out.append((key, 'effects after the transport was closed and all time passed: %r'
                    % (after_probe,), after_probe, []))
    return out


# ----------------------------------------------------------------------------------------------------------------
# generators

GUID = b'0123456789abcdef0123456789abcdef'


def gen_handshake(rng, unix, outcome):
    """Steps of a scripted handshake.  outcome: 'ok' | 'fail' | 'stall' (no final line)."""
    steps = []
    mech_left = 2           # AUTH EXTERNAL was sent; two more REJECTED/ERROR are survivable
    first_mech = True

    def line(data, toks, **kw):
        st = {'op': 'auth', 'hex': data.hex(), 'tok': toks}
        st.update(kw)
        steps.append(st)

    def maybe_cut(data, toks, **kw):
        """Deliver whole, or head (no token) then tail."""
        if len(data) > 2 and rng.random() < 0.4:
            k = rng.randrange(1, len(data))
            line(data[:k], [])
            line(data[k:], toks, **kw)
        else:
            line(data, toks, **kw)

    for _ in range(rng.choice([0, 0, 1, 1, 2, 3])):
        choices = []
        if mech_left > 0:
            choices += ['rej', 'err']
        if first_mech:
            choices.append('data')
        if not choices:
            break
        c = rng.choice(choices)
        if c == 'rej':
            maybe_cut(b'REJECTED EXTERNAL DBUS_COOKIE_SHA1 ANONYMOUS\r\n', ['ap'])
            mech_left -= 1
            first_mech = False
        elif c == 'err':
            maybe_cut(b'ERROR "not now"\r\n', ['ap'])
            mech_left -= 1
            first_mech = False
        else:
            maybe_cut(b'DATA\r\n', ['ap'])
    if outcome == 'stall':
        if rng.random() < 0.5:
            line(b'OK ' + GUID[:rng.randrange(1, 20)], [])
        return steps
    if outcome == 'ok':
        if unix:
            if rng.random() < 0.3:
                line(b'OK ' + GUID + b'\r\nAGREE_UNIX_FD\r\n', ['ap', 'ao'])
            else:
                maybe_cut(b'OK ' + GUID + b'\r\n', ['ap'])
                maybe_cut(b'AGREE_UNIX_FD\r\n', ['ao'])
        else:
            if mech_left > 0 and rng.random() < 0.15:
                line(b'REJECTED EXTERNAL\r\nOK ' + GUID + b'\r\n', ['ap', 'ao'])
            else:
                maybe_cut(b'OK ' + GUID + b'\r\n', ['ao'])
        return steps
    # failure
    kinds = ['rejected', 'ok-noguid', 'ok-badguid', 'bogus', 'undecodable', 'overlong', 'overlong-open']
    if not unix:
        kinds.append('agree-without-negotiate')
    k = rng.choice(kinds)
    if k == 'rejected':
        rest = mech_left + 1
        if rng.random() < 0.5:
            line(b'REJECTED\r\n' * rest, ['ap'] * (rest - 1) + ['ax'])
        else:
            for _ in range(rest - 1):
                line(b'REJECTED\r\n', ['ap'])
            maybe_cut(b'REJECTED\r\n', ['ax'])
    elif k == 'ok-noguid':
        maybe_cut(b'OK\r\n', ['ax'])
    elif k == 'ok-badguid':
        maybe_cut(b'OK zz\r\n', ['ax'])
    elif k == 'bogus':
        maybe_cut(b'HELLO there\r\n', ['ax'])
    elif k == 'undecodable':
        line(b'\xff\xfe\r\n', ['ax'], raises=True)
    elif k == 'overlong':
        line(b'OK ' + b'a' * 16400 + b'\r\n', ['ax'])
    elif k == 'overlong-open':
        line(b'a' * 16390, ['ax'])
    else:
        maybe_cut(b'AGREE_UNIX_FD\r\n', ['ax'])
    return steps


class ReadyGen:
    """Generates applicable user operations / replies / expiries on a ready connection."""

    def __init__(self, rng, extended=False):
        self.rng = rng
        self.extended = extended
        self.closed = False           # a callback closed the connection: nothing more can be done on it
        self.p_inside = 0.2
        self.next_serial = 1          # 0 is Hello
        self.next_cb = 0
        self.next_proxy = 0
        self.pending = {}             # index -> dict(kind, deadline, key)
        self.conn_cbs = []
        self.proxies = {}             # id -> dict(alive, cbs)
        self.now = 0.0
        self.deadlines = set()

    def reaction(self):
        if self.extended:
            return self.rng.choice(['n', 'c', 'u', 'r', 'p', 'x', 'd', 'd', 't', 't', 'k', 'k', 'q'])
        return self.rng.choice(['n', 'n', 'c', 'u', 'r', 'p', 'x'])

    def burst(self):
        """Several calls, proxies (both ways) and callbacks at once: losses with >= 3 calls and >= 3 proxies."""
        rng = self.rng
        out = []
        for _ in range(rng.randrange(3, 6)):
            out += self.step(rng.choice(['call', 'call_timed']))
        for _ in range(rng.choice([0, 0, 1, 2])):
            out += self.step('cancel_call')
        for _ in range(rng.randrange(2, 4)):
            out += self.step('notify')
        for _ in range(rng.randrange(3, 5)):
            if rng.random() < 0.5:
                out += self.step('proxy_explicit')
            else:
                out += self.step('proxy_introspect')
                i = max(self.pending)
                self.pending.pop(i)
                p = self.next_proxy
                self.next_proxy += 1
                self.proxies[p] = {'alive': True, 'cbs': []}
                out.append({'op': 'reply', 'i': i, 'ok': True})
        for p in list(self.proxies):
            if self.proxies[p]['alive']:
                for _ in range(rng.randrange(1, 3)):
                    self.proxies[p]['cbs'].append(self.next_cb)
                    self.next_cb += 1
                    out.append({'op': 'proxy_notify', 'p': p, 'r': self.reaction()})
        return out

    def step(self, force=None):
        rng = self.rng
        ops = ['call', 'call', 'call_timed', 'notify', 'notify', 'proxy_explicit', 'proxy_introspect']
        if self.conn_cbs:
            ops.append('cancel_notify')
        alive = [p for p, r in self.proxies.items() if r['alive']]
        if alive:
            ops += ['proxy_notify', 'proxy_notify', 'drop']
            if any(self.proxies[p]['cbs'] for p in alive):
                ops.append('proxy_cancel')
        if self.pending:
            ops += ['reply', 'reply']
        timed = [i for i, c in self.pending.items() if c['deadline'] is not None]
        if timed:
            ops.append('expire')
        cancellable = sorted(i for i, c in self.pending.items() if not c.get('cancelled'))
        if cancellable:
            ops += ['cancel_call', 'cancel_call']
        op = force or rng.choice(ops)
        if op == 'cancel_call':
            if not cancellable:
                return []
            # the caller gives up on an outstanding call (preferably one that has a timeout): the entry and its timer
            # stay in the table until a reply, the timeout or the loss
            with_timer = [i for i in cancellable if self.pending[i]['deadline'] is not None]
            i = rng.choice(with_timer if with_timer and rng.random() < 0.7 else cancellable)
            self.pending[i]['cancelled'] = True
            return [{'op': 'cancel_call', 'i': i}]
        if op in ('call', 'call_timed'):
            timeout = None
            if op == 'call_timed':
                while True:
                    timeout = float(rng.randrange(5, 500))
                    if self.now + timeout not in self.deadlines:
                        break
                self.deadlines.add(self.now + timeout)
            i = self.next_serial
            self.next_serial += 1
            self.pending[i] = {'kind': 'user', 'deadline': None if timeout is None else self.now + timeout}
            return [{'op': 'call', 'timeout': timeout, 'r': self.reaction()}]
        if op == 'notify':
            self.conn_cbs.append(self.next_cb)
            self.next_cb += 1
            return [{'op': 'notify', 'r': self.reaction()}]
        if op == 'cancel_notify':
            c = rng.choice(self.conn_cbs)
            self.conn_cbs.remove(c)
            return [{'op': 'cancel_notify', 'c': c}]
        if op == 'proxy_explicit':
            p = self.next_proxy
            self.next_proxy += 1
            self.proxies[p] = {'alive': True, 'cbs': []}
            return [{'op': 'proxy_explicit', 'key': rng.randrange(3), 'form': rng.choice(['iface', 'list', 'name'])}]
        if op == 'proxy_introspect':
            i = self.next_serial
            self.next_serial += 1
            key = rng.randrange(3)
            self.pending[i] = {'kind': 'introspect', 'deadline': None}
            return [{'op': 'proxy_introspect', 'key': key, 'form': rng.choice(['none', 'none', 'name', 'namelist'])}]
        if op == 'proxy_notify':
            p = rng.choice(alive)
            self.proxies[p]['cbs'].append(self.next_cb)
            self.next_cb += 1
            return [{'op': 'proxy_notify', 'p': p, 'r': self.reaction()}]
        if op == 'proxy_cancel':
            p = rng.choice([q for q in alive if self.proxies[q]['cbs']])
            c = rng.choice(self.proxies[p]['cbs'])
            self.proxies[p]['cbs'].remove(c)
            return [{'op': 'proxy_cancel', 'p': p, 'c': c}]
        if op == 'drop':
            p = rng.choice(alive)
            self.proxies[p]['alive'] = False
            return [{'op': 'drop', 'p': p}]
        if op == 'reply':
            i = rng.choice(sorted(self.pending))
            c = self.pending.pop(i)
            ok = rng.random() < 0.7
            if c['kind'] == 'introspect' and ok and not c.get('cancelled'):
                p = self.next_proxy
                self.next_proxy += 1
                self.proxies[p] = {'alive': True, 'cbs': []}
            # (a reply for a Deferred the caller has cancelled runs no user callback: nothing can close from inside it)
            inside = c['kind'] == 'user' and not c.get('cancelled') and rng.random() < self.p_inside
            if inside:
                self.closed = True
            if rng.random() < 0.3:
                cut = rng.randrange(1, 1000)
                return [{'op': 'reply', 'i': i, 'ok': ok, 'part': 'head', 'cut': cut},
                        dict({'op': 'reply', 'i': i, 'ok': ok, 'part': 'tail', 'cut': cut}, **({'lose_inside': True} if inside else {}))]
            return [dict({'op': 'reply', 'i': i, 'ok': ok}, **({'lose_inside': True} if inside else {}))]
        # expire: only the earliest live timer can fire next
        i = min(timed, key=lambda j: self.pending[j]['deadline'])
        self.now = self.pending[i]['deadline']
        c = self.pending.pop(i)
        if not c.get('cancelled') and rng.random() < self.p_inside:
            self.closed = True
            return [{'op': 'expire', 'i': i, 'lose_inside': True}]
        return [{'op': 'expire', 'i': i}]


def gen_history(rng, tmp, want=None, extended=False):
    """A base history: (entries, address, steps)."""
    entries, addr = gen_address(rng, tmp)
    return gen_steps(rng, entries, addr, want, extended)


def gen_steps(rng, entries, addr, want=None, extended=False, ops=True):
    """The steps of one connect with this address list (`ops`: user operations once the connection is ready)."""
    n = len(entries)
    steps = []
    if n == 0:
        return entries, addr, steps
    want = want or rng.choice(['ready', 'ready', 'ready', 'ready', 'ready', 'hello-error', 'hello-noname', 'auth-fail',
                               'stall', 'exhaust', 'pending'])
    if want == 'exhaust':
        steps += [af_step(rng) for _ in range(n)]
        return entries, addr, steps
    j = rng.randrange(n)                 # the first reachable entry
    if want == 'pending':                # the attempt on entry j never resolves
        steps += [af_step(rng) for _ in range(j)]
        return entries, addr, steps
    steps += [af_step(rng) for _ in range(j)] + [{'op': 'ac'}]
    unix = entries[j]['kind'] in ('unix', 'abstract', 'tmpdir')
    if want == 'auth-fail':
        return entries, addr, steps + gen_handshake(rng, unix, 'fail')
    if want == 'stall':
        return entries, addr, steps + gen_handshake(rng, unix, 'stall')
    steps += gen_handshake(rng, unix, 'ok')
    ok = want != 'hello-error'
    named = want != 'hello-noname'
    name = rng.choice([':1.42', ':1.42', ':1.7', '', 'org.example.NotUnique'])   # any string is a name for the gate
    if rng.random() < 0.4:
        cut = rng.randrange(1, 1000)
        steps += [{'op': 'hello', 'ok': ok, 'named': named, 'name': name, 'part': 'head', 'cut': cut},
                  {'op': 'hello', 'ok': ok, 'named': named, 'name': name, 'part': 'tail', 'cut': cut}]
    else:
        steps.append({'op': 'hello', 'ok': ok, 'named': named, 'name': name})
    if not ok or not named or not ops:
        return entries, addr, steps
    g = ReadyGen(rng, extended)
    if extended or rng.random() < 0.5:
        steps += g.burst()
    for _ in range(rng.choice([0, 1, 2, 4, 6, 8, 10, 14])):
        if g.closed:
            break
        steps += g.step()
    return entries, addr, steps


def transport_open_after(steps):
    """Is there an open transport after these steps (so that a close can be injected)?"""
    is_open = False
    for st in steps:
        if st['op'] == 'ac':
            is_open = True
        elif st['op'] == 'close' or (st['op'] == 'auth' and 'ax' in st['tok']) or st.get('lose_inside'):
            is_open = False
    return is_open


def close_step(rng):
    return {'op': 'close', 'reason': rng.choice(['done', 'done', 'lost'])}


def gen_reaction_skeletons(quick):
    """Every assignment of reactions to a fixed skeleton on a ready connection."""
    conn_n, call_n, pcb_n = (2, 1, 1) if quick else (2, 2, 2)
    out = []
    for explicit in (True, False):
        for rs in itertools.product(REACTIONS, repeat=conn_n):
            for cs in itertools.product(['n', 'c', 'r', 'p', 'x'], repeat=call_n):
                for ps in itertools.product(REACTIONS, repeat=pcb_n):
                    steps = [{'op': 'ac'}, {'op': 'auth', 'hex': (b'OK ' + GUID + b'\r\n').hex(), 'tok': ['ao']},
                             {'op': 'hello', 'ok': True}]
                    for r in rs:
                        steps.append({'op': 'notify', 'r': r})
                    for k, r in enumerate(cs):
                        steps.append({'op': 'call', 'timeout': 30.0 + k if k % 2 == 0 else None, 'r': r})
                    if explicit:
                        steps.append({'op': 'proxy_explicit', 'key': 0, 'form': 'iface'})
                    else:
                        steps.append({'op': 'proxy_introspect', 'key': 0, 'form': 'none'})
                        steps.append({'op': 'reply', 'i': 1 + call_n, 'ok': True})
                    for r in ps:
                        steps.append({'op': 'proxy_notify', 'p': 0, 'r': r})
                    steps.append({'op': 'close', 'reason': 'done'})
                    entries = [{'kind': 'tcp', 'host': '127.0.0.1', 'port': 1234}]
                    out.append({'entries': entries, 'address': render_entry(entries[0]), 'steps': steps})
    # the connection is closed from INSIDE a callback the library is running for a reply, an error reply, a timeout or a
    # signal, with other calls (timed and not), connection callbacks and proxies in flight
    for where in ('reply', 'error', 'expire', 'signal'):
        for victim_timed in (True, False):
            for explicit in (True, False):
                for r0 in ['n', 'c', 'x']:
                    steps = [{'op': 'ac'}, {'op': 'auth', 'hex': (b'OK ' + GUID + b'\r\n').hex(), 'tok': ['ao']},
                             {'op': 'hello', 'ok': True}, {'op': 'notify', 'r': r0},
                             {'op': 'call', 'timeout': 20.0 if victim_timed else None, 'r': 'n'},     # 1: the call that is answered
                             {'op': 'call', 'timeout': 90.0, 'r': 'n'},                                # 2: in flight, timed
                             {'op': 'call', 'timeout': None, 'r': 'c'}]                                # 3: in flight
                    serial = 4
                    if explicit:
                        steps.append({'op': 'proxy_explicit', 'key': 0, 'form': 'iface'})
                    else:
                        steps += [{'op': 'proxy_introspect', 'key': 0, 'form': 'none'}, {'op': 'reply', 'i': serial, 'ok': True}]
                        serial += 1
                    steps.append({'op': 'proxy_notify', 'p': 0, 'r': 'n'})
                    if where == 'reply':
                        steps.append({'op': 'reply', 'i': 1, 'ok': True, 'lose_inside': True})
                    elif where == 'error':
                        steps.append({'op': 'reply', 'i': 1, 'ok': False, 'lose_inside': True})
                    elif where == 'expire':
                        if not victim_timed:
                            continue
                        steps.append({'op': 'expire', 'i': 1, 'lose_inside': True})
                    else:
                        steps += [{'op': 'add_match'}, {'op': 'reply', 'i': serial, 'ok': True},
                                  {'op': 'signal'}, {'op': 'signal', 'lose_inside': True}]
                    entries = [{'kind': 'tcp', 'host': '127.0.0.1', 'port': 1234}]
                    out.append({'entries': entries, 'address': render_entry(entries[0]), 'steps': steps})
    # the caller cancels the Deferred of an outstanding call (with / without a timeout; a user call / a getRemoteObject
    # waiting for its Introspect reply) while another timed call and a callback are in flight; then nothing / a second
    # cancel / the reply / an error reply / the timeout arrives for it; then the connection is lost
    for victim in ('timed', 'untimed', 'introspect'):
        for then in ('nothing', 'again', 'reply', 'error', 'expire', 'other-reply'):
            for r0 in ['n', 'c', 'x']:
                if then == 'expire' and victim != 'timed':
                    continue
                steps = [{'op': 'ac'}, {'op': 'auth', 'hex': (b'OK ' + GUID + b'\r\n').hex(), 'tok': ['ao']},
                         {'op': 'hello', 'ok': True}, {'op': 'notify', 'r': r0}]
                if victim == 'introspect':
                    steps.append({'op': 'proxy_introspect', 'key': 0, 'form': 'none'})                   # 1: the victim
                else:
                    steps.append({'op': 'call', 'timeout': 20.0 if victim == 'timed' else None, 'r': r0})  # 1: the victim
                steps += [{'op': 'call', 'timeout': 90.0, 'r': 'n'},                                      # 2: in flight, timed
                          {'op': 'call', 'timeout': None, 'r': r0},                                       # 3: in flight
                          {'op': 'cancel_call', 'i': 1}]
                if then == 'again':
                    steps.append({'op': 'cancel_call', 'i': 1})
                elif then == 'reply':
                    steps.append({'op': 'reply', 'i': 1, 'ok': True})
                elif then == 'error':
                    steps.append({'op': 'reply', 'i': 1, 'ok': False})
                elif then == 'expire':
                    steps.append({'op': 'expire', 'i': 1})
                elif then == 'other-reply':
                    steps += [{'op': 'reply', 'i': 2, 'ok': True}, {'op': 'cancel_call', 'i': 3}]
                steps.append({'op': 'close', 'reason': 'done' if r0 != 'c' else 'lost'})
                entries = [{'kind': 'tcp', 'host': '127.0.0.1', 'port': 1234}]
                out.append({'entries': entries, 'address': render_entry(entries[0]), 'steps': steps})
    # two live proxies of the SAME remote object (same bus name, path, interfaces), obtained both ways
    for how in (('i', 'i'), ('e', 'e'), ('e', 'i'), ('i', 'e')):
        for r0 in (['n', 'u', 'x'] if quick else REACTIONS):
            for c0 in ['n', 'c', 'r', 'p', 'x']:
                for ps in itertools.product(REACTIONS, repeat=2):
                    steps = [{'op': 'ac'}, {'op': 'auth', 'hex': (b'OK ' + GUID + b'\r\n').hex(), 'tok': ['ao']},
                             {'op': 'hello', 'ok': True}, {'op': 'notify', 'r': r0},
                             {'op': 'call', 'timeout': 12.0, 'r': c0}]
                    serial = 2
                    for h in how:
                        if h == 'e':
                            steps.append({'op': 'proxy_explicit', 'key': 1, 'form': 'iface'})
                        else:
                            steps.append({'op': 'proxy_introspect', 'key': 1, 'form': 'none'})
                            steps.append({'op': 'reply', 'i': serial, 'ok': True})
                            serial += 1
                    steps.append({'op': 'proxy_notify', 'p': 0, 'r': ps[0]})
                    steps.append({'op': 'proxy_notify', 'p': 1, 'r': ps[1]})
                    steps.append({'op': 'close', 'reason': 'lost'})
                    entries = [{'kind': 'unix', 'path': '/run/user/0/bus'}]
                    steps[1] = {'op': 'auth', 'hex': (b'OK ' + GUID + b'\r\nAGREE_UNIX_FD\r\n').hex(), 'tok': ['ap', 'ao']}
                    out.append({'entries': entries, 'address': render_entry(entries[0]), 'steps': steps})
    return out


def gen_reconnect(rng, tmp):
    """One process, 2..4 connects with the same address string: each earlier connection is lost before the next connect
    (a reconnect), or is left open and idle beside the next one."""
    entries, addr = gen_address(rng, tmp, n=rng.choice([1, 2, 2, 3, 3, 4]))
    rounds = []
    nrounds = rng.choice([2, 2, 3, 4])
    for k in range(nrounds):
        last = k == nrounds - 1
        want = rng.choice(['ready', 'ready', 'ready', 'exhaust', 'exhaust', 'auth-fail', 'hello-error', 'stall', 'pending'])
        beside = not last and rng.random() < 0.25         # stays open (idle: no calls, no timers) beside the later ones
        _, _, steps = gen_steps(rng, entries, addr, want, ops=(last or not beside) and rng.random() < 0.6)
        if transport_open_after(steps) and (not beside if not last else rng.random() < 0.5):
            steps = steps + [close_step(rng)]
        rounds.append(steps)
    return {'entries': entries, 'address': addr, 'rounds': rounds}


class LiveGen:
    """User operations on SEVERAL ready connections of one process that share the reactor's clock: one ReadyGen per
    connection, deadlines unique across all of them, and a timer may expire only if it is the earliest live timer of the
    whole process."""

    def __init__(self, rng, n):
        self.rng = rng
        self.gens = [ReadyGen(rng) for _ in range(n)]
        shared = set()
        for g in self.gens:
            g.deadlines = shared
            g.p_inside = 0.08
        self.now = 0.0
        self.alive = [True] * n

    def deadlines_of(self, k):
        return [c['deadline'] for c in self.gens[k].pending.values() if c['deadline'] is not None]

    def burst(self, k):
        g = self.gens[k]
        g.now = self.now
        return g.burst()

    def step(self, k):
        g, rng = self.gens[k], self.rng
        g.now = self.now
        ops = ['call', 'call', 'call_timed', 'call_timed', 'notify', 'proxy_explicit', 'proxy_introspect', 'cancel_call']
        if g.pending:
            ops += ['reply', 'reply']
        if any(r['alive'] for r in g.proxies.values()):
            ops += ['proxy_notify', 'drop']
        mine = self.deadlines_of(k)
        theirs = [d for j in range(len(self.gens)) if j != k and self.alive[j] for d in self.deadlines_of(j)]
        if mine and (not theirs or min(mine) < min(theirs)):
            ops += ['expire', 'expire']
        out = g.step(force=rng.choice(ops))
        self.now = max(self.now, g.now)
        if g.closed:
            self.alive[k] = False
        return out

    def lost(self, k):
        self.alive[k] = False


def gen_two_live(rng, tmp):
    """Two (sometimes three) connections of one process, all READY at the same time, each with calls (with and without a
    timeout), disconnect callbacks and proxies with callbacks in flight; operations interleaved; then one is lost while the
    others live on - their calls are answered, their timers expire, a reply carrying a serial of the lost connection
    arrives -, then the next.  The first connection is the one that was "beside" the later connects."""
    n = 3 if rng.random() < 0.15 else 2
    entries, addr = gen_address(rng, tmp, n=rng.choice([1, 1, 2]))
    lg = LiveGen(rng, n)
    rounds, order = [[] for _ in range(n)], []

    def add(k, steps):
        for st in steps:
            rounds[k].append(st)
            order.append(k)
    for k in range(n):
        _, _, pre = gen_steps(rng, entries, addr, want='ready', ops=False)
        add(k, pre)
        add(k, lg.burst(k))
        if lg.gens[k].closed:
            lg.alive[k] = False
        if k == 0 and rng.random() < 0.5:
            for _ in range(rng.randint(1, 4)):
                if lg.alive[0]:
                    add(0, lg.step(0))
    for _ in range(rng.randint(2, 12)):
        live = [k for k in range(n) if lg.alive[k]]
        if not live:
            break
        k = rng.choice(live)
        add(k, lg.step(k))
    victims = [k for k in range(n) if lg.alive[k]]
    rng.shuffle(victims)
    keep = rng.random() < 0.15          # the last one stays alive to the end
    for pos_, k in enumerate(victims):
        if keep and pos_ == len(victims) - 1:
            break
        add(k, [close_step(rng)])
        lg.lost(k)
        for _ in range(rng.randint(0, 5)):
            live = [j for j in range(n) if lg.alive[j]]
            if not live:
                break
            j = rng.choice(live)
            if rng.random() < 0.25:
                add(j, [{'op': 'foreign_reply', 'i': rng.randint(1, 4)}])
            else:
                add(j, lg.step(j))
    return {'entries': entries, 'address': addr, 'rounds': rounds, 'order': order}


def two_live_skeletons():
    """STATE_AUDIT G1, literally: A and B ready in one process; on each two calls (one with a timeout), one connection-level
    callback, two proxies (explicit / introspected) with a callback each; reply A1; LOSE B; expire A2; a late reply carrying
    B's serial arrives at A; lose A.  Every pair of reactions for the callbacks; both orders of the losses."""
    ok = [{'op': 'ac'}, {'op': 'auth', 'hex': (b'OK ' + GUID + b'\r\nAGREE_UNIX_FD\r\n').hex(), 'tok': ['ap', 'ao']},
          {'op': 'hello', 'ok': True}]
    entries = [{'kind': 'unix', 'path': '/run/verif-bus-A'}]
    addr = render_entry(entries[0])
    out = []
    for ra, rb in itertools.product(['n', 'c', 'u', 'r', 'p', 'x'], repeat=2):
        for first in (1, 0):
            def ops(r, t):
                return [{'op': 'call', 'timeout': t, 'r': r}, {'op': 'call', 'timeout': None, 'r': r},
                        {'op': 'notify', 'r': r}, {'op': 'proxy_explicit', 'key': 0, 'form': 'iface'},
                        {'op': 'proxy_introspect', 'key': 1, 'form': 'none'}, {'op': 'reply', 'i': 3, 'ok': True},
                        {'op': 'proxy_notify', 'p': 0, 'r': r}, {'op': 'proxy_notify', 'p': 1, 'r': r}]
            a = ok + ops(ra, 30.0)
            b = ok + ops(rb, 300.0)
            order = [0] * len(a) + [1] * len(b)
            other = 1 - first
            rounds = [a, b]
            rounds[other] = rounds[other] + [{'op': 'reply', 'i': 2, 'ok': True}]
            order.append(other)
            rounds[first] = rounds[first] + [{'op': 'close', 'reason': 'lost'}]
            order.append(first)
            rounds[other] = rounds[other] + [{'op': 'expire', 'i': 1}, {'op': 'foreign_reply', 'i': 1},
                                             {'op': 'call', 'timeout': 50.0, 'r': 'n'}, {'op': 'close', 'reason': 'done'}]
            order += [other] * 4
            out.append({'entries': entries, 'address': addr, 'rounds': rounds, 'order': order})
    return out


def reconnect_skeletons():
    """`A;B` (and `A;B;C`) with every pattern of reachable addresses over three connects of one process."""
    ok = [{'op': 'auth', 'hex': (b'OK ' + GUID + b'\r\n').hex(), 'tok': ['ao']}, {'op': 'hello', 'ok': True}]
    okU = [{'op': 'auth', 'hex': (b'OK ' + GUID + b'\r\nAGREE_UNIX_FD\r\n').hex(), 'tok': ['ap', 'ao']}, {'op': 'hello', 'ok': True}]
    out = []
    lists = [[{'kind': 'unix', 'path': '/run/verif-bus-A'}, {'kind': 'unix', 'path': '/run/verif-bus-B'}],
             [{'kind': 'tcp', 'host': '127.0.0.1', 'port': 1}, {'kind': 'unix', 'path': '/run/verif-bus-B'},
              {'kind': 'tcp', 'host': 'localhost', 'port': 2}]]
    for entries in lists:
        n = len(entries)
        pats = list(range(n + 1))                   # index of the first reachable address; n = none is reachable
        for combo in itertools.product(pats, repeat=3):
            for lose in (True, False):
                rounds = []
                for j in combo:
                    steps = [{'op': 'af', 'why': 'refused', 'exc': 'ConnectionRefusedError'} for _ in range(min(j, n))]
                    if j < n:
                        steps += [{'op': 'ac'}] + (okU if entries[j]['kind'] == 'unix' else ok)
                        if lose:
                            steps.append({'op': 'close', 'reason': 'lost'})
                    rounds.append(steps)
                out.append({'entries': entries, 'address': ';'.join(render_entry(e) for e in entries), 'rounds': rounds})
    return out


# ---- endpoints-parse --------------------------------------------------------------------------------------------

def gen_parse_case(rng, tmp):
    entries, addr = gen_address(rng, tmp, n=rng.choice([0, 1, 2, 3, 4]))
    env = {'session': None, 'system': None}
    m = rng.random()
    if m < 0.45:
        return {'addr': addr, 'env': env, 'wellformed': True, 'entries': entries}
    if m < 0.55:
        which = rng.choice(['session', 'system'])
        env[which] = addr if rng.random() < 0.7 else None
        return {'addr': which, 'env': env, 'wellformed': False, 'entries': entries}
    # mutations of the text
    muts = rng.randrange(1, 4)
    s = addr or 'unix:path=/a'
    for _ in range(muts):
        k = rng.randrange(12)
        pos = rng.randrange(len(s) + 1)
        if k == 0:
            s = s[:pos] + rng.choice([';', ',', '=', ':']) + s[pos:]
        elif k == 1 and s:
            pos = rng.randrange(len(s))
            s = s[:pos] + s[pos + 1:]
        elif k == 2:
            s = s.replace('path=', rng.choice(['tmpdir=', 'abstract=', 'pth=', 'path=x,path=']), 1)
        elif k == 3:
            s = s.replace('port=', rng.choice(['port= ', 'port=+', 'port=-', 'port=0x', 'prt=', 'port=1_', 'port=_']), 1)
        elif k == 4:
            s = s.replace('host=', rng.choice(['hst=', 'host=a=', 'nonce-tcp=']), 1)
        elif k == 5:
            s = s + rng.choice([';unix:', ';tcp:', ';nonce-tcp:', ';launchd:env=X', ';unix:guid=ab', ',tcp:host=h',
                                ',unix:path=/p', ';tcp:host=h,port=7,unix:', ';unix:tmpdir=/t'])
        elif k == 6:
            s = rng.choice(['unix:', 'tcp:', 'launchd:', 'nonce-tcp:']) + s
        elif k == 7:
            s = s.replace(',', rng.choice([',,', ';', ',x,']), 1)
        elif k == 8:
            s = s.replace(':', rng.choice(['::', '', ':unix:']), 1)
        elif k == 9:
            s = s.replace('port=', 'port=%s' % rng.choice(['', ' 12', '1 2', '00', '\t9\n']), 1)
        elif k == 10:
            s = s + ';' + s
        else:
            s = s[:pos] + rng.choice(['é', ' ', 'unix:', 'a=b']) + s[pos:]
    return {'addr': s, 'env': env, 'wellformed': False, 'entries': None}


def parse_model_line(case):
    def opt(v):
        return 'none' if v is None else hexs(v)
    return 'parse %s %s %s %s' % (hexs(case['addr']), opt(case['env']['session']), opt(case['env']['system']),
                                  hexs(str(os.getpid())))


def parse_impl(M, case):
    saved = {k: os.environ.get(k) for k in ('DBUS_SESSION_BUS_ADDRESS', 'DBUS_SYSTEM_BUS_ADDRESS')}
    try:
        for k, v in (('DBUS_SESSION_BUS_ADDRESS', case['env']['session']), ('DBUS_SYSTEM_BUS_ADDRESS', case['env']['system'])):
            if v is None:
                os.environ.pop(k, None)
            else:
                os.environ[k] = v
        reactor = M.MemoryReactorClock()
        try:
            eps = M.endpoints.getDBusEndpoints(reactor, case['addr'])
        except Exception as e:          # noqa: BLE001
            return 'err ' + type(e).__name__
    finally:
        for k, v in saved.items():
            if v is None:
                os.environ.pop(k, None)
            else:
                os.environ[k] = v
    out = []
    for ep in eps:
        args = ','.join('%s=%s' % (hexs(k), 'T' if v is True else 's' + hexs(v)) for k, v in ep.dbus_args.items()) or '-'
        nu, nt = len(reactor.unixClients), len(reactor.tcpClients)
        from twisted.internet.protocol import Factory
        ep.connect(Factory())
        if len(reactor.unixClients) > nu:
            out.append('U:%s:%s' % (hexs(reactor.unixClients[-1][0]), args))
        elif len(reactor.tcpClients) > nt:
            out.append('T:%s:%d:%s' % (hexs(reactor.tcpClients[-1][0]), reactor.tcpClients[-1][1], args))
        else:
            raise Reach('an endpoint connected to neither a unix nor a tcp address')
    return 'ok %d%s' % (len(out), ''.join(' ' + o for o in out))


def parse_expected(case):
    """Oracle for well-formed lists (from the spec): one endpoint per entry, in listed order."""
    out = []
    for e in case['entries']:
        t = entry_target(e)[3:]
        out.append(t)
    return out


# ----------------------------------------------------------------------------------------------------------------

def check_scenarios(ctx, M, stream, scenarios, use_model=True):
    out = ctx.model([model_line(sc) for sc in scenarios]) if use_model else None
    for k, sc in enumerate(scenarios):
        run = execute(M, sc)
        ctx.impl_trace()
        connected = any(st['op'] == 'ac' for st in sc['steps'])
        ctx.case(stream, sample={'address': sc['address'], 'steps': sc['steps']}, nontrivial=connected)
        ctx.stat('life:len=%d' % min(len(sc['steps']) // 4 * 4, 24))
        ctx.stat('life:end=' + run.phase)
        if run.stat_inside:
            ctx.stat('life:loss-inside-' + run.stat_inside)
        if run.at_loss is not None:
            ctx.stat('life:loss-with-calls=%d' % min(len(run.at_loss['outstanding']), 6))
            ctx.stat('life:loss-with-proxies=%d' % min(len(run.at_loss['proxies']), 4))
            ctx.stat('life:loss-with-cancelled-calls=%d' % min(len(run.at_loss['cancelled']), 3))
            if any(run.calls[i]['timed'] for i in run.at_loss['cancelled']):
                ctx.stat('life:loss-with-cancelled-timed-call')
        if run.reach is not None:
            # the harness could not reach an internal it wanted to look at: its own problem, never a verdict
            ctx.stat('life:harness-reach-problem')
            if not getattr(ctx, '_c09_reach_noted', False):
                ctx._c09_reach_noted = True
                ctx.note('ADVISORY: harness could not reach an internal of txdbus (%s); affected scenarios are skipped' % run.reach)
            continue
        if run.unexpected and not use_model:
            ctx.stat('life:extended-scenario-not-executable')
            continue
        if run.unexpected:
            # the harness could not drive the scenario as designed: never a verdict on the code by itself
            ctx.disagree(stream, sc, 'scenario not executable', run.unexpected[:3])
            continue
        m = model_view(out[k]) if out is not None else None
        impl = impl_view(run)
        thr = run.loss_thresholds
        if m is not None and canon_view(mask_unreachable(m, impl), thr) != canon_view(impl, thr):
            ctx.disagree(stream, sc, m, impl)
        for key, what, observed, expected in judge(run, sc):
            ctx.violation(key, what, inp=sc, observed=observed, expected=expected)


def expected_attempts(run, sc):
    """The attempts this connect must have made so far, given what the script DID to it: the listed addresses in listed
    order, one per scripted failure, plus the one that is outstanding / was completed (None: no listed entries known)."""
    entries = sc.get('entries')
    if entries is None:
        return None
    return [entry_target(e) for e in entries[:run.af_count + 1]]


def check_rounds(ctx, M, stream, scenarios):
    """Multi-connect scenarios: every connect is compared with the model's (independent) run and judged like a single
    connect; first of all its attempts must be the listed addresses in listed order, whatever earlier connects did."""
    out = ctx.model([model_line(sc) for sc in scenarios])
    for k, sc in enumerate(scenarios):
        runs = execute_live(M, sc) if 'order' in sc else execute_rounds(M, sc)
        ctx.impl_trace()
        ctx.case(stream, sample=dict({'address': sc['address'], 'rounds': sc['rounds']},
                                     **({'order': sc['order']} if 'order' in sc else {})),
                 nontrivial=len(sc['rounds']) > 1 and any(st['op'] == 'ac' for st in sc['rounds'][0]))
        ctx.stat('reconnect:connects=%d' % len(sc['rounds']))
        if 'order' in sc:
            ready = [r for r in runs if r.at_loss is not None]
            ctx.stat('twolive:ready-connections-lost=%d' % len(ready))
            if len(ready) >= 2:
                ctx.stat('twolive:both-lost-with-calls=%d' % min(len(r.at_loss['outstanding']) for r in ready))
            for r in runs:
                for c in r.cross:
                    ctx.violation('connection-affected-by-another-connection',
                                  'a step on connection #%d of the process (%s) changed connection #%d: new effects %r'
                                  % (c['step']['conn'] + 1, c['step']['op'], c['on'] + 1, c['new_effects']),
                                  inp=sc, observed=c, expected='no effect on another connection')
        views = out[k].split(' // ') if out is not None and out[k] is not None else None
        for j, run in enumerate(runs):
            rsc = round_scenario(sc, j)
            ctx.stat('reconnect:end-of-connect=' + run.phase)
            if run.reach is not None:
                ctx.stat('life:harness-reach-problem')
                break
            if run.parse_error is None and not run.stalled:
                want = expected_attempts(run, rsc)
                got = [f for f in run.fx if f.startswith('at:')]
                if want is not None and got != want and (not run.unexpected or run.attempt_missing):
                    key = 'connect-order' if j == 0 else 'reconnect-address-list-not-retried'
                    ctx.violation(key, 'connect #%d of one process (same address string, same reactor): its connection attempts '
                                  'are not the listed addresses in listed order%s' % (
                                      j + 1, '; ' + run.attempt_missing if run.attempt_missing else ''),
                                  inp=sc, observed={'connect': j + 1, 'attempts': got, 'fired': run.fired}, expected=want)
                    break           # the rest of the script no longer applies
            if run.unexpected:
                ctx.disagree(stream, sc, 'scenario not executable (connect #%d)' % (j + 1), run.unexpected[:3])
                break
            m = model_view(views[j]) if views is not None and j < len(views) else None
            impl = impl_view(run)
            thr = run.loss_thresholds
            if m is not None and canon_view(mask_unreachable(m, impl), thr) != canon_view(impl, thr):
                ctx.disagree(stream, sc, 'connect #%d: %s' % (j + 1, m), impl)
            for key, what, observed, expected in judge(run, rsc):
                ctx.violation(key, 'connect #%d of one process: %s' % (j + 1, what), inp=sc, observed=observed, expected=expected)


def run(ctx):
    M = Mods()
    tmp = tempfile.mkdtemp(prefix='verif-c09-')
    from twisted.python import log as tlog
    saved_err = tlog.err
    tlog.err = lambda *a, **k: None     # log.err() of guarded callbacks would print a traceback per scenario
    try:
        with open(os.path.join(tmp, 'nonce'), 'wb') as f:
            f.write(b'0123456789abcdef')
        _run(ctx, M, tmp)
    finally:
        shutil.rmtree(tmp, ignore_errors=True)
        tlog.err = saved_err


def _run(ctx, M, tmp):
    rng = ctx.rng
    quick = ctx.tier == 'quick'
    # ---- corpus first
    corpus = [c for _, c in ctx.corpus()]
    life = [c['input'] if 'input' in c else c for c in corpus]
    many = [c for c in life if isinstance(c, dict) and 'rounds' in c]
    cah = [c for c in life if isinstance(c, dict) and 'cah' in c]
    life = [c for c in life if isinstance(c, dict) and 'steps' in c]
    if life:
        check_scenarios(ctx, M, 'lifecycle-reactions', life)
    if many:
        check_rounds(ctx, M, 'lifecycle-reconnect', [c for c in many if 'order' not in c])
        check_rounds(ctx, M, 'lifecycle-two-live', [c for c in many if 'order' in c])

    # ---- C09 x C07: one attempt through the real handshake (harness/c09_handshake.py)
    c09_handshake.run_stream(ctx, M, tmp, corpus=cah)

    # ---- endpoints-parse
    n = ctx.scale(quick=1500, thorough=60000)
    cases = [gen_parse_case(rng, tmp) for _ in range(n)]
    out = ctx.model([parse_model_line(c) for c in cases])
    for k, c in enumerate(cases):
        impl = parse_impl(M, c)
        ctx.case('endpoints-parse', sample={'addr': c['addr'], 'env': c['env']}, nontrivial=bool(c['addr']))
        ctx.stat('parse:' + impl.split(' ')[0] + (':' + impl.split(' ')[1] if impl.startswith('err') else ''))
        if out is not None and out[k] != impl:
            ctx.disagree('endpoints-parse', c, out[k], impl)
        if c['wellformed']:
            want = parse_expected(c)
            got = [':'.join(t.split(':')[:-1]) for t in impl.split(' ')[2:]] if impl.startswith('ok') else None
            if got != want:
                ctx.violation('endpoints-wellformed-list-misparsed',
                              'a well-formed address list does not yield its entries in listed order',
                              inp=c, observed=impl, expected=want)

    # ---- lifecycle: base histories, and the close injected at every point of each
    nbase = ctx.scale(quick=300, thorough=8000)
    bases, everywhere = [], []
    for _ in range(nbase):
        entries, addr, steps = gen_history(rng, tmp)
        base = list(steps)
        if transport_open_after(base) and rng.random() < 0.7:
            base = base + [close_step(rng)]
        bases.append({'entries': entries, 'address': addr, 'steps': base})
        for i in range(len(steps) + 1):
            if transport_open_after(steps[:i]):
                everywhere.append({'entries': entries, 'address': addr, 'steps': steps[:i] + [close_step(rng)]})
    check_scenarios(ctx, M, 'lifecycle-random', bases)
    check_scenarios(ctx, M, 'lifecycle-close-everywhere', everywhere)

    # ---- implementation-only: reactions outside the model's alphabet (drop a proxy, timed call, cancel another
    # callback, disconnect()); judged by the oracle with the allowances documented in `judge`
    ext = []
    for _ in range(ctx.scale(quick=500, thorough=6000)):
        entries, addr, steps = gen_history(rng, tmp, want='ready', extended=True)
        if transport_open_after(steps):
            ext.append({'entries': entries, 'address': addr, 'steps': steps + [close_step(rng)], 'extended': True})
    check_scenarios(ctx, M, 'lifecycle-extended', ext, use_model=False)

    # ---- one process, several connects with the same address string on the same reactor
    rec = reconnect_skeletons() + [gen_reconnect(rng, tmp) for _ in range(ctx.scale(quick=150, thorough=4000))]
    check_rounds(ctx, M, 'lifecycle-reconnect', rec)

    # ---- one process, several connections ALIVE at once, each with work in flight; lost one after the other (STATE_AUDIT G1)
    check_rounds(ctx, M, 'lifecycle-two-live',
                 two_live_skeletons() + [gen_two_live(rng, tmp) for _ in range(ctx.scale(quick=250, thorough=5000))])

    # ---- reactions: every assignment on a fixed skeleton
    skel = gen_reaction_skeletons(quick)
    check_scenarios(ctx, M, 'lifecycle-reactions', skel)
    if not quick:
        ctx.note('lifecycle-reactions enumerates every reaction assignment of its skeleton (2 callbacks, 2 calls, 2 proxy callbacks; six reactions)')


def replay(ctx, data):
    M = Mods()
    inp = data.get('input', data)
    if isinstance(inp, dict) and 'cah' in inp:
        c09_handshake.replay_one(ctx, M, inp)
    elif isinstance(inp, dict) and 'rounds' in inp:
        check_rounds(ctx, M, 'lifecycle-two-live' if 'order' in inp else 'lifecycle-reconnect', [inp])
    elif isinstance(inp, dict) and 'steps' in inp:
        check_scenarios(ctx, M, 'lifecycle-reactions', [inp])
    elif isinstance(inp, dict) and 'addr' in inp:
        out = ctx.model([parse_model_line(inp)])
        impl = parse_impl(M, inp)
        ctx.case('endpoints-parse', sample=inp)
        if out is not None and out[0] != impl:
            ctx.disagree('endpoints-parse', inp, out[0], impl)
        if inp.get('wellformed'):
            want = parse_expected(inp)
            got = [':'.join(t.split(':')[:-1]) for t in impl.split(' ')[2:]] if impl.startswith('ok') else None
            if got != want:
                ctx.violation('endpoints-wellformed-list-misparsed',
                              'a well-formed address list does not yield its entries in listed order',
                              inp=inp, observed=impl, expected=want)
