"""Independent reference encoder / decoder for the DBus wire format, written from the DBus specification
("Marshaling (Wire Format)") and NOT from txdbus: it imports nothing of txdbus and shares no table with it.
Types and spec values are those of harness/gen_values.py (types as nested tuples; spec values: int, bool,
float, str, ('V', ty, sv) for a variant, lists for arrays and structs, (k, v) pairs for dict entries, the
descriptor object for 'h' - the wire carries its index in order of appearance).

    encode(tys, svs, offset, little)        -> bytes   (the value bytes only; the first byte is at `offset`)
    decode(tys, data, offset, little)       -> (svs, consumed)   strict: RefError on anything non-conformant
                                                      ('h' decodes to the index)
    alignment(code), pad_len(code, offset)

Rules implemented (specification text in quotes):
  * "Each value in a block of memory is aligned 'naturally'": alignment table below; "the alignment
    padding must always be the minimum required padding ... and must be made up of nul bytes"; alignment is
    counted "from the beginning of the message".
  * BYTE 1, BOOLEAN 4 (0 or 1 only), INT16/UINT16 2, INT32/UINT32 4, INT64/UINT64 8, DOUBLE 8 (IEEE 754),
    UNIX_FD 4 ("index into an out-of-band array of file descriptors").
  * STRING / OBJECT_PATH: "A UINT32 indicating the string's length in bytes excluding its terminating nul,
    followed by non-nul string data of the given length, followed by a terminating nul byte."  SIGNATURE:
    "the same as STRING except the length is a single byte".
  * ARRAY: "A UINT32 giving the length of the array data in bytes, followed by alignment padding to the
    alignment boundary of the array element type, followed by each array element.  The array length is from
    the end of the alignment padding to the end of the last element" (so padding between elements counts,
    the padding after the length does not; the padding is there even if the array is empty).  Max 2^26 bytes.
  * STRUCT / DICT_ENTRY: "aligned to an 8-byte boundary", then the fields in order, each aligned.
  * VARIANT: "The marshaled SIGNATURE of a single complete type, followed by a marshaled value with the type
    given in the signature", the value aligned to its own type.
"""
import struct

ALIGNMENT = {
    'y': 1, 'b': 4, 'n': 2, 'q': 2, 'i': 4, 'u': 4, 'x': 8, 't': 8, 'd': 8,
    's': 4, 'o': 4, 'g': 1, 'a': 4, '(': 8, 'v': 1, '{': 8, 'h': 4,
}
_INT = {'y': (1, False), 'n': (2, True), 'q': (2, False), 'i': (4, True), 'u': (4, False),
        'x': (8, True), 't': (8, False)}
MAX_ARRAY = 2 ** 26


class RefError(Exception):
    pass


def _code(ty):
    return ty if isinstance(ty, str) else ty[0]


def _render(ty):
    if isinstance(ty, str):
        return ty
    if ty[0] == 'a':
        return 'a' + _render(ty[1])
    if ty[0] == '(':
        return '(' + ''.join(_render(f) for f in ty[1]) + ')'
    return '{' + _render(ty[1]) + _render(ty[2]) + '}'


def alignment(code):
    return ALIGNMENT[code]


def pad_len(code, offset):
    a = ALIGNMENT[code]
    return (a - offset % a) % a


def _uint(n, size, little):
    if not (isinstance(n, int) and 0 <= n < 256 ** size):
        raise RefError('unsigned %d-byte integer out of range: %r' % (size, n))
    digits = [(n >> (8 * i)) & 0xFF for i in range(size)]
    return bytes(digits if little else digits[::-1])


def _sint(n, size, little):
    half = 256 ** size // 2
    if not (isinstance(n, int) and -half <= n < half):
        raise RefError('signed %d-byte integer out of range: %r' % (size, n))
    return _uint(n % (256 ** size), size, little)


class _Enc:
    def __init__(self, offset, little, fd_base=0, raw_fds=False):
        self.out = bytearray()
        self.base = offset
        self.little = little
        self.nfds = fd_base          # descriptors already in the out-of-band array before this block
        self.raw_fds = raw_fds       # True: the spec value of an 'h' IS the index to write

    def pos(self):
        return self.base + len(self.out)

    def align(self, code):
        self.out += b'\0' * pad_len(code, self.pos())

    def value(self, ty, sv):
        """One value, aligned."""
        c = _code(ty)
        self.align(c)
        le = self.little
        if c in _INT:
            size, signed = _INT[c]
            if isinstance(sv, bool):
                raise RefError('bool where an integer is required')
            self.out += _sint(sv, size, le) if signed else _uint(sv, size, le)
        elif c == 'b':
            if not isinstance(sv, bool):
                raise RefError('not a boolean: %r' % (sv,))
            self.out += _uint(1 if sv else 0, 4, le)
        elif c == 'd':
            bits = struct.unpack('>Q', struct.pack('>d', sv))[0]
            self.out += _uint(bits, 8, le)
        elif c == 'h':
            if self.raw_fds:
                self.out += _uint(sv, 4, le)
            else:
                self.out += _uint(self.nfds, 4, le)
                self.nfds += 1
        elif c in 'so':
            b = sv.encode('utf-8')
            if 0 in b:
                raise RefError('NUL inside a string')
            self.out += _uint(len(b), 4, le) + b + b'\0'
        elif c == 'g':
            b = sv.encode('ascii')
            if 0 in b:
                raise RefError('NUL inside a signature')
            self.out += _uint(len(b), 1, le) + b + b'\0'
        elif c == 'v':
            _, vty, vsv = sv
            sig = _render(vty).encode('ascii')
            self.out += _uint(len(sig), 1, le) + sig + b'\0'
            self.value(vty, vsv)
        elif c == 'a':
            el = ty[1]
            lenpos = len(self.out)
            self.out += b'\0\0\0\0'
            self.align(_code(el))
            start = len(self.out)
            for e in sv:
                self.value(el, e)
            n = len(self.out) - start
            if n > MAX_ARRAY:
                raise RefError('array longer than 2^26 bytes')
            self.out[lenpos:lenpos + 4] = _uint(n, 4, le)
        elif c == '(':
            if len(ty[1]) != len(sv) or not ty[1]:
                raise RefError('struct arity')
            for f, e in zip(ty[1], sv):
                self.value(f, e)
        elif c == '{':
            self.value(ty[1], sv[0])
            self.value(ty[2], sv[1])
        else:
            raise RefError('unknown type code %r' % (c,))


def encode(tys, svs, offset=0, little=True, fd_base=0, raw_fds=False):
    """The bytes of the values `svs` of types `tys` when the first byte is written at `offset`
    (leading alignment padding of the first value included, as in a message body).  Descriptors are
    numbered in order of appearance starting at `fd_base`; with `raw_fds` the spec value of an `h` is the
    index itself (the specification only says "index into the out-of-band array")."""
    if len(tys) != len(svs):
        raise RefError('arity')
    enc = _Enc(offset, little, fd_base, raw_fds)
    for ty, sv in zip(tys, svs):
        enc.value(ty, sv)
    return bytes(enc.out)


class _Dec:
    def __init__(self, data, offset, little):
        self.data = bytes(data)
        self.pos = offset
        self.little = little

    def take(self, n):
        if self.pos + n > len(self.data):
            raise RefError('truncated')
        b = self.data[self.pos:self.pos + n]
        self.pos += n
        return b

    def align(self, code):
        p = self.take(pad_len(code, self.pos))
        if any(p):
            raise RefError('non-zero padding')

    def uint(self, size):
        b = self.take(size)
        if not self.little:
            b = b[::-1]
        return sum(x << (8 * i) for i, x in enumerate(b))

    def value(self, ty):
        c = _code(ty)
        self.align(c)
        if c in _INT:
            size, signed = _INT[c]
            n = self.uint(size)
            if signed and n >= 256 ** size // 2:
                n -= 256 ** size
            return n
        if c == 'b':
            n = self.uint(4)
            if n not in (0, 1):
                raise RefError('boolean other than 0/1')
            return n == 1
        if c == 'd':
            return struct.unpack('>d', struct.pack('>Q', self.uint(8)))[0]
        if c == 'h':
            return self.uint(4)
        if c in 'so':
            n = self.uint(4)
            b = self.take(n)
            if self.take(1) != b'\0' or 0 in b:
                raise RefError('string termination')
            try:
                return b.decode('utf-8')
            except UnicodeDecodeError:
                raise RefError('invalid UTF-8')
        if c == 'g':
            n = self.uint(1)
            b = self.take(n)
            if self.take(1) != b'\0' or 0 in b:
                raise RefError('signature termination')
            try:
                return b.decode('ascii')
            except UnicodeDecodeError:
                raise RefError('non-ASCII signature')
        if c == 'v':
            n = self.uint(1)
            sig = self.take(n)
            if self.take(1) != b'\0':
                raise RefError('signature termination')
            from harness.gen_values import parse_sig
            try:
                tys = parse_sig(sig.decode('ascii'))
            except (ValueError, UnicodeDecodeError):
                raise RefError('bad variant signature')
            if len(tys) != 1:
                raise RefError('variant signature is not a single complete type')
            return ('V', tys[0], self.value(tys[0]))
        if c == 'a':
            n = self.uint(4)
            if n > MAX_ARRAY:
                raise RefError('array too long')
            el = ty[1]
            self.align(_code(el))
            end = self.pos + n
            out = []
            while self.pos < end:
                before = self.pos
                out.append(self.value(el))
                if self.pos == before:
                    raise RefError('empty element')
            if self.pos != end:
                raise RefError('array length does not match its elements')
            return out
        if c == '(':
            return [self.value(f) for f in ty[1]]
        if c == '{':
            k = self.value(ty[1])
            return (k, self.value(ty[2]))
        raise RefError('unknown type code %r' % (c,))


def decode(tys, data, offset=0, little=True):
    dec = _Dec(data, offset, little)
    out = [dec.value(ty) for ty in tys]
    return out, dec.pos - offset
