"""C09 - locating what the harness looks at inside txdbus through PUBLIC behaviour.

The correspondence compares a few tables of the library after each scenario (the connection-level disconnect
callbacks, each proxy's disconnect callbacks, the registry of live proxies).  Their attribute names
(`_dcCallbacks`, `_disconnectCBs`, `objHandler._weakProxies`) are private and not pinned by the test suite: a
maintainer may rename or restructure them in a harmless commit.  Nothing here relies on such a name except as a fast
path; the fallback is found once per run by behaviour:

  * connection callbacks   `conn.notifyOnDisconnect(marker)` on a ready connection, then the attribute of the
                           connection that is a sequence containing `marker`
  * proxy callbacks        `proxy.notifyOnDisconnect(marker)` on a proxy from `getRemoteObject(.., <DBusInterface>)`, then
                           the attribute of the proxy that is a sequence containing `marker`
  * registry               the object reachable from the connection that holds the proxy in a container (by value, by
                           element or by weak reference)

Pinned names used elsewhere in the harness (the unedited test suite uses them): `_pendingCalls`, `_authenticated`,
`busName`, `dbus_args`; everything else is public API (`connect`, `DBusClientFactory`, `callRemote`, `getRemoteObject`,
`notifyOnDisconnect`, `cancelNotifyOnDisconnect`, `disconnect`, message / interface / error classes).

A failure to locate something is the harness's own problem (`Reach`): the table is then left out of the comparison
with a note - it is never a finding about the library.
"""
import weakref


class Reach(Exception):
    """The harness could not reach an internal of the library - never a verdict on the library."""


def _seq_containing(obj, marker, fast):
    """Name of the attribute of `obj` that is a list/tuple/deque containing `marker` (identity)."""
    names = [fast] + [n for n in getattr(obj, '__dict__', {}) if n != fast]
    for n in names:
        try:
            v = getattr(obj, n)
        except Exception:       # noqa: BLE001
            continue
        if isinstance(v, (list, tuple)) or type(v).__name__ == 'deque':
            if any(x is marker for x in v):
                return n
    return None


def _members(container):
    """The live objects a container holds: values of a mapping, elements of a collection, weak references resolved."""
    try:
        items = list(container.values()) if hasattr(container, 'values') else list(container)
    except Exception:       # noqa: BLE001
        return None
    out = []
    for x in items:
        if isinstance(x, weakref.ReferenceType):
            x = x()
        if x is not None:
            out.append(x)
    return out


class Locator:
    def __init__(self, M):
        self.conn_cbs_attr = None
        self.proxy_cbs_attr = None
        self.registry_path = None         # (attribute of the connection or None for the connection itself, attribute)
        self.notes = []
        try:
            self._locate(M)
        except Exception as e:      # noqa: BLE001
            self.notes.append('locator could not run: %r' % (e,))

    def _locate(self, M):
        GUID = b'0123456789abcdef0123456789abcdef'
        factory = M.client.DBusClientFactory()
        factory.getConnection().addErrback(lambda f: None)
        conn = factory.buildProtocol(None)
        tr = M.StringTransport()
        conn.makeConnection(tr)
        conn.dataReceived(b'OK ' + GUID + b'\r\n')
        pc = getattr(conn, '_pendingCalls', None)
        if not pc:
            raise Reach('no Hello call after the OK line')
        serial = list(pc)[0]
        conn.dataReceived(M.message.MethodReturnMessage(serial, body=[':1.99'], signature='s').rawMessage)
        marker = lambda *a: None
        conn.notifyOnDisconnect(marker)
        self.conn_cbs_attr = _seq_containing(conn, marker, '_dcCallbacks')
        if self.conn_cbs_attr is None:
            self.notes.append('the list of connection-level disconnect callbacks was not found on the connection')
        conn.cancelNotifyOnDisconnect(marker)
        got = []
        saved = None
        ki = getattr(M.interface.DBusInterface, 'knownInterfaces', None)
        if isinstance(ki, dict):
            saved = dict(ki)
        try:
            iface = M.interface.DBusInterface('org.example.verif.Locate', M.interface.Method('m'))
            conn.getRemoteObject('org.example.Locate', '/org/example/locate', iface).addCallbacks(got.append, lambda f: None)
        finally:
            if saved is not None:
                ki.clear()
                ki.update(saved)
        if not got:
            self.notes.append('getRemoteObject with an explicit interface did not give a proxy synchronously')
            return
        proxy = got[0]
        pmarker = lambda *a: None
        proxy.notifyOnDisconnect(pmarker)
        self.proxy_cbs_attr = _seq_containing(proxy, pmarker, '_disconnectCBs')
        if self.proxy_cbs_attr is None:
            self.notes.append('the list of disconnect callbacks was not found on the proxy')
        # the registry: fast path conn.objHandler._weakProxies, else search one level below the connection
        holders = [('objHandler', getattr(conn, 'objHandler', None))] + \
                  [(n, v) for n, v in vars(conn).items() if n != 'objHandler'] + [(None, conn)]
        for hname, holder in holders:
            if holder is None or isinstance(holder, (int, str, bytes, float, bool, list, dict, tuple)):
                continue
            attrs = getattr(holder, '__dict__', None)
            if not isinstance(attrs, dict):
                continue
            names = ['_weakProxies'] + [n for n in attrs if n != '_weakProxies']
            for n in names:
                if n not in attrs:
                    continue
                members = _members(attrs[n]) if not isinstance(attrs[n], (str, bytes)) else None
                if members and any(x is proxy for x in members):
                    self.registry_path = (hname, n)
                    break
            if self.registry_path:
                break
        if self.registry_path is None:
            self.notes.append('the registry of live proxies was not found below the connection')

    # ---- accessors used by the harness (None = not reachable: the table is left out of the comparison)
    def conn_callbacks(self, conn):
        if conn is None or self.conn_cbs_attr is None:
            return None
        v = getattr(conn, self.conn_cbs_attr, None)
        return list(v) if v is not None else []

    def proxy_callbacks(self, proxy):
        if proxy is None or self.proxy_cbs_attr is None:
            return None
        v = getattr(proxy, self.proxy_cbs_attr, None)
        return list(v) if v is not None else []

    def registry(self, conn):
        if conn is None or self.registry_path is None:
            return None
        hname, n = self.registry_path
        holder = conn if hname is None else getattr(conn, hname, None)
        if holder is None:
            return []           # tables not made yet (before authentication)
        c = getattr(holder, n, None)
        if c is None:
            return None
        return _members(c)


def wrapped_protocol(wp, cls):
    """The txdbus protocol inside Twisted's endpoint wrapper."""
    p = getattr(wp, '_wrappedProtocol', None)
    if isinstance(p, cls):
        return p
    if isinstance(wp, cls):
        return wp
    for v in vars(wp).values():
        if isinstance(v, cls):
            return v
    raise Reach('the DBusClientConnection inside the endpoint wrapper was not found')
