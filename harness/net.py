"""In-memory DBus network for the harnesses that need several peers (C11; reusable by C13/C14).

The real `txdbus.bus.Bus` and N real `txdbus.client.DBusClientConnection`s, joined by byte pipes held
in memory.  Nothing moves unless the harness says so: `deliver(i, 'c2b'|'b2c', n)` hands the next `n`
buffered bytes of one direction of link `i` to the receiving protocol's `dataReceived`.  There is no
reactor, no socket, no thread, no clock.

Harness configuration (none of it is the subject of C11/C13/C14):
  * authentication is ANONYMOUS only (a ClientAuthenticator subclass with preference=[b'ANONYMOUS'])
    and `txdbus.protocol._is_linux` is False (no SO_PEERCRED on a fake transport);
  * every peer is its own *process* as far as `DBusMessage._nextSerial` is concerned: that counter is a
    class attribute (one per Python process); `Net` keeps one counter per peer and swaps it in around
    every entry into that peer's code (`as_peer`), so that serial numbers of different clients collide
    exactly as they do between real processes (all clients start at 1).
  * an exception escaping `dataReceived` is what Twisted turns into "connection lost": it is recorded in
    `net.crashes` and the receiving protocol's `connectionLost` is called; the link is dead afterwards.

Observation: every message a peer completes (`rawDBusMessageReceived`) and every message a peer sends
(`sendMessage`) is appended to `net.log` as ('recv'|'send', peer, summary) where peer is 'bus:<i>' or
'cli:<i>' and summary is `msg_summary(msg)`.
"""
import contextlib

BUS = 'bus'


def _mods():
    import txdbus.protocol
    from txdbus import authentication, bus, client, message
    txdbus.protocol._is_linux = False
    return authentication, bus, client, message


class Pipe:
    """One direction of a link: bytes written and not yet delivered."""

    def __init__(self):
        self.buf = bytearray()
        self.closed = False
        self.total = 0


class FakeTransport:
    disconnecting = False

    def __init__(self, out_pipe):
        self.out = out_pipe

    def write(self, data):
        if not self.disconnecting:
            self.out.buf += data
            self.out.total += len(data)

    def writeSequence(self, seq):
        for s in seq:
            self.write(s)

    def loseConnection(self):
        self.disconnecting = True
        self.out.closed = True

    def getPeer(self):
        return None

    def getHost(self):
        return None


def msg_summary(m):
    """Canonical, comparison-friendly description of a parsed or constructed DBusMessage."""
    mt = m._messageType
    d = {'t': {1: 'call', 2: 'ret', 3: 'err', 4: 'sig'}.get(mt, '?'), 'serial': int(m.serial),
         'sender': getattr(m, 'sender', None), 'dest': getattr(m, 'destination', None),
         'sig': getattr(m, 'signature', None) or '', 'body': getattr(m, 'body', None)}
    if mt in (1, 4):
        d.update(path=str(m.path), iface=getattr(m, 'interface', None), member=m.member)
    if mt in (2, 3):
        d['rs'] = int(m.reply_serial)
    if mt == 3:
        d['name'] = m.error_name
    if mt == 1:
        d['noreply'] = not m.expectReply
    return d


class Link:
    def __init__(self, idx, cp, bp, c2b, b2c, factory):
        self.idx, self.cp, self.bp, self.c2b, self.b2c, self.factory = idx, cp, bp, c2b, b2c, factory
        self.dead = False


class Net:
    def __init__(self, per_process_serials=True):
        authentication, bus, client, message = _mods()
        self._message = message
        self.per_process_serials = per_process_serials
        self.serials = {BUS: 1}
        self._cur = None

        class AnonOnly(authentication.ClientAuthenticator):
            preference = [b'ANONYMOUS']
        self._auth = AnonOnly
        with self.as_peer(BUS):
            self.bus = bus.Bus()

        class F:
            pass
        self.bfactory = F()
        self.bfactory.bus = self.bus
        self.links = []
        self.log = []
        self.crashes = []
        self.conns = {}        # idx -> connected DBusClientConnection (after Hello)
        self.conn_errs = {}

    # ------------------------------------------------------------------ per-process serial counters
    @contextlib.contextmanager
    def as_peer(self, who):
        """Run a block as peer `who` (BUS or a client index): its own DBusMessage._nextSerial."""
        if not self.per_process_serials:
            yield
            return
        M = self._message.DBusMessage
        prev, saved = self._cur, M._nextSerial
        if prev is not None:
            self.serials[prev] = saved
        self._cur = who
        M._nextSerial = self.serials.setdefault(who, 1)
        try:
            yield
        finally:
            self.serials[who] = M._nextSerial
            self._cur = prev
            M._nextSerial = self.serials[prev] if prev is not None else saved

    def next_serial(self, who):
        return self.serials.get(who, 1)

    # ------------------------------------------------------------------ construction
    def add_client(self):
        authentication, bus, client, message = _mods()
        idx = len(self.links)
        c2b, b2c = Pipe(), Pipe()
        f = client.DBusClientFactory()
        cp = client.DBusClientConnection()
        cp.factory = f
        cp.authenticator = self._auth
        bp = bus.BusProtocol()
        bp.factory = self.bfactory
        ln = Link(idx, cp, bp, c2b, b2c, f)
        self.links.append(ln)
        self._instrument(cp, 'cli:%d' % idx)
        self._instrument(bp, 'bus:%d' % idx)
        with self.as_peer(BUS):
            bp.makeConnection(FakeTransport(b2c))
        with self.as_peer(idx):
            cp.makeConnection(FakeTransport(c2b))
        f.getConnection().addCallbacks(lambda c, i=idx: self.conns.__setitem__(i, c),
                                       lambda e, i=idx: self.conn_errs.__setitem__(i, e))
        return idx

    def _instrument(self, proto, who):
        raw = proto.rawDBusMessageReceived
        snd = proto.sendMessage
        message = self._message

        def rawDBusMessageReceived(raw_msg):
            try:
                m = message.parseMessage(raw_msg, [])
                self.log.append(('recv', who, msg_summary(m)))
            except Exception as e:      # the protocol's own parse will raise as well
                self.log.append(('recv', who, {'t': 'unparsable', 'exc': type(e).__name__}))
            return raw(raw_msg)

        def sendMessage(msg):
            self.log.append(('send', who, msg_summary(msg)))
            return snd(msg)

        proto.rawDBusMessageReceived = rawDBusMessageReceived
        proto.sendMessage = sendMessage

    # ------------------------------------------------------------------ delivery
    def pending(self, i, direction):
        ln = self.links[i]
        return len(ln.c2b.buf if direction == 'c2b' else ln.b2c.buf)

    def deliver(self, i, direction, n=None):
        """Deliver the next n (default: all) buffered bytes of one direction of link i.
        Returns the number of bytes delivered (0 when nothing is buffered or the link is dead)."""
        ln = self.links[i]
        if ln.dead:
            return 0
        pipe, dest, who = (ln.c2b, ln.bp, BUS) if direction == 'c2b' else (ln.b2c, ln.cp, i)
        if not pipe.buf:
            return 0
        n = len(pipe.buf) if n is None else max(1, min(n, len(pipe.buf)))
        data = bytes(pipe.buf[:n])
        del pipe.buf[:n]
        with self.as_peer(who):
            try:
                dest.dataReceived(data)
            except Exception as e:   # Twisted: log, then connectionLost
                self.crashes.append((('bus:%d' if who == BUS else 'cli:%d') % i, type(e).__name__, str(e)[:200]))
                self.log.append(('crash', ('bus:%d' if who == BUS else 'cli:%d') % i, type(e).__name__))
                ln.dead = True
                self._lose(ln, e)
        return n

    def _lose(self, ln, exc):
        from twisted.python import failure
        from twisted.internet import error as terror
        reason = failure.Failure(terror.ConnectionLost(str(exc)))
        for who, p in ((BUS, ln.bp), (ln.idx, ln.cp)):
            with self.as_peer(who):
                try:
                    p.connectionLost(reason)
                except Exception as e2:
                    self.crashes.append(('connectionLost', type(e2).__name__, str(e2)[:200]))

    def quiet(self):
        return all(ln.dead or (not ln.c2b.buf and not ln.b2c.buf) for ln in self.links)

    def pump(self, limit=100000):
        """Deliver everything, whole buffers, round robin, until no bytes are buffered."""
        k = 0
        progress = True
        while progress:
            progress = False
            for i in range(len(self.links)):
                for d in ('c2b', 'b2c'):
                    if self.deliver(i, d):
                        progress = True
                        k += 1
                        if k > limit:
                            raise RuntimeError('pump: no quiescence after %d deliveries' % limit)
        return k

    def connect_all(self, n):
        """Add n clients and pump until each is connected (Hello answered).  Returns the connections."""
        idxs = [self.add_client() for _ in range(n)]
        self.pump()
        missing = [i for i in idxs if i not in self.conns]
        if missing:
            raise RuntimeError('clients %r did not connect: %r crashes=%r' % (missing, self.conn_errs, self.crashes))
        return [self.conns[i] for i in idxs]
