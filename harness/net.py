"""In-memory DBus network for the harnesses that need several peers (C11; reusable by C13/C14).

The real `txdbus.bus.Bus` and N real `txdbus.client.DBusClientConnection`s, joined by byte pipes held
in memory.  Nothing moves unless the harness says so: `deliver(i, 'c2b'|'b2c', n)` hands the next `n`
buffered bytes of one direction of link `i` to the receiving protocol's `dataReceived`.  There is no
reactor, no socket, no thread, no clock.

Harness configuration (none of it is the subject of C11/C13/C14):
  * authentication is ANONYMOUS only (a ClientAuthenticator subclass with preference=[b'ANONYMOUS'])
    and the bus side finds no peer credentials to trip over (`no_peer_credentials`: the private switch
    `txdbus.protocol._is_linux` when it exists, and a `socket` on the fake transports that answers getsockopt);
  * every peer is its own *process* as far as `DBusMessage._nextSerial` is concerned: that counter is a
    class attribute (one per Python process); `Net` keeps one counter per peer and swaps it in around
    every entry into that peer's code (`as_peer`), so that serial numbers of different clients collide
    exactly as they do between real processes (all clients start at 1).
  * likewise `DBusInterface.knownInterfaces` (a process-wide cache keyed by interface name): one dict per
    peer, each starting from the IMPORT-TIME content (Properties, org.freedesktop.DBus), swapped in by `as_peer`, so that one client's proxy is never built from what another client
    introspected;
  * `txdbus.client.reactor` is a `task.Clock` that never advances (calls with `timeout=` get their delayed
    call; it never fires);
  * a client may be BIG-ENDIAN (`add_client(big_endian=True)`): txdbus itself always writes little-endian
    messages, so every message such a client writes is transcoded on its way into the pipe (body re-encoded
    big-endian, header re-marshalled with endian 'B'); when the re-encoded body would not decode to the same
    values (variant type inference) the message is left as it is.  The bus and the receivers then see what a
    big-endian libdbus peer would send;
  * an exception escaping `dataReceived` is what Twisted turns into "connection lost": it is recorded in
    `net.crashes` and the receiving protocol's `connectionLost` is called; the link is dead afterwards.

Observation: every message a peer completes (`rawDBusMessageReceived`, the documented override point) is
appended to `net.log` as ('recv', peer, summary); every message a peer WRITES is observed on the byte pipe
(framed and parsed by the harness, independent of which method wrote it) as ('send', peer, summary); peer is
'bus:<i>' or 'cli:<i>' and summary is `msg_summary(msg)`.
"""
import contextlib
import struct

BUS = 'bus'
_IMPORT_TIME_KNOWN = None


def no_peer_credentials():
    """The bus side reads SO_PEERCRED from `transport.socket` on Linux.  Fast path: the module switch
    `txdbus.protocol._is_linux` (a private name: when it is gone nothing is set); in either case the fake transports
    carry a `socket` whose getsockopt answers like a UNIX socket would (`FakeSocket`), so the handshake works whatever
    the switch is called."""
    import txdbus.protocol
    if isinstance(getattr(txdbus.protocol, '_is_linux', None), bool):
        txdbus.protocol._is_linux = False


class FakeSocket:
    """Enough of a connected UNIX socket for the credential read of the bus side (pid, uid, gid of this process)."""

    def getsockopt(self, level, option, buflen=0):
        import os
        return struct.pack('3i', os.getpid(), os.geteuid(), os.getegid())

    def fileno(self):
        return -1


def _mods():
    from txdbus import authentication, bus, client, message
    no_peer_credentials()
    return authentication, bus, client, message


class Pipe:
    """One direction of a link: bytes written and not yet delivered."""

    def __init__(self):
        self.buf = bytearray()
        self.closed = False
        self.total = 0


def first_msg_len(buf):
    """Length of the first complete-or-not message announced by the fixed header at the start of buf."""
    if len(buf) < 16:
        return None
    e = '<' if buf[0:1] == b'l' else '>'
    body = struct.unpack(e + 'I', bytes(buf[4:8]))[0]
    harr = struct.unpack(e + 'I', bytes(buf[12:16]))[0]
    hlen = 16 + harr
    return hlen + ((-hlen) % 8) + body


class FakeTransport:
    disconnecting = False
    socket = FakeSocket()

    def __init__(self, out_pipe, net=None, who=None, proto=None, big_endian=False):
        self.out = out_pipe
        self.net, self.who, self.proto, self.big_endian = net, who, proto, big_endian
        self._frame = bytearray()

    def write(self, data):
        if self.disconnecting:
            return
        if self.net is None or not getattr(self.proto, '_authenticated', False):
            if self.net is not None:
                # the authentication lines this side wrote (for the byte-level model's `BNet.initH`)
                self.net.handshake.setdefault(self.who, bytearray()).extend(data)
            self.out.buf += data
            self.out.total += len(data)
            return
        # binary mode: observe (and for a big-endian peer transcode) whole messages
        self._frame += data
        while True:
            n = first_msg_len(self._frame)
            if n is None or len(self._frame) < n:
                break
            raw = bytes(self._frame[:n])
            del self._frame[:n]
            if self.big_endian:
                raw = self.net.transcode_big(raw)
            self.net.observe_sent(self.who, raw)
            self.out.buf += raw
            self.out.total += len(raw)

    def writeSequence(self, seq):
        for s in seq:
            self.write(s)

    def loseConnection(self):
        self.disconnecting = True
        self.out.closed = True

    def getPeer(self):
        return None

    def getHost(self):
        return None


def msg_summary(m):
    """Canonical, comparison-friendly description of a parsed or constructed DBusMessage."""
    mt = m._messageType
    d = {'t': {1: 'call', 2: 'ret', 3: 'err', 4: 'sig'}.get(mt, '?'), 'serial': int(m.serial),
         'sender': getattr(m, 'sender', None), 'dest': getattr(m, 'destination', None),
         'sig': getattr(m, 'signature', None) or '', 'body': getattr(m, 'body', None)}
    if mt in (1, 4):
        d.update(path=str(m.path), iface=getattr(m, 'interface', None), member=m.member)
    if mt in (2, 3):
        d['rs'] = int(m.reply_serial)
    if mt == 3:
        d['name'] = m.error_name
    if mt == 1:
        d['noreply'] = not m.expectReply
    return d


def _shape(v):
    """class-exact, order-preserving picture of a decoded value"""
    if isinstance(v, dict):
        return ('d', [(_shape(k), _shape(x)) for k, x in v.items()])
    if isinstance(v, (list, tuple)):
        return ('l', [_shape(x) for x in v])
    if isinstance(v, float):
        return ('f', struct.pack('>d', v))
    return (type(v).__name__, v)


def msg_summary_key(m):
    d = msg_summary(m)
    d['body'] = repr(_shape(d['body'])) if d['body'] is not None else None
    return repr(sorted(d.items()))


class Link:
    def __init__(self, idx, cp, bp, c2b, b2c, factory):
        self.idx, self.cp, self.bp, self.c2b, self.b2c, self.factory = idx, cp, bp, c2b, b2c, factory
        self.dead = False


class Net:
    def __init__(self, per_process_serials=True, shared_tables=False):
        # shared_tables: all CLIENTS are connections of one process - one serial counter and one knownInterfaces for
        # them (the bus stays a process of its own)
        self.shared_tables = shared_tables
        authentication, bus, client, message = _mods()
        self._message = message
        self.notes = []            # what the harness could not reach in this tree (advisory, never a finding)
        # the process-wide serial counter (DBusMessage._nextSerial unless renamed) is located by behaviour
        from harness import c03_probe
        self._ctr = c03_probe.serial_counter(message)
        self._fwd = c03_probe.forward_call(message)
        if per_process_serials and self._ctr is None:
            per_process_serials = False
            self.notes.append('the serial counter of DBusMessage could not be located: all peers share one counter')
        self.per_process_serials = per_process_serials
        self.serials = {BUS: 1}
        self._cur = None
        self._peer = None
        from txdbus import interface as _interface, client as _client
        from twisted.internet import task
        self._iface_cls = _interface.DBusInterface
        # what a fresh process starts with: the interfaces txdbus registers AT IMPORT (objects.DBusObject's
        # org.freedesktop.DBus.Properties, bus.Bus's org.freedesktop.DBus) - captured once, before any scenario ran
        global _IMPORT_TIME_KNOWN
        if _IMPORT_TIME_KNOWN is None:
            _IMPORT_TIME_KNOWN = {k: v for k, v in self._iface_cls.knownInterfaces.items()
                                  if k.startswith('org.freedesktop.DBus')}
        self._known_base = dict(_IMPORT_TIME_KNOWN)
        self._known_outside = self._iface_cls.knownInterfaces
        self.known = {}
        self.clock = task.Clock()
        _client.reactor = self.clock

        class AnonOnly(authentication.ClientAuthenticator):
            preference = [b'ANONYMOUS']
        self._auth = AnonOnly
        with self.as_peer(BUS):
            self.bus = bus.Bus()

        class F:
            pass
        self.bfactory = F()
        self.bfactory.bus = self.bus
        self.links = []
        self.log = []
        self.sent_raw = []
        self.handshake = {}
        self.crashes = []
        self.conns = {}        # idx -> connected DBusClientConnection (after Hello)
        self.conn_errs = {}

    # ------------------------------------------------------------------ per-process serial counters
    @contextlib.contextmanager
    def as_peer(self, who):
        """Run a block as peer `who` (BUS or a client index): its own DBusMessage._nextSerial and its own
        DBusInterface.knownInterfaces."""
        if not self.per_process_serials:
            yield
            return
        owner, attr = self._ctr
        prev_peer, self._peer = self._peer, who      # which peer's code is running (also when tables are shared)
        who = self._key(who)
        I = self._iface_cls
        prev, saved = self._cur, getattr(owner, attr)
        if prev is not None:
            self.serials[prev] = saved
        self._cur = who
        setattr(owner, attr, self.serials.setdefault(who, 1))
        I.knownInterfaces = self.known.setdefault(who, dict(self._known_base))
        try:
            yield
        finally:
            self._peer = prev_peer
            self.serials[who] = getattr(owner, attr)
            self._cur = prev
            setattr(owner, attr, self.serials[prev] if prev is not None else saved)
            I.knownInterfaces = self.known[prev] if prev is not None else self._known_outside

    def _key(self, who):
        return 'clients' if (self.shared_tables and who != BUS) else who

    def known_of(self, who):
        return self.known.setdefault(self._key(who), dict(self._known_base))

    def next_serial(self, who):
        return self.serials.get(self._key(who), 1)

    # ------------------------------------------------------------------ construction
    def add_client(self, big_endian=False):
        authentication, bus, client, message = _mods()
        idx = len(self.links)
        c2b, b2c = Pipe(), Pipe()
        f = client.DBusClientFactory()
        cp = client.DBusClientConnection()
        cp.factory = f
        cp.authenticator = self._auth
        bp = bus.BusProtocol()
        bp.factory = self.bfactory
        ln = Link(idx, cp, bp, c2b, b2c, f)
        ln.big_endian = big_endian
        self.links.append(ln)
        self._instrument(cp, 'cli:%d' % idx)
        self._instrument(bp, 'bus:%d' % idx)
        with self.as_peer(BUS):
            bp.makeConnection(FakeTransport(b2c, self, 'bus:%d' % idx, bp))
        with self.as_peer(idx):
            cp.makeConnection(FakeTransport(c2b, self, 'cli:%d' % idx, cp, big_endian=big_endian))
        f.getConnection().addCallbacks(lambda c, i=idx: self.conns.__setitem__(i, c),
                                       lambda e, i=idx: self.conn_errs.__setitem__(i, e))
        return idx

    def observe_sent(self, who, raw):
        try:
            m = self._message.parseMessage(raw, [])
            self.log.append(('send', who, msg_summary(m)))
        except Exception as e:
            self.log.append(('send', who, {'t': 'unparsable', 'exc': type(e).__name__}))
        # the same observation with the bytes themselves (for byte-level correspondence: harness/c11.py `bytes-net`)
        self.sent_raw.append((who, self.log[-1][2], raw))

    def transcode_big(self, raw):
        """The same message as a big-endian peer would write it (or `raw` itself when that is not possible
        without changing the decoded values)."""
        from txdbus import marshal
        message = self._message
        try:
            m = message.parseMessage(raw, [])
            body = b''
            if m.signature:
                body = b''.join(marshal.marshal(m.signature, m.body, 0, False)[1])
                back = marshal.unmarshal(m.signature, body, 0, False)[1]
                if repr(_shape(back)) != repr(_shape(m.body)):
                    return raw
            if self._fwd is None:
                if not getattr(self, '_noted_fwd', False):
                    self._noted_fwd = True
                    self.notes.append('the re-marshal entry point of DBusMessage could not be located: big-endian peers '
                                      'write little-endian messages in this run')
                return raw
            m.endian = ord('B')
            keep = getattr(*self._ctr) if self._ctr else None
            getattr(m, self._fwd[0])(**{self._fwd[1]: False, self._fwd[2]: body})
            if self._ctr:
                setattr(self._ctr[0], self._ctr[1], keep)
            again = message.parseMessage(m.rawMessage, [])
            if msg_summary_key(again) != msg_summary_key(message.parseMessage(raw, [])):
                return raw
            self.big_written = getattr(self, 'big_written', 0) + 1
            return m.rawMessage
        except Exception:
            return raw

    def _instrument(self, proto, who):
        raw = proto.rawDBusMessageReceived
        message = self._message

        def rawDBusMessageReceived(raw_msg):
            try:
                m = message.parseMessage(raw_msg, [])
                self.log.append(('recv', who, msg_summary(m)))
            except Exception as e:      # the protocol's own parse will raise as well
                self.log.append(('recv', who, {'t': 'unparsable', 'exc': type(e).__name__}))
            return raw(raw_msg)

        proto.rawDBusMessageReceived = rawDBusMessageReceived

    # ------------------------------------------------------------------ delivery
    def pending(self, i, direction):
        ln = self.links[i]
        return len(ln.c2b.buf if direction == 'c2b' else ln.b2c.buf)

    def deliver(self, i, direction, n=None):
        """Deliver the next n (default: all) buffered bytes of one direction of link i.
        Returns the number of bytes delivered (0 when nothing is buffered or the link is dead)."""
        ln = self.links[i]
        if ln.dead:
            return 0
        pipe, dest, who = (ln.c2b, ln.bp, BUS) if direction == 'c2b' else (ln.b2c, ln.cp, i)
        if not pipe.buf:
            return 0
        n = len(pipe.buf) if n is None else max(1, min(n, len(pipe.buf)))
        data = bytes(pipe.buf[:n])
        del pipe.buf[:n]
        with self.as_peer(who):
            try:
                dest.dataReceived(data)
            except Exception as e:   # Twisted: log, then connectionLost
                self.crashes.append((('bus:%d' if who == BUS else 'cli:%d') % i, type(e).__name__, str(e)[:200]))
                self.log.append(('crash', ('bus:%d' if who == BUS else 'cli:%d') % i, type(e).__name__))
                ln.dead = True
                self._lose(ln, e)
        return n

    def _lose(self, ln, exc):
        from twisted.python import failure
        from twisted.internet import error as terror
        reason = failure.Failure(terror.ConnectionLost(str(exc)))
        for who, p in ((BUS, ln.bp), (ln.idx, ln.cp)):
            with self.as_peer(who):
                try:
                    p.connectionLost(reason)
                except Exception as e2:
                    self.crashes.append(('connectionLost', type(e2).__name__, str(e2)[:200]))

    def quiet(self):
        return all(ln.dead or (not ln.c2b.buf and not ln.b2c.buf) for ln in self.links)

    def pump(self, limit=100000):
        """Deliver everything, whole buffers, round robin, until no bytes are buffered."""
        k = 0
        progress = True
        while progress:
            progress = False
            for i in range(len(self.links)):
                for d in ('c2b', 'b2c'):
                    if self.deliver(i, d):
                        progress = True
                        k += 1
                        if k > limit:
                            raise RuntimeError('pump: no quiescence after %d deliveries' % limit)
        return k

    def connect_all(self, n, big_endian=()):
        """Add n clients and pump until each is connected (Hello answered).  Returns the connections."""
        idxs = [self.add_client(big_endian=(k in big_endian)) for k in range(n)]
        self.pump()
        missing = [i for i in idxs if i not in self.conns]
        if missing:
            raise RuntimeError('clients %r did not connect: %r crashes=%r' % (missing, self.conn_errs, self.crashes))
        return [self.conns[i] for i in idxs]
