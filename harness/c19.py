"""C19 - Signatures split into complete types; inferred variant types always encode.
Correspondence + oracle harness.

Model side: lean/Driver/C19.lean (ops split / first / nargs / infer) over Sig/Split.lean and Wire/Infer.lean.
Implementation side: txdbus.marshal.genCompleteTypes, sigFromPy, marshal/unmarshal of a variant,
txdbus.interface.DBusInterface.addMethod/addSignal (argument counting).

Oracles (implementation alone, written from the property statement and the DBus grammar, not from the model):
  * splitting a VALID signature: the pieces concatenate to the input and each piece is exactly one complete
    type according to `parse_one` (an independent recursive-descent parser of the DBus grammar);
  * argument counting: nargs / nret / signal nargs = number of complete types of that parse;
  * inference on values built from bool, int, float, str, bytearray, wrappers, list, tuple, dict: the result is
    one complete type; a wrapper instance selects exactly its DBus type (table WRAPPER_SIG from the class docs);
  * variant round trip for values INSIDE the claim (`expect`): marshal('v', [v], offset, endianness) then
    unmarshal at the same offset gives a value equal (Python ==) to v after the documented normalisation
    (tuple -> list, bytearray -> list of ints), in both byte orders and at start offsets 0..7.
    `expect` raises Outside for everything the statement leaves out: containers whose elements have the same
    Python class but where a later element does not conform to the first element's DBus type, values without
    a DBus type (scalars beyond 64 bits, empty tuples, container dict keys), dict keys of more than one DBus
    type (DBus has no variant keys), NaN (NaN != NaN), strings DBus cannot carry (NUL, invalid object path /
    signature).  Elements of DIFFERENT Python classes (subclasses included) are inside: they must travel as
    variants (ruling on review item 2, fixes/C19-02).
  * exceptions on malformed signatures and on values without a DBus type are compared only as "raises":
    which exception class (and how many pieces a lazy consumer saw first) is not part of the property.

Histories (streams split-history, infer-history; they run FIRST): the same oracles applied to LATER uses inside one
process.  split-history: a signature `X a S` is split before its suffix S was ever split on its own, then S, (S),
a(S) and `X a S` again; one `next()` (or k pieces) taken and the generator abandoned, then the full split;
argument counting over the same signatures.  infer-history: values that are == and hash alike but differ in class
(1 / True / 1.0 / Byte(1) / UInt32(1), '/a' / ObjectPath('/a'), ...) inferred and sent one after the other in every
rotation, each rotation inside fresh containers; live lists / dicts that are mutated in place between two uses; a
value that fails (no DBus type, scalar out of range) followed by a repaired one.  The wrapper clause is judged class-
exactly on the WIRE: the marshalled variant is decoded by the independent reference decoder (harness/c02_ref.py),
which exposes the type every value travelled under, and every wrapper instance inside the value must have travelled
under exactly its own type code (Python == cannot tell Byte(1) sent as 'i').  The models are pure functions, so
each step is compared with the driver's answer for that step alone.  A violation at step k is stored with steps 0..k.
"""
import itertools
import json
import os
import re
import subprocess
import sys
import time

from harness import valcodec as vc

STREAMS = ['split-enumerated', 'split-random', 'split-malformed', 'argcount', 'infer', 'variant-wire',
           'split-history', 'infer-history']
THEOREMS = ['split_render', 'split_render_lazy', 'split_first', 'split_concat', 'split_each_complete',
            'split_count', 'render_injective', 'decomposition_unique', 'split_agrees_with_grammar',
            'argcount_eq_types', 'infer_single_complete_type', 'infer_splits_into_one', 'infer_fails_iff',
            'infer_valid_type', 'no_type_no_signature', 'wrapper_selects_type',
            'wrapper_table_matches_source', 'int_rule_matches_source', 'probes_match_model', 'plain_int_rule',
            'prefix_model_f28_infers_i', 'prefix_model_dict_value_from_last',
            'prefix_model_subclass_under_base_type', 'prefix_model_invalid_signatures',
            'variant_roundtrip_partial', 'variant_roundtrip', 'variant_roundtrip_conforming',
            'prefix_inferred_types_do_not_fit']
TRUSTED_BASE = [
    'Python semantics mirrored by hand in Sig/Split.lean and Wire/Infer.lean (generators and PEP 479, slices, '
    'isinstance/type on the builtin classes, dict iteration order, loop variables after a for loop) - validated by '
    'the correspondence streams',
    'harness/valcodec.py <-> lean/Driver/Val.lean (mapping between Python values and PyVal)',
    'harness oracle: parse_one (DBus grammar), natural_sig / expect (domain of the round-trip claim)',
    'harness/c02_ref.py decode (independent reference decoder, owned by C02): which type each value of a marshalled '
    'variant travelled under (wrapper clause judged on the wire)',
]
ASSUMPTIONS = [
    'enumerated signatures use the leaf alphabet {i, s, v} (all 14 leaf codes up to length 3 quick / 5 thorough): '
    'genCompleteTypes only distinguishes ( ) { } a from every other character; the theorem split_render covers all',
    'user classes are unrelated to each other and to the builtin classes (no subclass of list/dict/int beyond the '
    'wrapper classes of marshal.py)',
]
RULE = ('split-enumerated: every signature of the DBus grammar up to the stated length over the leaf alphabet; '
        'split-random: grammar-generated signatures up to 255 bytes, nesting <= 32; split-malformed: edits of valid '
        'signatures and random bracket strings; infer / variant-roundtrip: values generated type-first (a random DBus '
        'type, then a value of it, mixing subclasses) plus unconstrained heterogeneous values; distinct = distinct '
        'canonical case text per stream; a case is non-trivial unless it is a single leaf.  split-enumerated has a '
        'second, LONGEST-FIRST pass over the leaf alphabet {u,b,d} (so that no signature of it was split before), and '
        'every signature is asked for its first type before and after the full split.  split-history / infer-history: '
        'sequences of operations over related signatures / equal-but-differently-typed or mutated values, one case = one step')

BASIC = 'ybnqiuxtdsogh'
LEAVES = BASIC + 'v'


def _is_history(inp):
    return isinstance(inp, dict) and inp.get('op') == 'history'


def _mutated_in_place(steps):
    """the last step works on a slot that was checked, then mutated (not rebound) earlier in these steps"""
    slot = steps[-1].get('slot')
    if slot is None:
        return False
    seen = False
    for st in steps[:-1]:
        if st.get('slot') == slot:
            if st['do'] == 'new':
                seen = False
            elif st['do'] == 'mut':
                seen = True
    return seen


def _viol(ctx, key, what, inp=None, observed=None, expected=None):
    """ctx.violation + remember, per key, the smallest and the first HISTORY that showed it (see settle)"""
    ctx.violation(key, what, inp=inp, observed=observed, expected=expected)
    if _is_history(inp):
        hist = ctx.__dict__.setdefault('_c19_hist', {})
        rec = {'input': inp, 'what': what, 'observed': observed, 'expected': expected,
               'pos': ctx.__dict__.get('_c19_pos')}
        old = hist.setdefault(key, {'first': rec, 'smallest': rec, 'live': None})
        if len(inp['steps']) < len(old['smallest']['input']['steps']):
            old['smallest'] = rec
        if _mutated_in_place(inp['steps']) and (old['live'] is None
                                                or len(inp['steps']) < len(old['live']['input']['steps'])):
            old['live'] = rec            # the failing step looks at an object this history changed in place


# =====================================================================================================
# independent DBus grammar parser (oracle)
# =====================================================================================================
class Bad(Exception):
    pass


def parse_one(s, i, adepth=0, sdepth=0):
    """Index just after the single complete type starting at s[i]; Bad if there is none.
    DBus specification: basic | 'v' | 'a' type | 'a{' basic type '}' | '(' type+ ')'; nesting <= 32 / 32."""
    if i >= len(s):
        raise Bad('end of signature')
    c = s[i]
    if c in LEAVES:
        return i + 1
    if c == 'a':
        if adepth >= 32:
            raise Bad('array nesting')
        if i + 1 < len(s) and s[i + 1] == '{':
            if sdepth >= 32:
                raise Bad('struct nesting')
            j = i + 2
            if j >= len(s) or s[j] not in BASIC:
                raise Bad('dict key')
            j = parse_one(s, j + 1, adepth + 1, sdepth + 1)
            if j >= len(s) or s[j] != '}':
                raise Bad('dict entry not closed')
            return j + 1
        return parse_one(s, i + 1, adepth + 1, sdepth)
    if c == '(':
        if sdepth >= 32:
            raise Bad('struct nesting')
        j = i + 1
        n = 0
        while j < len(s) and s[j] != ')':
            j = parse_one(s, j, adepth, sdepth + 1)
            n += 1
        if j >= len(s) or n == 0:
            raise Bad('struct')
        return j + 1
    raise Bad('unexpected %r' % c)


def parse_all(s):
    """The complete types of a valid signature (Bad otherwise)."""
    out, i = [], 0
    if len(s) > 255:
        raise Bad('too long')
    while i < len(s):
        j = parse_one(s, i)
        out.append(s[i:j])
        i = j
    return out


def is_single(s):
    try:
        return parse_one(s, 0) == len(s)
    except Bad:
        return False


# =====================================================================================================
# signature generators
# =====================================================================================================
def enum_sigs(maxlen, basic, other):
    """All valid signatures of length <= maxlen over the leaf alphabet basic + other (other: 'v')."""
    T = {0: []}      # single complete types by length
    S = {0: ['']}    # sequences by length
    for n in range(1, maxlen + 1):
        ts = []
        if n == 1:
            ts += list(basic + other)
        ts += ['a' + t for t in T.get(n - 1, [])]
        if n >= 5:
            ts += ['a{' + k + t + '}' for k in basic for t in T.get(n - 4, [])]
        if n >= 3:
            ts += ['(' + q + ')' for q in S.get(n - 2, []) if q]
        T[n] = ts
        S[n] = [t + q for k in range(1, n + 1) for t in T[k] for q in S[n - k]]
    out = []
    for n in range(0, maxlen + 1):
        out += S[n]
    return out


def rand_type(rng, budget, adepth=0, sdepth=0):
    """A random single complete type of length <= budget (budget >= 1)."""
    r = rng.random()
    if budget < 2 or r < 0.35:
        return rng.choice(LEAVES)
    if r < 0.60 and adepth < 32:
        return 'a' + rand_type(rng, budget - 1, adepth + 1, sdepth)
    if r < 0.75 and budget >= 5 and adepth < 32 and sdepth < 32:
        return 'a{' + rng.choice(BASIC) + rand_type(rng, budget - 4, adepth + 1, sdepth + 1) + '}'
    if budget >= 3 and sdepth < 32:
        inner = rand_seq(rng, budget - 2, adepth, sdepth + 1, minn=1)
        return '(' + inner + ')'
    return rng.choice(LEAVES)


def rand_seq(rng, budget, adepth=0, sdepth=0, minn=0):
    n = rng.choice([minn, 1, 1, 2, 3, 5, 8]) if budget > 8 else rng.randint(minn, max(minn, min(3, budget)))
    n = max(n, minn)
    out = ''
    for k in range(n):
        left = budget - len(out) - (n - k - 1)
        if left < 1:
            break
        out += rand_type(rng, rng.randint(1, left), adepth, sdepth)
    if minn and not out:
        out = rng.choice(LEAVES)
    return out


def rand_sig(rng):
    budget = rng.choice([4, 8, 16, 40, 100, 255, 255])
    mode = rng.random()
    if mode < 0.15:      # deep nesting
        d = rng.randint(1, 32)
        kind = rng.choice(['a', '(', 'mix'])
        core = rng.choice(LEAVES)
        for k in range(d):
            if kind == 'a' or (kind == 'mix' and rng.random() < 0.5):
                core = 'a' + core
            else:
                core = '(' + core + rng.choice(['', 'i', 's']) + ')'
        s = core
    else:
        s = rand_seq(rng, budget)
    return s if _valid(s) else rand_type(rng, 6)


def _valid(s):
    try:
        parse_all(s)
        return True
    except Bad:
        return False


def malformed(rng, base):
    alpha = '(){}a' + 'isv' + 'a(){}'
    r = rng.random()
    if r < 0.3:
        n = rng.randint(1, 12)
        return ''.join(rng.choice(alpha) for _ in range(n))
    s = list(base)
    for _ in range(rng.randint(1, 3)):
        op = rng.randrange(4)
        p = rng.randint(0, len(s))
        if op == 0 and s:
            del s[min(p, len(s) - 1)]
        elif op == 1:
            s.insert(p, rng.choice(alpha + 'zZ1 é€'))
        elif op == 2 and s:
            s[min(p, len(s) - 1)] = rng.choice(alpha)
        else:
            s = s[:p]
    return ''.join(s)


# =====================================================================================================
# observing the implementation
# =====================================================================================================
def hexes(ps):
    return '%d' % len(ps) + ''.join(' ' + vc.str_hex(p) for p in ps)


def obs_split(marshal, sig):
    ps = []
    try:
        for p in marshal.genCompleteTypes(sig):
            ps.append(p)
            if len(ps) > 100000:
                return 'err runaway'
        return 'ok ' + hexes(ps), ps
    except Exception as e:
        return 'err %s %s' % (type(e).__name__, hexes(ps)), None


def obs_first(marshal, sig):
    try:
        g = marshal.genCompleteTypes(sig)       # (an eager implementation raises here, a lazy one at next())
        p = next(g)
    except Exception as e:
        return 'err ' + type(e).__name__
    return 'ok %s %s' % (vc.str_hex(p), vc.str_hex(sig[len(p):]))


def obs_nargs(sig_in, sig_out, sig_sig):
    from txdbus import interface
    try:
        m = interface.Method('M', arguments=sig_in, returns=sig_out)
        s = interface.Signal('S', sig_sig)
        interface.DBusInterface('org.verif.C19', m, s, noRegister=True)
        return [m.nargs, m.nret, s.nargs]
    except Exception as e:
        return 'err ' + type(e).__name__


def obs_infer(marshal, v):
    try:
        return 'ok ' + vc.str_hex(marshal.sigFromPy(v))
    except Exception as e:
        return 'err ' + type(e).__name__


# =====================================================================================================
# the domain of the round-trip claim
# =====================================================================================================
class Outside(Exception):
    """The value is outside what the property statement claims."""


INT_RANGE = {'y': (0, 2 ** 8), 'n': (-2 ** 15, 2 ** 15), 'q': (0, 2 ** 16), 'i': (-2 ** 31, 2 ** 31),
             'u': (0, 2 ** 32), 'x': (-2 ** 63, 2 ** 63), 't': (0, 2 ** 64)}
# from the doc strings of the wrapper classes / the DBus type names
WRAPPER_SIG = {'Byte': 'y', 'Boolean': 'b', 'Int16': 'n', 'UInt16': 'q', 'Int32': 'i', 'UInt32': 'u',
               'Int64': 'x', 'UInt64': 't', 'Signature': 'g', 'ObjectPath': 'o'}
OBJPATH_RE = re.compile(r'^(/|(/[A-Za-z0-9_]+)+)$')


def wrapper_name(v):
    n = type(v).__name__
    return n if n in WRAPPER_SIG and type(v).__module__ == 'txdbus.marshal' else None



def py_class(v):
    """The builtin class a value counts as for inference (subclasses included), or None."""
    if wrapper_name(v):
        return 'wrapper'
    for name, k in (('bool', bool), ('int', int), ('float', float), ('str', str), ('bytearray', bytearray),
                    ('list', list), ('tuple', tuple), ('dict', dict)):
        if isinstance(v, k):
            return name
    return None


def natural_sig(v):
    """The DBus type a value has by itself (None: it has none).  First-element based, as upstream documents;
    a container whose elements do not all have exactly the class of the first one carries variants."""
    c = py_class(v)
    if c == 'wrapper':
        return WRAPPER_SIG[wrapper_name(v)]
    if c == 'bool':
        return 'b'
    if c == 'int':
        if -2 ** 31 <= v < 2 ** 31:
            return 'i'
        if -2 ** 63 <= v < 2 ** 63:
            return 'x'
        if 2 ** 63 <= v < 2 ** 64:
            return 't'
        return None
    if c == 'float':
        return 'd'
    if c == 'str':
        return 's'
    if c == 'bytearray':
        return 'ay'
    if c == 'list':
        if not len(v):
            return 'av'
        if any(type(e) is not type(v[0]) for e in v[1:]):
            return 'av'
        e = natural_sig(v[0])
        return None if e is None else 'a' + e
    if c == 'tuple':
        if not len(v):
            return None
        parts = [natural_sig(e) for e in v]
        return None if None in parts else '(' + ''.join(parts) + ')'
    if c == 'dict':
        if not len(v):
            return 'a{sv}'
        items = list(v.items())
        k = natural_sig(items[0][0])
        if k is None or k not in BASIC:
            return None
        if any(type(x) is not type(items[0][1]) for _, x in items[1:]):
            return 'a{' + k + 'v}'
        e = natural_sig(items[0][1])
        return None if e is None else 'a{' + k + e + '}'
    return None



def expect(v, sig):
    """The value the peer must decode when `v` travels under the single complete type `sig`;
    Outside when the statement makes no claim."""
    c = sig[0]
    if c == 'v':
        s = natural_sig(v)
        if s is None:
            raise Outside('no DBus type')
        if len(s) > 255:
            raise Outside('signature longer than 255')
        return expect(v, s)
    if c in INT_RANGE:
        if not isinstance(v, int) or isinstance(v, bool):
            raise Outside('not an int')
        lo, hi = INT_RANGE[c]
        if not lo <= int(v) < hi:
            raise Outside('scalar does not fit')
        return int(v)
    if c == 'b':
        if type(v) is bool:
            return v
        if wrapper_name(v) == 'Boolean' and int(v) in (0, 1):
            return bool(v)
        raise Outside('not a boolean')
    if c == 'd':
        if not isinstance(v, float) or v != v:
            raise Outside('not a comparable float')
        return v
    if c in 'sog':
        if not isinstance(v, str):
            raise Outside('not a str')
        s = str(v)
        if '\0' in s:
            raise Outside('NUL')
        try:
            s.encode('utf-8')
        except UnicodeError:
            raise Outside('not encodable')
        if c == 'o' and not OBJPATH_RE.match(s):
            raise Outside('invalid object path')
        if c == 'g' and (len(s) > 255 or not _valid(s)):
            raise Outside('invalid signature')
        return s
    if c == 'a':
        esig = sig[1:]
        if esig[0] == '{':
            if not isinstance(v, dict):
                raise Outside('not a dict')
            ksig = esig[1]
            vsig = esig[2:-1]
            items = list(v.items())
            out = {}
            for k, x in items:
                if natural_sig(k) != ksig:
                    raise Outside('dict keys of more than one DBus type')
                out[expect(k, ksig)] = expect(x, vsig)
            if len(out) != len(items):
                raise Outside('keys collide')
            return out
        if isinstance(v, bytearray):
            if esig != 'y':
                raise Outside('bytearray')
            return list(v)
        if not isinstance(v, list):
            raise Outside('not a list')
        return [expect(e, esig) for e in v]
    if c == '(':
        if not isinstance(v, tuple) or not len(v):
            raise Outside('not a non-empty tuple')
        parts = parse_all(sig[1:-1])
        if len(parts) != len(v):
            raise Outside('arity')
        return [expect(e, p) for e, p in zip(v, parts)]
    raise Outside('type ' + sig)





def normalise(x):
    """Documented normalisation of what was sent: tuple -> list, bytearray -> list of ints."""
    if isinstance(x, (list, tuple)):
        return [normalise(e) for e in x]
    if isinstance(x, bytearray):
        return list(x)
    if isinstance(x, dict):
        return {k: normalise(e) for k, e in x.items()}
    return x


def plain_eq(a, b):
    """Python equality, with list/dict structure compared recursively (== does exactly that)."""
    return a == b



def roundtrip(marshal, v, le=True, off=0, keep=None):
    """(ok, observed, expected) for a value inside the claim; (None, why, None) when outside.
    `keep`: a list that receives the marshalled bytes."""
    try:
        exp = expect(v, 'v')
    except Outside as o:
        return None, str(o), None
    try:
        sig = marshal.sigFromPy(v)
        n, chunks = marshal.marshal('v', [v], off, le)
        data = b''.join(chunks)
        if keep is not None:
            keep.append(data)
        n2, out = marshal.unmarshal('v', b'\xaa' * off + data, off, le)
    except Exception as e:
        return False, 'raises %s: %s' % (type(e).__name__, str(e)[:100]), repr(exp)[:200]
    got = out[0] if isinstance(out, list) and len(out) == 1 else out
    if not plain_eq(got, exp) or not plain_eq(got, normalise(v)):
        return False, 'sig %s decodes to %s' % (sig, repr(got)[:200]), repr(exp)[:200]
    return True, sig, None


# ---- the wrapper clause, judged on the wire ("the explicit wrapper types select exactly their DBus type")
def _render_ty(ty):
    if isinstance(ty, str):
        return ty
    if ty[0] == 'a':
        return 'a' + _render_ty(ty[1])
    if ty[0] == '(':
        return '(' + ''.join(_render_ty(f) for f in ty[1]) + ')'
    return '{' + _render_ty(ty[1]) + _render_ty(ty[2]) + '}'


def wire_types(data, le, off):
    """('V', type, value) tree of a marshalled variant according to the reference decoder (None: it refuses the
    bytes - that is C02's matter, not judged here)."""
    from harness import c02_ref
    try:
        out, used = c02_ref.decode(['v'], b'\xaa' * off + data, off, le)
        return out[0]
    except Exception:
        return None


def misplaced_wrappers(v, ty, sv, path='v'):
    """Wrapper instances inside `v` that travelled under another type code than their own.  Walks the value and
    the decoded wire tree together; stops wherever the shapes do not correspond (the == oracle judges that)."""
    if ty == 'v' and isinstance(sv, tuple) and len(sv) == 3 and sv[0] == 'V':
        return misplaced_wrappers(v, sv[1], sv[2], path)
    w = wrapper_name(v)
    if w:
        got = _render_ty(ty)
        return [(path, w, got)] if got != WRAPPER_SIG[w] else []
    c = py_class(v)
    code = ty if isinstance(ty, str) else ty[0]
    out = []
    if c == 'tuple' and code == '(' and isinstance(sv, list) and len(ty[1]) == len(v) == len(sv):
        for i, (e, f, x) in enumerate(zip(v, ty[1], sv)):
            out += misplaced_wrappers(e, f, x, '%s[%d]' % (path, i))
    elif c == 'list' and code == 'a' and isinstance(sv, list) and len(sv) == len(v) \
            and (isinstance(ty[1], str) or ty[1][0] != '{'):
        # elements that travel as variants each select their own type; otherwise the FIRST element stands for
        # the whole list (first-element inference: what later elements of the same class hold is outside the claim)
        for i, (e, x) in enumerate(zip(v, sv)):
            if i == 0 or ty[1] == 'v':
                out += misplaced_wrappers(e, ty[1], x, '%s[%d]' % (path, i))
    elif c == 'dict' and code == 'a' and not isinstance(ty[1], str) and ty[1][0] == '{' and isinstance(sv, list) \
            and len(sv) == len(v):
        items = list(v.items())
        samekeys = all(type(k) is type(items[0][0]) for k, _ in items)      # keys of several classes: outside
        for i, ((k, e), pair) in enumerate(zip(items, sv)):
            if samekeys:
                out += misplaced_wrappers(k, ty[1][1], pair[0], '%s.key(%r)' % (path, k))
            if i == 0 or ty[1][2] == 'v':
                out += misplaced_wrappers(e, ty[1][2], pair[1], '%s[%r]' % (path, k))
    return out


def wrapper_oracle(ctx, v, data, le, off, inp):
    """S4, wrapper clause, for a value inside the claim that marshalled to `data`."""
    tree = wire_types(data, le, off)
    if tree is None:
        ctx.stat('wire-types:reference-decoder-refuses')
        return
    bad = misplaced_wrappers(v, 'v', tree)
    ctx.stat('wire-types:judged')
    if bad:
        pth, w, got = bad[0]
        _viol(ctx, 'wrapper-selects-wrong-type',
              '%s instance at %s of %s travels as %r (%s endian, offset %d)' % (w, pth, repr(v)[:120], got,
                                                                             'little' if le else 'big', off),
              inp=inp, observed={'wire': vc.bytes_hex(data), 'travels_as': got}, expected=WRAPPER_SIG[w])


def children(v):
    if isinstance(v, (list, tuple)):
        return list(v)
    if isinstance(v, dict):
        out = []
        for k, x in v.items():
            out += [k, x]
        # also every two-item sub-dict (the dict rules need two items)
        items = list(v.items())
        if len(items) > 2:
            for i in range(len(items)):
                for j in range(i + 1, len(items)):
                    out.append(dict([items[i], items[j]]))
        return out
    return []



def shrink_roundtrip(marshal, v, le=True, off=0, budget=400):
    """Smallest sub-value (or two-item sub-dict / two-element list) that still fails the round-trip oracle."""
    cur = v
    while budget > 0:
        cands = children(cur)
        if isinstance(cur, list) and len(cur) > 2:
            cands += [[cur[0], e] for e in cur[1:]]
        nxt = None
        for c in cands:
            budget -= 1
            try:
                ok, _, _ = roundtrip(marshal, c, le, off)
            except Exception:
                ok = None
            if ok is False:
                nxt = c
                break
        if nxt is None:
            return cur
        cur = nxt
    return cur


def walk(v):
    yield v
    for c in (list(v) if isinstance(v, (list, tuple)) else []):
        yield from walk(c)
    if isinstance(v, dict):
        for k, x in v.items():
            yield from walk(k)
            yield from walk(x)



def _sig_or_none(marshal, v):
    try:
        return marshal.sigFromPy(v)
    except Exception:
        return None


def classify_roundtrip_failure(marshal, v, le=True, off=0):
    """Key of a (shrunk) failing value.  The three named classes are recognised by an EXACT test on the
    shrunk value itself; anything else is filed under the generic key - never under a fixed finding."""
    # F28: a plain int outside int32 that the implementation calls 'i'
    if type(v) is int and not -2 ** 31 <= v < 2 ** 31 and _sig_or_none(marshal, v) == 'i':
        return 'int-outside-int32-infers-i'
    # C19-01: a dict whose signature follows its LAST value: fails as given, passes with the items reversed,
    # and the implementation's value signature is that of the last value, not of the first
    if type(v) is dict and len(v) >= 2:
        items = list(v.items())
        s_first, s_last = _sig_or_none(marshal, items[0][1]), _sig_or_none(marshal, items[-1][1])
        s_all = _sig_or_none(marshal, v)
        if s_first and s_last and s_all and s_first != s_last and s_all.endswith(s_last + '}') \
                and not s_all.endswith(s_first + '}'):
            try:
                if roundtrip(marshal, dict(reversed(items)), le, off)[0] is True:
                    return 'dict-value-signature-from-last-item'
            except Exception:
                pass
    # C19-02: a container holding, after its first element, an element of a proper subclass of the first one's
    # class, which the implementation sends under the type it gives the first element alone
    elems = mk = None
    if type(v) is list and len(v) >= 2:
        elems, mk = v, (lambda a: [a])
    elif type(v) is dict and len(v) >= 2:
        k0 = next(iter(v))
        elems, mk = list(v.values()), (lambda x: {k0: x})
    if elems is not None:
        a = elems[0]
        if any(type(b) is not type(a) and isinstance(b, type(a)) for b in elems[1:]):
            if _sig_or_none(marshal, v) is not None and _sig_or_none(marshal, v) == _sig_or_none(marshal, mk(a)):
                return 'subclass-element-under-base-type'
    return 'variant-roundtrip-fails'


# =====================================================================================================
# value generators
# =====================================================================================================
INT_EDGES = [0, 1, -1, 2, 255, 256, 2 ** 15 - 1, 2 ** 15, -2 ** 15, -2 ** 15 - 1, 2 ** 16 - 1, 2 ** 16,
             2 ** 31 - 1, 2 ** 31, -2 ** 31, -2 ** 31 - 1, 2 ** 32 - 1, 2 ** 32, 2 ** 40, -2 ** 40,
             2 ** 63 - 1, 2 ** 63, -2 ** 63, -2 ** 63 - 1, 2 ** 64 - 1, 2 ** 64, 10 ** 30, -10 ** 30]
FLOATS = [0.0, -0.0, 1.5, -2.25, 1e308, 5e-324, float('inf'), float('-inf'), float('nan'), 3.141592653589793]
STRS = ['', 'a', 'abc', 'x y', 'café', '€', '\U0001f600z', 'a\0b', '/', 'ii', 'a' * 40]
PATHS = ['/', '/a', '/org/freedesktop/DBus', '/a_1/B2', 'bad', '/a/', '//']
SIGS = ['', 'i', 'ai', 'a{sv}', '(ii)', 'a(', 'ii', 'v']
W_INT = ['Byte', 'Boolean', 'Int16', 'UInt16', 'Int32', 'UInt32', 'Int64', 'UInt64']


def g_int(rng):
    r = rng.random()
    if r < 0.45:
        return rng.choice(INT_EDGES)
    if r < 0.8:
        return rng.randint(-300, 300)
    return rng.randint(-2 ** 66, 2 ** 66)


def g_fit(rng, code):
    lo, hi = INT_RANGE[code]
    r = rng.random()
    if r < 0.3:
        return rng.choice([lo, hi - 1])
    if r < 0.6:
        return max(lo, min(hi - 1, rng.randint(-5, 300)))
    return rng.randint(lo, hi - 1)


def g_str(rng):
    if rng.random() < 0.6:
        return rng.choice(STRS)
    return ''.join(rng.choice('abcXYZ09_/ .é中') for _ in range(rng.randint(0, 12)))


def g_scalar(rng, m):
    k = rng.randrange(14)
    if k == 0:
        return rng.random() < 0.5
    if k <= 3:
        return g_int(rng)
    if k <= 5:
        w = rng.choice(W_INT)
        code = WRAPPER_SIG[w]
        if code == 'b':
            return m.Boolean(rng.choice([0, 1, 1, 0, 5]))
        return getattr(m, w)(g_fit(rng, code) if rng.random() < 0.85 else g_int(rng))
    if k == 6:
        return rng.choice(FLOATS) if rng.random() < 0.7 else rng.uniform(-1e6, 1e6)
    if k <= 8:
        return g_str(rng)
    if k == 9:
        return m.ObjectPath(rng.choice(PATHS))
    if k == 10:
        return m.Signature(rng.choice(SIGS))
    if k == 11:
        return bytearray(rng.randrange(256) for _ in range(rng.choice([0, 1, 2, 5])))
    if k == 12:
        return rng.choice([True, False, 0, 1])
    return g_int(rng)


def g_key(rng, m):
    k = rng.randrange(8)
    if k <= 2:
        return g_str(rng)
    if k <= 4:
        return rng.randint(-5, 50)
    if k == 5:
        return rng.random() < 0.5
    if k == 6:
        return getattr(m, rng.choice(['Byte', 'UInt32', 'Int64']))(rng.randint(0, 200))
    return rng.choice([1.5, 2.0, m.ObjectPath('/k'), 2 ** 40, m.Signature('s')])


def g_any(rng, m, depth, exotic=True):
    """Unconstrained value: heterogeneous containers, unsupported objects (when exotic)."""
    r = rng.random()
    if depth <= 0 or r < 0.45:
        if exotic and rng.random() < 0.08:
            k = rng.randrange(4)
            if k == 0:
                return None
            if k == 1:
                return vc.make_other(rng.randrange(7))
            if k == 2:
                return vc.make_obj(rng.randrange(3), rng.choice([None, None, 'i', '(is)', 'ii', 'a{sv}']),
                                   [g_scalar(rng, m) for _ in range(rng.randrange(3))])
        return g_scalar(rng, m)
    n = rng.choice([0, 1, 2, 2, 3, 4])
    if r < 0.65:
        if rng.random() < 0.5 and n:
            first = g_any(rng, m, depth - 1, exotic)
            return [first] + [g_like(rng, m, first, depth - 1, exotic) for _ in range(n - 1)]
        return [g_any(rng, m, depth - 1, exotic) for _ in range(n)]
    if r < 0.8:
        return tuple(g_any(rng, m, depth - 1, exotic) for _ in range(n))
    d = {}
    if rng.random() < 0.5 and n:
        firstv = g_any(rng, m, depth - 1, exotic)
        k0 = g_key(rng, m)
        d[k0] = firstv
        for _ in range(n - 1):
            d[g_like_key(rng, m, k0) if rng.random() < 0.8 else g_key(rng, m)] = \
                g_like(rng, m, firstv, depth - 1, exotic)
        return d
    for _ in range(n):
        d[g_key(rng, m)] = g_any(rng, m, depth - 1, exotic)
    return d


def g_like_key(rng, m, k0):
    while True:
        k = g_like(rng, m, k0, 0, False)
        try:
            hash(k)
            return k
        except TypeError:
            pass


def g_like(rng, m, v, depth, exotic):
    """A value related to `v`: same class, a subclass / superclass of it, or (rarely) anything."""
    r = rng.random()
    t = type(v)
    if r < 0.08:
        return g_any(rng, m, depth, exotic)
    if t is bool:
        return rng.choice([True, False, 0, 1, m.Boolean(1)]) if r < 0.3 else (rng.random() < 0.5)
    if isinstance(v, int):
        w = wrapper_name(v)
        if w and r > 0.3:
            code = WRAPPER_SIG[w]
            return getattr(m, w)(rng.choice([0, 1]) if code == 'b' else g_fit(rng, code))
        k = rng.randrange(6)
        if k == 0:
            return rng.random() < 0.5
        if k == 1:
            ww = rng.choice(W_INT)
            return getattr(m, ww)(rng.choice([0, 1]) if ww == 'Boolean' else g_fit(rng, WRAPPER_SIG[ww]))
        if k == 2:
            return g_int(rng)
        s = natural_sig(int(v))
        return g_fit(rng, s) if s in INT_RANGE and s != 't' else rng.randint(-100, 100)
    if t is float:
        return rng.choice(FLOATS[:8])
    if isinstance(v, str):
        k = rng.randrange(5)
        if k == 0:
            return m.ObjectPath(rng.choice(PATHS[:4]))
        if k == 1:
            return m.Signature(rng.choice(SIGS[:5]))
        if wrapper_name(v) == 'ObjectPath' and k < 4:
            return m.ObjectPath(rng.choice(PATHS[:4]))
        return g_str(rng)
    if t is bytearray:
        return bytearray(rng.randrange(256) for _ in range(rng.randrange(4)))
    if t is list:
        if not v or rng.random() < 0.15:
            return rng.choice([[], [g_scalar(rng, m)]])
        return [g_like(rng, m, v[0], depth - 1, exotic) for _ in range(rng.choice([1, 1, 2, 3]))]
    if t is tuple:
        if rng.random() < 0.1:
            return tuple(g_scalar(rng, m) for _ in range(rng.randrange(3)))
        return tuple(g_like(rng, m, e, depth - 1, exotic) for e in v)
    if t is dict:
        if not v or rng.random() < 0.15:
            return rng.choice([{}, {g_key(rng, m): g_scalar(rng, m)}])
        k0, x0 = next(iter(v.items()))
        return {g_like_key(rng, m, k0): g_like(rng, m, x0, depth - 1, exotic)
                for _ in range(rng.choice([1, 2, 3]))}
    return g_any(rng, m, depth, exotic)


def fixed_values(m):
    """Hand-written cases around every rule of sigFromPy (run in both tiers)."""
    B, Y, U64, OP, SG = m.Boolean, m.Byte, m.UInt64, m.ObjectPath, m.Signature
    return [
        True, 0, 2 ** 31 - 1, 2 ** 31, -2 ** 31, -2 ** 31 - 1, 2 ** 40, 2 ** 63 - 1, 2 ** 63, 2 ** 64 - 1, 2 ** 64,
        -2 ** 63, -2 ** 63 - 1, Y(0), Y(255), B(0), B(1), m.Int16(-2 ** 15), m.UInt16(2 ** 16 - 1), m.Int32(-1),
        m.UInt32(2 ** 32 - 1), m.Int64(-2 ** 63), U64(2 ** 64 - 1), 1.5, -0.0, float('inf'), '', 'a', 'café',
        OP('/'), OP('/a/b'), SG(''), SG('a{sv}'), bytearray(), bytearray(b'\x00\xff'),
        [], [[]], [[], []], [[], [1]], [[1], []], [{}], [{}, {}], [{}, {'a': 1}], {}, {'a': {}}, {'a': {}, 'b': {'x': 1}},
        {'a': [], 'b': [1]}, {'a': [1], 'b': []}, [1, 2, 3], [1, True], [True, 1], [True, False], [1, Y(5)], [Y(5), 1],
        [Y(1), Y(2)], [5, B(1)], [1, U64(7)], [U64(7), U64(2 ** 64 - 1)], ['a', OP('/p')], [OP('/p'), 'a'],
        [OP('/p'), OP('/q')], ['a', SG('i')], [1, 'a'], [1, 2.5], [2.5, 1], [1.5, 2.5], ['a', 'b'], [2 ** 40, 2 ** 41],
        [2 ** 63, 2 ** 63 + 1], (1,), (1, 'a'), ((1, 2), [3]), ([],), ({},), [(1, 'a'), (2, 'b')], [[1, 2], [3]],
        [[1, 'a'], [2.5, True]], [bytearray(b'ab'), bytearray(b'')], {'a': 1}, {'a': 1, 'b': 2}, {'a': 1, 'b': 'x'},
        {'a': 2, 'b': True}, {'a': True, 'b': 2}, {'a': 1000, 'b': Y(1)}, {'a': Y(1), 'b': Y(2)},
        {'a': 'x', 'b': OP('/p')}, {'a': OP('/p'), 'b': OP('/q')}, {'a': 5, 'b': True, 'c': Y(3)},
        {1: 'a', 2: 'b'}, {True: 'a'}, {1.5: 'a'}, {Y(1): 'a', Y(2): 'b'}, {'k': (1, 2), 'j': (3, 4)},
        {'a': [1, 2], 'b': [3]}, {'a': {'x': 1}, 'b': {'y': 2}}, {'a': 1.5, 'b': 2}, {'x': [1, 'a']},
        [{'a': 1}, {'b': 2}], ({'a': (1, [True])},), [[[[1]]]], {'a': {'b': {'c': [1, (2, 'x')]}}},
        [1, U64(2 ** 40)], [1, m.Int64(-2 ** 40)], {'a': 1, 'b': U64(2 ** 40)}, [U64(2 ** 40), 1], ['a', SG('i')],
        (), [()], ((), 1), {(1, 2): 3}, {'a': ()}, [1] * 9 + ['a'], ['a'] + [1] * 20, [1] * 40, list(range(17)) + [2 ** 40],
        {i: 'v%d' % i for i in range(25)}, {('k%d' % i): (i if i != 19 else 'odd') for i in range(20)},
        [[[[[[[[1, 'a']]]]]]]], {'a': [{'b': [{'c': [{'d': (1, [2.5])}]}]}]}, float('nan'), [float('nan')],
    ]


# =====================================================================================================
# values outside the line syntax: subclasses of the builtin classes (oracle-only, built from a JSON spec)
# =====================================================================================================
import collections
import enum


class _Color(enum.IntEnum):
    R = 1
    G = 2
    B = 70000


class _SubList(list):
    pass


class _SubDict(dict):
    pass


_P2 = collections.namedtuple('P2', 'x y')
_P3 = collections.namedtuple('P3', 'a b c')


def build_x(spec):
    """Value from a JSON-able spec: ['v', line] | ['odict', [[k, v]..]] | ['ddict', ..] | ['sdict', ..] |
    ['nt', [fields]] | ['enum', 'R'] | ['slist', [elems]] | ['list', [elems]] | ['tuple', [elems]] | ['dict', [[k, v]..]]"""
    tag = spec[0]
    if tag == 'v':
        return vc.from_line(spec[1])
    if tag in ('odict', 'ddict', 'sdict', 'dict'):
        items = [(build_x(k), build_x(v)) for k, v in spec[1]]
        if tag == 'odict':
            return collections.OrderedDict(items)
        if tag == 'ddict':
            d = collections.defaultdict(list)
            d.update(items)
            return d
        return _SubDict(items) if tag == 'sdict' else dict(items)
    if tag == 'nt':
        f = [build_x(e) for e in spec[1]]
        return _P2(*f) if len(f) == 2 else _P3(*f)
    if tag == 'enum':
        return _Color[spec[1]]
    if tag == 'slist':
        return _SubList(build_x(e) for e in spec[1])
    if tag == 'list':
        return [build_x(e) for e in spec[1]]
    if tag == 'tuple':
        return tuple(build_x(e) for e in spec[1])
    raise ValueError(tag)


def g_xspec(rng, m, depth):
    """Spec of a value that uses subclasses of the builtin classes somewhere."""
    def leaf():
        return ['v', vc.to_line(g_scalar(rng, m))]

    def keyspec(i):
        return ['v', vc.to_line('k%d' % i)]
    r = rng.randrange(9)
    n = rng.choice([1, 2, 3, 6])
    sub = (lambda: g_xspec(rng, m, depth - 1)) if depth > 0 and rng.random() < 0.5 else leaf
    if r == 0:
        return ['enum', rng.choice('RGB')]
    if r == 1:
        return ['nt', [sub() for _ in range(rng.choice([2, 3]))]]
    if r == 2:
        return [rng.choice(['odict', 'ddict', 'sdict']), [[keyspec(i), sub()] for i in range(n)]]
    if r == 3:
        return ['slist', [sub() for _ in range(n)]]
    if r == 4:   # homogeneous list of named tuples / enums
        if rng.random() < 0.5:
            return ['list', [['nt', [['v', 'i %d' % rng.randint(-9, 9)], ['v', vc.to_line(g_str(rng))]]] for _ in range(n)]]
        return ['list', [['enum', rng.choice('RGB')] for _ in range(n)]]
    if r == 5:   # int first, IntEnum later (and the reverse)
        xs = [['v', 'i %d' % rng.randint(-5, 5)], ['enum', rng.choice('RGB')]]
        rng.shuffle(xs)
        return ['list', xs]
    if r == 6:
        return ['dict', [[keyspec(i), rng.choice([['enum', 'R'], ['v', 'i 7'], ['nt', [['v', 'i 1'], ['v', 'i 2']]]])]
                         for i in range(n)]]
    if r == 7:
        return ['tuple', [sub(), ['odict', [[keyspec(0), leaf()]]]]]
    return ['list', [['odict', [[keyspec(0), ['v', 'i %d' % i]]]] for i in range(n)]]


def g_big(rng, m):
    """Containers of 5..40 elements; homogeneous, or with ONE odd element last / in the middle / first."""
    n = rng.randint(5, 40)
    kind = rng.randrange(6)
    base = rng.choice([lambda: rng.randint(-100, 100), lambda: g_str(rng), lambda: rng.random() < 0.5,
                       lambda: rng.uniform(-9, 9), lambda: m.Byte(rng.randrange(256)),
                       lambda: (rng.randint(0, 9), g_str(rng)), lambda: [rng.randint(0, 9)] * rng.randrange(3),
                       lambda: m.UInt64(rng.randrange(2 ** 64))])
    xs = [base() for _ in range(n)]
    odd = rng.choice([lambda: 'odd', lambda: 2 ** 40, lambda: True, lambda: m.UInt64(2 ** 40), lambda: 1.5,
                      lambda: m.ObjectPath('/odd'), lambda: [], lambda: {}, lambda: 7, lambda: m.Int16(-3)])
    if kind >= 2:
        pos = {2: n - 1, 3: n // 2, 4: 0, 5: rng.randrange(n)}[kind]
        xs[pos] = odd()
    if rng.random() < 0.35:
        keys = rng.choice([lambda i: 'k%d' % i, lambda i: i, lambda i: m.UInt32(i)])
        return {keys(i): x for i, x in enumerate(xs)}
    if rng.random() < 0.15:
        return tuple(xs[:12])
    return xs


def g_deep(rng, m, depth):
    """Nesting up to `depth` (<= 8) of single-child containers around a small value."""
    v = g_any(rng, m, 1, exotic=False)
    for _ in range(depth):
        k = rng.randrange(4)
        if k == 0:
            v = [v]
        elif k == 1:
            v = (v, rng.randint(0, 3))
        elif k == 2:
            v = {'k': v}
        else:
            v = [v, g_like(rng, m, v, 1, False)]
    return v


# =====================================================================================================
# streams
# =====================================================================================================
def canon_err(x):
    """Which exception a malformed signature / a typeless value raises is not part of the property."""
    return 'err' if isinstance(x, str) and x.startswith('err') else x


def check_split_oracle(ctx, sig, pieces, observed, inp=None):
    """S4 on a valid signature: concatenation and one complete type per piece."""
    want = parse_all(sig)
    ok = pieces is not None and ''.join(pieces) == sig and all(is_single(p) for p in pieces)
    if not ok or pieces != want:
        _viol(ctx, 'split-wrong-decomposition',
              'list(genCompleteTypes(%r)) is not the decomposition into complete types' % (sig,),
              inp=inp or {'op': 'split', 'sig': sig}, observed=observed, expected=want)


def check_first_oracle(ctx, sig, of, inp=None):
    """S4 on a valid, non-empty signature: one next() gives the first complete type."""
    want = parse_all(sig)
    if want:
        exp_first = 'ok %s %s' % (vc.str_hex(want[0]), vc.str_hex(sig[len(want[0]):]))
        if of != exp_first:
            _viol(ctx, 'split-wrong-decomposition',
                  'next(genCompleteTypes(%r)) is not the first complete type' % (sig,),
                  inp=inp or {'op': 'split', 'sig': sig}, observed=of, expected=exp_first)


PATTERNS = {'fsf': ('first', 'split', 'first'), 'sfs': ('split', 'first', 'split'),
            'fs': ('first', 'split'), 'sf': ('split', 'first')}


def run_split(ctx, marshal, stream, sigs, valid, pattern=None, patterns=('fsf', 'sfs')):
    """Every signature: next() on a fresh generator (abandoned after one piece) and the full split, in the order
    `pattern` ('fsf' | 'sfs'; default: alternating) - a generator left half consumed must not change what the
    next one yields."""
    lines = []
    for s in sigs:
        lines.append('split ' + vc.str_hex(s))
        lines.append('first ' + vc.str_hex(s))
    out = ctx.model(lines)
    for i, s in enumerate(sigs):
        pat = pattern or patterns[i % len(patterns)]
        inp = {'op': 'split', 'sig': s, 'pattern': pat}
        for k, what in enumerate(PATTERNS[pat]):
            if what == 'split':
                ob, pieces = obs_split(marshal, s)
                of = None
            else:
                of = obs_first(marshal, s)
                ob = None
            ctx.impl_trace()
            if k == 0:
                ctx.case(stream, sample=s, nontrivial=len(s) > 1)
                ctx.stat('%s:len=%s' % (stream, len(s) if len(s) < 10 else '%d+' % (len(s) // 10 * 10)))
            if not valid and ob is not None and k < 2:
                ctx.stat('%s:%s' % (stream, 'ok' if ob.startswith('ok') else 'raises'))
            if out is not None and valid:
                if ob is not None and out[2 * i] != ob:
                    ctx.disagree(stream, dict(inp, op='split', step=k), out[2 * i], ob)
                if of is not None and s and out[2 * i + 1] != of:
                    ctx.disagree(stream, dict(inp, op='first', step=k), out[2 * i + 1], of)
            elif out is not None:
                # malformed input: the property says nothing.  Whatever the implementation ACCEPTS must be what the
                # model yields; an implementation that refuses more (validation up front, another exception class)
                # is not a disagreement.
                if ob is not None and ob.startswith('ok') and out[2 * i] != ob:
                    ctx.disagree(stream, dict(inp, op='split', step=k), out[2 * i], ob)
                if of is not None and s and of.startswith('ok') and out[2 * i + 1] != of:
                    ctx.disagree(stream, dict(inp, op='first', step=k), out[2 * i + 1], of)
            if valid:
                if ob is not None:
                    check_split_oracle(ctx, s, pieces, ob, inp)
                else:
                    check_first_oracle(ctx, s, of, inp)


def obs_nargs_reuse(sig_in, sig_out, sig_sig):
    """Declarations that are not fresh: the same Method / Signal added twice and to a second interface,
    and a second Method whose signatures are those of the first one swapped."""
    from txdbus import interface
    try:
        m = interface.Method('M', arguments=sig_in, returns=sig_out)
        s = interface.Signal('S', sig_sig)
        i1 = interface.DBusInterface('org.verif.C19a', m, s, noRegister=True)
        first = [m.nargs, m.nret, s.nargs]
        i1.addMethod(m)
        i1.addSignal(s)
        m2 = interface.Method('N', arguments=sig_out, returns=sig_in)
        interface.DBusInterface('org.verif.C19b', m, s, m2, noRegister=True)
        return first, [m.nargs, m.nret, s.nargs], [m2.nret, m2.nargs]
    except Exception as e:
        return 'err'


def run_argcount(ctx, marshal, triples):
    lines = []
    for t in triples:
        lines += ['nargs ' + vc.str_hex(x) for x in t]
    out = ctx.model(lines)
    for i, t in enumerate(triples):
        ob = obs_nargs(*t)
        ctx.impl_trace()
        ctx.case('argcount', sample=list(t))
        valid = all(_valid(x) for x in t)
        if out is not None:
            mo = out[3 * i:3 * i + 3]
            mv = [int(x[3:]) for x in mo] if all(x.startswith('ok ') for x in mo) else 'err'
            if mv != canon_err(ob) and (valid or canon_err(ob) != 'err'):
                # (on a malformed signature an implementation that refuses more than the model is tolerated)
                ctx.disagree('argcount', {'op': 'nargs', 'sigs': list(t)}, mv, ob)
        if valid:
            want = [len(parse_all(x)) for x in t]
            again = obs_nargs_reuse(*t)
            if ob != want or again != (want, want, want[:2]):
                _viol(ctx, 'argcount-wrong', 'interface.py counts %r (re-added / shared / swapped: %r) arguments '
                              'for signatures %r' % (ob, again, list(t)),
                              inp={'op': 'nargs', 'sigs': list(t)}, observed=[ob, again], expected=want)


def builtin_only(v):
    for x in walk(v):
        if py_class(x) is None:
            return False
    return True


def typeless_somewhere(v):
    """Some sub-value has no DBus type (an int beyond 64 bits, an empty tuple, a container dict key)."""
    for x in walk(v):
        c = py_class(x)
        if c == 'int' and natural_sig(x) is None:
            return True
        if c == 'tuple' and not len(x):
            return True
        if c == 'dict' and any(py_class(k) in ('list', 'tuple', 'dict', 'bytearray', None) for k in x):
            return True
    return False


def infer_oracle(ctx, marshal, v, ob, inp):
    """S4 for inference on a value built from the supported classes (`ob` = 'ok <hex>' | 'err <Class>')."""
    if not builtin_only(v):
        return
    nat = natural_sig(v)
    if ob.startswith('ok '):
        sig = vc.hex_str(ob[3:])
        # depth > 32 / length > 255 are limits the statement does not mention: not judged here
        if len(sig) <= 255 and max_depth(sig) <= 32 and not is_single(sig):
            _viol(ctx, 'inferred-signature-not-single-complete-type',
                          'sigFromPy gives %r, which is not one complete type' % (sig,),
                          inp=inp, observed=sig, expected='one complete type, or an exception')
        w = wrapper_name(v)
        if w and sig != WRAPPER_SIG[w]:
            _viol(ctx, 'wrapper-selects-wrong-type', '%s instance infers %r' % (w, sig),
                          inp=inp, observed=sig, expected=WRAPPER_SIG[w])
    elif nat is not None and len(nat) <= 255 and max_depth(nat) <= 32 and not typeless_somewhere(v):
        # only values that HAVE a DBus type, throughout, must get a signature (a typeless value may raise)
        _viol(ctx, 'inference-fails-on-supported-value', 'sigFromPy raises %s on a value built from the '
                      'supported classes that has the DBus type %s' % (ob[4:], nat), inp=inp,
                      observed=ob, expected=nat)


def judge_infer(ctx, marshal, stream, v, line, mline, inp):
    """One sigFromPy call: S3 against the driver's answer, S4 by infer_oracle."""
    ob = obs_infer(marshal, v)
    ctx.impl_trace()
    ctx.stat('%s:%s' % (stream, 'raises' if ob.startswith('err') else 'ok'))
    typeless = typeless_somewhere(v) or (builtin_only(v) and natural_sig(v) is None)
    if mline is not None and not typeless and canon_err(mline) != canon_err(ob):
        # (what happens to a value WITHOUT a DBus type - 2**64, a container holding one - is not compared)
        ctx.disagree(stream, inp, mline, ob)
    infer_oracle(ctx, marshal, v, ob, inp)
    return ob


def run_infer(ctx, marshal, values):
    lines = ['infer ' + vc.to_line(v) for v in values]
    out = ctx.model(lines)
    for i, v in enumerate(values):
        ctx.case('infer', sample=lines[i][6:], nontrivial=isinstance(v, (list, tuple, dict)))
        ctx.stat('infer:top=' + type(v).__name__)
        judge_infer(ctx, marshal, 'infer', v, lines[i][6:], out[i] if out is not None else None,
                    {'op': 'infer', 'value': lines[i][6:]})


def judge_roundtrip(ctx, marshal, v, inp, le, off, shrink=True):
    """One variant round trip, implementation alone: the == oracle and, on the marshalled bytes, the wrapper
    clause.  Returns ok (None: outside the claim)."""
    keep = []
    ok, info, exp = roundtrip(marshal, v, le, off, keep)
    if ok is None:
        ctx.stat('roundtrip:outside:' + info)
        return None
    ctx.impl_trace()
    ctx.stat('roundtrip:inside')
    ctx.stat('roundtrip:%s,off=%d' % ('le' if le else 'be', off))
    ctx.stat('roundtrip:inside:top=' + (py_class(v) or '?'))
    if isinstance(v, (list, dict, tuple)):
        ctx.stat('roundtrip:inside:len=%s' % (len(v) if len(v) < 5 else '5..40' if len(v) <= 40 else '40+'))
    if keep:
        wrapper_oracle(ctx, v, keep[0], le, off, dict(inp, le=le, off=off) if not _is_history(inp) else inp)
    if ok is False:
        small, info2, exp2 = v, info, exp
        if shrink:
            small = shrink_roundtrip(marshal, v, le, off)
            ok2, info2, exp2 = roundtrip(marshal, small, le, off)
            if ok2 is not False:
                small, info2, exp2 = v, info, exp
        key = classify_roundtrip_failure(marshal, small, le, off)
        if _is_history(inp):
            sinp = inp
        else:
            try:
                sinp = {'op': 'roundtrip', 'value': vc.to_line(small), 'le': le, 'off': off}
            except ValueError:
                sinp = dict(inp, le=le, off=off)
                small = v
        _viol(ctx, key, 'variant round trip (%s endian, offset %d) of %s: %s'
              % ('little' if le else 'big', off, repr(small)[:120], info2),
              inp=sinp, observed=info2, expected=exp2)
    return ok


def run_roundtrip(ctx, marshal, cases):
    """cases: (value, replayable input, little endian?, start offset)"""
    for v, inp, le, off in cases:
        ok = judge_roundtrip(ctx, marshal, v, inp, le, off)
        ctx.case('variant-roundtrip', sample=inp if ok is not None else None,
                 nontrivial=ok is not None and isinstance(v, (list, tuple, dict)))
        if ok is not None and 'spec' in inp:
            # subclass values have no model side: judge their inference here
            infer_oracle(ctx, marshal, v, obs_infer(marshal, v), inp)


def obs_vrt(marshal, v, le, off):
    """marshal('v', [v], off, le): count and bytes; then unmarshal of those bytes: count and value."""
    try:
        n, chunks = marshal.marshal('v', [v], off, le)
        data = b''.join(chunks)
    except Exception:
        return 'err'
    try:
        n2, out = marshal.unmarshal('v', b'\xaa' * off + data, off, le)
        return 'ok %d %s %d %s' % (n, vc.bytes_hex(data), n2, vc.to_line(out[0]))
    except Exception:
        return 'ok %d %s undecodable' % (n, vc.bytes_hex(data))


def run_wire(ctx, marshal, cases):
    """Correspondence of the code model used by `variant_roundtrip` (Wire/Code.lean: marshal_variant,
    unmarshal_variant and below) with the implementation: the bytes, the counts, the decoded value.
    Only whether marshal raises is compared when it raises (values outside the claim)."""
    cases = [(v, le, off) for v, le, off in cases]
    lines = ['vrt %d %d %s' % (1 if le else 0, off, vc.to_line(v)) for v, le, off in cases]
    out = ctx.model(lines)
    for i, (v, le, off) in enumerate(cases):
        ob = obs_vrt(marshal, v, le, off)
        ctx.impl_trace()
        ctx.case('variant-wire', sample=lines[i], nontrivial=isinstance(v, (list, tuple, dict)))
        ctx.stat('variant-wire:' + ob.split(' ')[0])
        if out is not None and out[i] != ob:
            ctx.disagree('variant-wire', {'op': 'wire', 'value': lines[i][4:]}, out[i][:300], ob[:300])


# =====================================================================================================
# histories: LATER uses inside one process
# =====================================================================================================
# steps (JSON-able; a history is {'shape': ..., 'steps': [...]}):
#   {'do': 'split' | 'first', 'sig': s}          list(genCompleteTypes(s)) | one next() on a fresh generator, abandoned
#   {'do': 'take', 'sig': s, 'k': k}             k pieces taken from a fresh generator, which is then abandoned
#   {'do': 'nargs', 'sigs': [in, out, signal]}   Method / Signal declared on a fresh interface
#   {'do': 'new', 'slot': a, 'value': line}      the slot is emptied, then bound to a freshly built value
#   {'do': 'mut', 'slot': a, 'at': [key lines], 'op': 'append'|'setitem'|'delitem'|'pop'|'clear', 'key': line, 'arg': line}
#   {'do': 'infer' | 'rt', 'slot': a | 'value': line, 'le': bool, 'off': n, 'line': snapshot of the value at this step}
_TOKENS = itertools.count()


def fresh_tok():
    return 't%d' % next(_TOKENS)


def apply_mut(root, st):
    c = root
    for k in st.get('at', []):
        c = c[vc.from_line(k)]
    op = st['op']
    if op == 'append':
        c.append(vc.from_line(st['arg']))
    elif op == 'setitem':
        c[vc.from_line(st['key'])] = vc.from_line(st['arg'])
    elif op == 'delitem':
        del c[vc.from_line(st['key'])]
    elif op == 'pop':
        c.pop()
    elif op == 'clear':
        c.clear()
    else:
        raise ValueError(op)


class HB:
    """History builder: performs the mutations on real Python values while the history is written down, so that
    every check step carries the line of the value as it is at that step (the model's input)."""

    def __init__(self, shape):
        self.shape = shape
        self.steps = []
        self.slots = {}
        self.n = 0

    def combo(self):
        self.n += 1
        return [(True, 0), (False, 0), (True, 3), (False, 5), (True, 7), (False, 2)][self.n % 6]

    def new(self, slot, v):
        line = vc.to_line(v)
        self.slots[slot] = vc.from_line(line)
        self.steps.append({'do': 'new', 'slot': slot, 'value': line})

    def mut(self, slot, op, at=(), key=None, arg=None):
        st = {'do': 'mut', 'slot': slot, 'op': op}
        if at:
            st['at'] = [vc.to_line(k) for k in at]
        if op in ('setitem', 'delitem'):
            st['key'] = vc.to_line(key)
        if op in ('append', 'setitem'):
            st['arg'] = vc.to_line(arg)
        apply_mut(self.slots[slot], st)
        self.steps.append(st)

    def check(self, slot, kinds=('infer', 'rt')):
        line = vc.to_line(self.slots[slot])
        for do in kinds:
            le, off = self.combo()
            self.steps.append({'do': do, 'slot': slot, 'le': le, 'off': off, 'line': line})

    def temp(self, v, kinds=('rt',)):
        line = vc.to_line(v)
        for do in kinds:
            le, off = self.combo()
            self.steps.append({'do': do, 'value': line, 'le': le, 'off': off})

    def done(self):
        return {'shape': self.shape, 'steps': self.steps}


# ---- split histories
def fresh_types(rng, taken, n=None):
    """>= 2 complete types whose concatenation S was not used before, neither on its own nor as the tail of an
    earlier one (the array branch of the splitter calls itself on tails)"""
    while True:
        k = n or rng.choice([2, 2, 3, 3, 4, 6])
        ts = [rand_type(rng, rng.choice([1, 1, 2, 4, 9])) for _ in range(k)]
        if len(''.join(ts)) < 5:
            ts.append(''.join(rng.choice(BASIC) for _ in range(5)))        # a run of leaves makes it unique
        S = ''.join(ts)
        if len(S) <= 200 and _valid(S) and S not in taken:
            for i in range(len(S) - 1):
                taken.add(S[i:])
            return parse_all(S)


def split_histories(rng, n):
    taken = set()
    out = []
    shapes = ['long-first', 'first-before-split', 'partial-then-full', 'short-first', 'dict-and-struct',
              'argcount', 'long-first-lazy']
    for i in range(n):
        shape = shapes[i % len(shapes)]
        ts = fresh_types(rng, taken)
        S = ''.join(ts)
        X = ''.join(rng.choice(LEAVES) for _ in range(rng.choice([0, 0, 1, 2])))
        A = 'a' * rng.choice([1, 1, 1, 2])
        long_ = X + A + S
        sp = lambda x: {'do': 'split', 'sig': x}
        fi = lambda x: {'do': 'first', 'sig': x}
        tk = lambda x, k: {'do': 'take', 'sig': x, 'k': k}
        wrapped = ['(' + S + ')', 'a(' + S + ')', 'a{s(' + S + ')}', S + S[:1], 'a' + S]
        if shape == 'long-first':           # the array branch of the splitter takes ONE next() from the rest S
            steps = [sp(long_), sp(S), fi(S)] + [sp(w) for w in wrapped] + [sp(long_), sp(S)]
        elif shape == 'long-first-lazy':
            steps = [fi(long_), tk(long_, len(X) + 1), sp(S), sp(long_), sp(S[1:]) if _valid(S[1:]) else sp(S), sp(S)]
        elif shape == 'first-before-split':
            steps = [fi(S), sp(S), fi(long_), sp(long_), fi(S), sp(S)] + [fi(w) for w in wrapped[:3]] + [sp(w) for w in wrapped[:3]]
        elif shape == 'partial-then-full':
            k = rng.randint(1, len(ts) - 1)
            steps = [tk(S, k), sp(S), tk(S, 1), sp(S), tk(long_, 1), sp(long_), sp(S), tk(S, len(ts)), sp(S)]
        elif shape == 'short-first':
            steps = [sp(S), sp(long_), sp(S), fi(long_), sp(long_)] + [sp(w) for w in wrapped[:2]] + [sp(S)]
        elif shape == 'dict-and-struct':
            d = 'a{' + rng.choice(BASIC) + ts[0] + '}'
            steps = [sp(d + S), sp(S), sp('(' + d + S + ')'), sp(d + S), sp(ts[0] + S), sp(S), sp(d)]
        else:
            steps = [{'do': 'nargs', 'sigs': [long_, S, S]}, {'do': 'nargs', 'sigs': [S, long_, 'a(' + S + ')']},
                     sp(S), {'do': 'nargs', 'sigs': [S, S, long_]}, sp(long_)]
        out.append({'shape': shape, 'steps': steps})
    return out


# ---- values that are equal (and hash alike) but differ in class
def ladder_families(m):
    Y, B, I16, U16, I32, U32, I64, U64 = (m.Byte, m.Boolean, m.Int16, m.UInt16, m.Int32, m.UInt32, m.Int64, m.UInt64)
    OP, SG = m.ObjectPath, m.Signature
    return [
        ('1', [1, True, 1.0, Y(1), U32(1), I64(1), B(1), I16(1), U16(1), U64(1), I32(1)]),
        ('0', [0, False, 0.0, -0.0, Y(0), B(0), I64(0), U16(0)]),
        ('200', [200, 200.0, Y(200), U16(200), I16(200), U32(200)]),
        ('300', [300, Y(300), 300.0, U16(300), I16(300)]),                  # Byte(300) does not fit: it only poisons
        ('-3', [-3, -3.0, I16(-3), I64(-3), I32(-3), U32(-3)]),
        ('70000', [70000, 70000.0, U32(70000), I32(70000), I64(70000), U16(70000)]),
        ('2^31', [2 ** 31, float(2 ** 31), U32(2 ** 31), I64(2 ** 31), I32(2 ** 31)]),
        ('2^40', [2 ** 40, float(2 ** 40), I64(2 ** 40), U64(2 ** 40), I32(2 ** 40)]),
        ('/a', ['/a', OP('/a'), SG('/a')]),
        ('/', ['/', OP('/'), SG('/')]),
        ('i', ['i', SG('i'), OP('i')]),
        ('ai', ['ai', SG('ai'), OP('ai')]),
        ('empty', ['', SG(''), OP('')]),
    ]


CONTEXTS = [
    ('bare', lambda x, t: x),
    ('tuple1', lambda x, t: (x,)),
    ('pair', lambda x, t: (x, t)),
    ('pair-rev', lambda x, t: (t, x)),
    ('nested-tuple', lambda x, t: ((x,), t)),
    ('list-of-tuples', lambda x, t: [(x, t)]),
    ('dict-value', lambda x, t: {t: x}),
    ('dict-of-tuple', lambda x, t: {t: (x,)}),
    ('dict-key', lambda x, t: {x: t}),
    ('list1', lambda x, t: [x]),
    ('list2', lambda x, t: [x, x]),
    ('tuple-of-list', lambda x, t: ([x], t)),
    ('list-mixed', lambda x, t: [x, t]),
]


def ladder_histories(m, rng, per_family=None):
    """every rotation of every family inside every context (per_family: the four containers without a token and
    that many of the others, drawn per family)"""
    out = []
    plain = [c for c in CONTEXTS if c[0] in ('bare', 'tuple1', 'list1', 'list2')]
    for fam, xs in ladder_families(m):
        ctxs = CONTEXTS if per_family is None else plain + rng.sample([c for c in CONTEXTS if c not in plain], per_family)
        for cname, mk in ctxs:
            for r in range(len(xs)):
                order = xs[r:] + xs[:r]
                t = fresh_tok()
                hb = HB('ladder:' + cname)
                for x in order:
                    hb.temp(mk(x, t), ('rt',) if r % 2 else ('infer', 'rt'))
                for x in order[:3]:
                    hb.temp(mk(x, t), ('infer', 'rt'))
                out.append(hb.done())
    return out


# ---- live values mutated in place; a failing value, then a repaired one
def mutation_histories(m):
    Y, U64, OP = m.Byte, m.UInt64, m.ObjectPath
    out = []

    def script(name, f):
        hb = HB('script:' + name)
        f(hb, fresh_tok())
        out.append(hb.done())

    def grow_foreign(h, t):          # [1, 2] -> [1, 2, 's'] -> [1, 2] -> [True, 2] -> [7, 2]
        h.new('a', [1, 2]); h.check('a')
        h.mut('a', 'append', arg=t); h.check('a')
        h.mut('a', 'pop'); h.check('a')
        h.mut('a', 'setitem', key=0, arg=True); h.check('a')
        h.mut('a', 'setitem', key=0, arg=7); h.check('a')
    script('list-grows-a-foreign-element', grow_foreign)

    def first_changes(h, t):         # the first element decides: replace it by another class, then by a wrapper
        h.new('a', [1, 2, 3]); h.check('a')
        h.mut('a', 'setitem', key=0, arg=t); h.check('a')
        h.mut('a', 'setitem', key=1, arg=t + 'x'); h.mut('a', 'setitem', key=2, arg=''); h.check('a')
        h.mut('a', 'clear'); h.check('a')
        h.mut('a', 'append', arg=Y(5)); h.check('a')
        h.mut('a', 'append', arg=Y(6)); h.check('a')
        h.mut('a', 'setitem', key=0, arg=5); h.check('a')
    script('first-element-changes-class', first_changes)

    def dict_grows(h, t):
        h.new('d', {t: 1}); h.check('d')
        h.mut('d', 'setitem', key=t + 'b', arg='x'); h.check('d')
        h.mut('d', 'delitem', key=t + 'b'); h.check('d')
        h.mut('d', 'setitem', key=t, arg=True); h.check('d')
        h.mut('d', 'setitem', key=t + 'c', arg=False); h.check('d')
        h.mut('d', 'clear'); h.check('d')
        h.mut('d', 'setitem', key=5, arg=U64(9)); h.check('d')
    script('dict-grows-and-shrinks', dict_grows)

    def inner_list(h, t):            # a tuple cannot change, the list inside it can
        h.new('s', ([1], t)); h.check('s')
        h.mut('s', 'append', at=[0], arg=t); h.check('s')
        h.mut('s', 'pop', at=[0]); h.check('s')
        h.mut('s', 'setitem', at=[0], key=0, arg=1.5); h.check('s')
        h.new('s', ([1], t)); h.check('s')
    script('list-inside-a-tuple', inner_list)

    def no_type_then_repaired(h, t):  # fail (no DBus type) / succeed on the SAME object
        h.new('a', [(), 1]); h.check('a')
        h.mut('a', 'setitem', key=0, arg=(1,)); h.check('a')
        h.mut('a', 'setitem', key=1, arg=(2,)); h.check('a')
        h.new('b', [[()], [t]]); h.check('b')
        h.mut('b', 'setitem', at=[0], key=0, arg=t); h.check('b')
        h.new('d', {(1, 2): t}); h.check('d')
        h.mut('d', 'delitem', key=(1, 2)); h.mut('d', 'setitem', key=t, arg=t); h.check('d')
        h.new('e', {t: {'k': ()}}); h.check('e')
        h.mut('e', 'setitem', at=[t], key='k', arg=(t,)); h.check('e')
    script('no-type-then-repaired', no_type_then_repaired)

    def out_of_range_then_repaired(h, t):
        h.new('a', [Y(5), Y(6)]); h.check('a')
        h.mut('a', 'setitem', key=1, arg=Y(300)); h.check('a')
        h.mut('a', 'setitem', key=1, arg=Y(7)); h.check('a')
        h.new('s', (Y(300), t)); h.check('s')
        h.new('s', (Y(44), t)); h.check('s')
        h.new('s', (300, t)); h.check('s')
        h.new('p', [OP('bad'), OP('/' + t)]); h.check('p')
        h.mut('p', 'setitem', key=0, arg=OP('/good')); h.check('p')
        h.new('q', {t: 2 ** 70}); h.check('q')
        h.mut('q', 'setitem', key=t, arg=2 ** 60); h.check('q')
    script('out-of-range-then-repaired', out_of_range_then_repaired)

    def rebind(h, t):                # a dropped object and a new one of another type of the same size
        h.new('a', [1, 2]); h.check('a')
        h.new('a', [t, t]); h.check('a')
        h.new('a', [1.5, 2.5]); h.check('a')
        h.new('d', {t: 1}); h.check('d')
        h.new('d', {t: t}); h.check('d')
        h.new('s', (1, t)); h.check('s')
        h.new('s', (True, t)); h.check('s')
        h.new('s', (Y(1), t)); h.check('s')
        for k in range(4):
            h.temp([k, k + 1]); h.temp([t, t]); h.temp({t: k}); h.temp({t: [k]})
    script('rebound-and-temporary-values', rebind)

    def bytearray_grows(h, t):
        h.new('b', bytearray(b'ab')); h.check('b')
        h.mut('b', 'append', arg=255); h.check('b')
        h.mut('b', 'clear'); h.check('b')
        h.new('l', [bytearray(b'x'), bytearray()]); h.check('l')
        h.mut('l', 'append', at=[1], arg=7); h.check('l')
        h.mut('l', 'setitem', key=0, arg=[120]); h.check('l')
    script('bytearray', bytearray_grows)

    def nested_dict(h, t):
        h.new('d', {t: {'x': [1, 2]}, t + 'b': {'y': [3]}}); h.check('d')
        h.mut('d', 'append', at=[t, 'x'], arg=t); h.check('d')
        h.mut('d', 'setitem', at=[t + 'b'], key='y', arg=t); h.check('d')
        h.mut('d', 'delitem', key=t + 'b'); h.check('d')
        h.mut('d', 'pop', at=[t, 'x']); h.check('d')
    script('nested-dict', nested_dict)
    return out


def _containers(v, path=()):
    """paths (tuples of keys) to every list / dict / bytearray reachable inside v"""
    out = []
    if isinstance(v, (list, dict, bytearray)):
        out.append(path)
    if isinstance(v, (list, tuple)):
        for i, e in enumerate(v):
            out += _containers(e, path + (i,))
    elif isinstance(v, dict):
        for k, e in v.items():
            out += _containers(e, path + (k,))
    return out


def _at(v, path):
    for k in path:
        v = v[k]
    return v


def random_walk(rng, m):
    """a generated container, then 4..12 random in-place edits (also of inner containers), checked after each"""
    while True:
        v = g_any(rng, m, rng.choice([1, 2, 2, 3]), exotic=False)
        if isinstance(v, (list, dict)) or (isinstance(v, tuple) and _containers(v)):
            try:
                vc.to_line(v)
                break
            except ValueError:
                pass
    hb = HB('random-walk')
    hb.new('a', v)
    hb.check('a')
    for _ in range(rng.randint(4, 12)):
        root = hb.slots['a']
        paths = _containers(root)
        if not paths or rng.random() < 0.12:
            hb.new('a', g_like(rng, m, root, 2, False) if rng.random() < 0.7 else [g_scalar(rng, m)])
            hb.check('a')
            continue
        path = rng.choice(paths)
        c = _at(root, path)
        try:
            if isinstance(c, bytearray):
                if c and rng.random() < 0.4:
                    hb.mut('a', 'pop', at=path)
                else:
                    hb.mut('a', 'append', at=path, arg=rng.randrange(256))
            elif isinstance(c, list):
                r = rng.random()
                like = (lambda: g_like(rng, m, c[0], 1, False)) if c and rng.random() < 0.7 else (lambda: g_any(rng, m, 1, False))
                if r < 0.4 or not c:
                    hb.mut('a', 'append', at=path, arg=like())
                elif r < 0.75:
                    hb.mut('a', 'setitem', at=path, key=rng.randrange(len(c)), arg=like())
                elif r < 0.95:
                    hb.mut('a', 'pop', at=path)
                else:
                    hb.mut('a', 'clear', at=path)
            else:
                r = rng.random()
                keys = list(c)
                if r < 0.45 or not keys:
                    k0 = g_like_key(rng, m, keys[0]) if keys and rng.random() < 0.8 else g_key(rng, m)
                    x0 = g_like(rng, m, c[keys[0]], 1, False) if keys and rng.random() < 0.7 else g_any(rng, m, 1, False)
                    hb.mut('a', 'setitem', at=path, key=k0, arg=x0)
                elif r < 0.75:
                    hb.mut('a', 'setitem', at=path, key=rng.choice(keys), arg=g_any(rng, m, 1, False))
                elif r < 0.95:
                    hb.mut('a', 'delitem', at=path, key=rng.choice(keys))
                else:
                    hb.mut('a', 'clear', at=path)
        except ValueError:
            continue            # something outside the line syntax was generated: skip this edit
        hb.check('a')
    return hb.done()


# ---- running a history
def history_lines(h):
    lines = []
    for st in h['steps']:
        do = st['do']
        if do in ('split', 'take'):
            lines.append('split ' + vc.str_hex(st['sig']))
        elif do == 'first':
            lines.append('first ' + vc.str_hex(st['sig']))
        elif do == 'nargs':
            lines += ['nargs ' + vc.str_hex(x) for x in st['sigs']]
        elif do == 'infer':
            lines.append('infer ' + (st.get('line') or st['value']))
        elif do == 'rt':
            lines.append('vrt %d %d %s' % (1 if st['le'] else 0, st['off'], st.get('line') or st['value']))
    return lines


def obs_take(marshal, sig, k):
    ps = []
    try:
        g = marshal.genCompleteTypes(sig)
        for _ in range(k):
            ps.append(next(g))
    except StopIteration:
        pass
    except Exception as e:
        return 'err %s %s' % (type(e).__name__, hexes(ps)), None
    return 'ok ' + hexes(ps), ps


def run_histories(ctx, marshal, stream, hists):
    """Every step: S3 against the driver's answer for that operation alone (the models have no memory), S4 by the
    oracle of the operation.  The replay input of a step is the history up to and including it."""
    lines = list(dict.fromkeys(ln for h in hists for ln in history_lines(h)))
    out = ctx.model(lines)
    mget = dict(zip(lines, out)) if out is not None else {}
    log = ctx.__dict__.setdefault('_c19_log', [])
    for h in hists:
        steps = h['steps']
        slots = {}
        ctx.stat('%s:shape=%s' % (stream, h['shape']))
        log.append(steps)
        for k, st in enumerate(steps):
            do = st['do']
            inp = {'op': 'history', 'steps': steps[:k + 1]}
            ctx.__dict__['_c19_pos'] = (len(log) - 1, k)
            if do == 'new':
                slots[st['slot']] = None              # the old value is dropped before the new one is built
                slots[st['slot']] = vc.from_line(st['value'])
                continue
            if do == 'mut':
                apply_mut(slots[st['slot']], st)
                ctx.stat('%s:mutation=%s' % (stream, st['op']))
                continue
            ctx.stat('%s:%s' % (stream, do))
            if do in ('split', 'first', 'take'):
                s = st['sig']
                valid = _valid(s)
                ctx.case(stream, sample=st, nontrivial=len(s) > 1)
                ctx.impl_trace()
                msplit = mget.get('split ' + vc.str_hex(s))
                if do == 'split':
                    ob, pieces = obs_split(marshal, s)
                    if msplit is not None and (msplit != ob if valid else (ob.startswith('ok') and msplit != ob)):
                        ctx.disagree(stream, inp, msplit, ob)
                    if valid:
                        check_split_oracle(ctx, s, pieces, ob, inp)
                elif do == 'first':
                    of = obs_first(marshal, s)
                    mf = mget.get('first ' + vc.str_hex(s))
                    if mf is not None and s and (mf != of if valid else (of.startswith('ok') and mf != of)):
                        ctx.disagree(stream, inp, mf, of)
                    if valid:
                        check_first_oracle(ctx, s, of, inp)
                else:
                    ob, pieces = obs_take(marshal, s, st['k'])
                    if valid:
                        want = parse_all(s)[:st['k']]
                        if msplit is not None and msplit.startswith('ok '):
                            mp = [vc.hex_str(x) for x in msplit.split(' ')[2:]][:st['k']]
                            if mp != pieces:
                                ctx.disagree(stream, inp, mp, ob)
                        if pieces != want:
                            _viol(ctx, 'split-wrong-decomposition',
                                  'the first %d pieces of genCompleteTypes(%r) are not its first complete types'
                                  % (st['k'], s), inp=inp, observed=ob, expected=want)
                continue
            if do == 'nargs':
                t = tuple(st['sigs'])
                ctx.case(stream, sample=st)
                ctx.impl_trace()
                ob = obs_nargs(*t)
                valid = all(_valid(x) for x in t)
                mo = [mget.get('nargs ' + vc.str_hex(x)) for x in t]
                if None not in mo:
                    mv = [int(x[3:]) for x in mo] if all(x.startswith('ok ') for x in mo) else 'err'
                    if mv != canon_err(ob) and (valid or canon_err(ob) != 'err'):
                        ctx.disagree(stream, inp, mv, ob)
                if valid:
                    want = [len(parse_all(x)) for x in t]
                    if ob != want:
                        _viol(ctx, 'argcount-wrong', 'interface.py counts %r arguments for signatures %r'
                              % (ob, list(t)), inp=inp, observed=ob, expected=want)
                continue
            # infer / rt
            v = slots[st['slot']] if 'slot' in st else vc.from_line(st['value'])
            line = st.get('line') or st['value']
            if 'slot' in st and vc.to_line(v) != line:
                raise RuntimeError('history out of step at %d: %s != %s' % (k, vc.to_line(v), line))
            ctx.case(stream, sample={'do': do, 'value': line, 'le': st.get('le'), 'off': st.get('off'),
                                     'later': 'slot' in st},
                     nontrivial=isinstance(v, (list, tuple, dict)))
            if do == 'infer':
                judge_infer(ctx, marshal, stream, v, line, mget.get('infer ' + line), inp)
            else:
                le, off = st['le'], st['off']
                judge_roundtrip(ctx, marshal, v, inp, le, off, shrink=False)
                ml = mget.get('vrt %d %d %s' % (1 if le else 0, off, line))
                if ml is not None:
                    ob = obs_vrt(marshal, v, le, off)
                    if ml != ob:
                        ctx.disagree(stream, inp, ml[:300], ob[:300])


def _reproduces(ctx, inp, key):
    """Does a FRESH process report `key` on this replay input alone?  (Only called for reported violations.)"""
    verif = os.path.dirname(os.path.dirname(os.path.abspath(__file__)))
    code = ('import sys, json\n'
            'sys.path.insert(0, %r)\n'
            'from vlib import ctx as C\n'
            'C.use_repo(%r)\n'
            'import harness.c19 as h\n'
            'c = C.Ctx("C19", "quick", 0, %r)\n'
            'c.model_available = False\n'
            'h.replay(c, {"input": json.loads(sys.stdin.read())})\n'
            'print("KEYS " + json.dumps([v["key"] for v in c.violations]))\n') % (verif, ctx.repo, ctx.repo)
    try:
        p = subprocess.run([sys.executable, '-c', code], input=json.dumps(inp).encode('utf-8'),
                           stdout=subprocess.PIPE, stderr=subprocess.PIPE, timeout=30)
        for ln in p.stdout.decode('utf-8', 'replace').splitlines():
            if ln.startswith('KEYS '):
                return key in json.loads(ln[5:])
    except Exception:
        pass
    return True             # could not tell: leave the exemplar as it is


def settle(ctx):
    """ctx.violation keeps the SMALLEST input per key, and a single case is smaller than a history.  A defect that
    needs an earlier operation does not show when that input is replayed in a fresh process.  For every key that
    was seen inside a history: try the exemplar in a fresh process; when it does not reproduce fall back to the
    smallest history that showed it on an object the history keeps alive (object identity cannot differ in the
    replay), the smallest history (steps 0..k), the first one, then that one preceded by the histories
    that ran before it in this process (a leak may cross histories; the latest sufficient start is found by
    bisection) - the first candidate that reproduces in a fresh process becomes the replay input."""
    hist = getattr(ctx, '_c19_hist', {})
    log = getattr(ctx, '_c19_log', [])
    deadline = time.time() + 40                 # fresh processes cost time: only in runs that report something

    def fresh_run(ctx, inp, key):
        if time.time() > deadline:
            ctx.stat('settle:out-of-time')
            return False
        return _reproduces(ctx, inp, key)

    for v in ctx.violations:
        rec = hist.get(v['key'])
        if rec is None or time.time() > deadline or fresh_run(ctx, v['input'], v['key']):
            continue
        cands = [c for c in (rec['live'], rec['smallest'], rec['first']) if c is not None]
        pos = rec['first'].get('pos')

        def combined(lo):
            hi, k = pos
            steps = [st for h in log[lo:hi] for st in h] + log[hi][:k + 1]
            return dict(rec['first'], input={'op': 'history', 'steps': steps})
        chosen = None
        for c in cands:
            if c['input'] is not v['input'] and fresh_run(ctx, c['input'], v['key']):
                chosen = c
                break
        if chosen is None and pos and pos[0] > 0 and fresh_run(ctx, combined(0)['input'], v['key']):
            lo, hi = 0, pos[0]              # the latest start from which the histories still lead to the failure
            while hi - lo > 1:
                mid = (lo + hi) // 2
                if fresh_run(ctx, combined(mid)['input'], v['key']):
                    lo = mid
                else:
                    hi = mid
            chosen = combined(lo)
            both = dict(rec['first'], input={'op': 'history', 'steps': log[lo] + log[pos[0]][:pos[1] + 1]})
            if fresh_run(ctx, both['input'], v['key']):       # the history that starts it + the one that fails
                chosen = both
        if chosen is None:
            ctx.stat('exemplar-not-reproducible-in-a-fresh-process')
            continue
        v.update(input=chosen['input'], observed=chosen['observed'], expected=chosen['expected'],
                 what=chosen['what'] + ' - at the last step of the stored history (the case alone, in a fresh '
                                       'process, does not show it)')
        ctx.stat('exemplar-replaced-by-history')


def run_case(ctx, marshal, case):
    op = case.get('op')
    if op == 'history':
        steps = case['steps']
        stream = 'split-history' if steps and steps[0]['do'] in ('split', 'first', 'take', 'nargs') else 'infer-history'
        run_histories(ctx, marshal, stream, [{'shape': 'replay', 'steps': steps}])
    elif op in ('split', 'first'):
        s = case['sig']
        run_split(ctx, marshal, 'split-enumerated' if _valid(s) else 'split-malformed', [s], _valid(s),
                  case.get('pattern'))
    elif op == 'nargs':
        run_argcount(ctx, marshal, [tuple(case['sigs'])])
    elif op == 'infer':
        run_infer(ctx, marshal, [vc.from_line(case['value'])])
    elif op == 'wire':
        toks = case['value'].split()
        run_wire(ctx, marshal, [(vc.from_line(' '.join(toks[2:])), toks[0] == '1', int(toks[1]))])
    elif op == 'roundtrip':
        if 'spec' in case:
            v = build_x(case['spec'])
            inp = {'op': 'roundtrip', 'spec': case['spec']}
        else:
            v = vc.from_line(case['value'])
            inp = {'op': 'roundtrip', 'value': case['value']}
            run_infer(ctx, marshal, [v])
        if 'spec' not in case:
            run_wire(ctx, marshal, [(v, True, 0), (v, False, 5)])
        if 'le' in case:
            combos = [(bool(case['le']), int(case.get('off', 0)))]
        else:
            combos = [(True, 0), (False, 0), (True, 3), (False, 5)]
        run_roundtrip(ctx, marshal, [(v, inp, le, off) for le, off in combos])


def run(ctx):
    from txdbus import marshal
    rng = ctx.rng
    thorough = ctx.tier != 'quick'

    corpus = ctx.corpus()
    for name, case in corpus:
        if case.get('op') == 'history':
            run_case(ctx, marshal, case)

    # ---- histories, before anything else has been split or inferred in this process
    n = ctx.scale(quick=350, thorough=6000)
    run_histories(ctx, marshal, 'split-history', split_histories(rng, n))
    n = ctx.scale(quick=120, thorough=3000)
    run_histories(ctx, marshal, 'infer-history',
                  ladder_histories(marshal, rng, None if thorough or ctx.widen else 4) + mutation_histories(marshal)
                  + [random_walk(rng, marshal) for _ in range(n)])

    for name, case in corpus:
        if case.get('op') != 'history':
            run_case(ctx, marshal, case)

    # ---- splitter
    nlen = 8 if thorough else 7
    # longest first, over leaves of its own: when a signature of this pass is split, none of its suffixes has
    # been split on its own yet (the pass below goes shortest first)
    desc = sorted(enum_sigs(nlen - 1, 'ub', 'd'), key=lambda x: -len(x))
    run_split(ctx, marshal, 'split-enumerated', desc, True)
    ctx.stat('split-enumerated:longest-first', len(desc))
    sigs = enum_sigs(nlen, 'is', 'v')
    seen = set(sigs)
    sigs += [s for s in enum_sigs(5 if thorough else 3, BASIC, 'v') if s not in seen]
    if ctx.widen and not thorough:
        seen = set(sigs)
        sigs += [s for s in enum_sigs(8, 'i', 'v') if s not in seen]
    run_split(ctx, marshal, 'split-enumerated', sigs, True, patterns=('fs', 'sf'))
    ctx.exhaustive = True
    ctx.note('split-enumerated: %d signatures = every valid signature of length <= %d over leaves {i,s,v} and of '
             'length <= %d over all 14 leaf codes' % (len(sigs), nlen, 5 if thorough else 3))

    n = ctx.scale(quick=3000, thorough=40000)
    rsigs = [rand_sig(rng) for _ in range(n)]
    run_split(ctx, marshal, 'split-random', rsigs, True)
    for s in rsigs:
        ctx.stat('split-random:depth=%d' % max_depth(s))

    n = ctx.scale(quick=6000, thorough=80000)
    pool = sigs[:4000] + rsigs[:2000]
    bad = []
    while len(bad) < n:
        s = malformed(rng, rng.choice(pool))
        if len(s) <= 300:
            bad.append(s)
    run_split(ctx, marshal, 'split-malformed', [s for s in bad if not _valid(s)], False)

    n = ctx.scale(quick=1200, thorough=15000)
    triples = []
    for _ in range(n):
        r = rng.random()
        pick = (lambda: rng.choice(sigs)) if r < 0.5 else (lambda: rand_sig(rng))
        t = [pick(), pick(), pick()]
        if rng.random() < 0.15:
            t[1] = t[0]                      # equal in / out signatures
        if rng.random() < 0.1:
            t[rng.randrange(3)] = malformed(rng, rng.choice(pool))
        triples.append(tuple(t))
    run_argcount(ctx, marshal, triples)

    # ---- inference and variant round trip
    fixed = fixed_values(marshal)
    n = ctx.scale(quick=9000, thorough=150000)
    vals = list(fixed)
    for i in range(n):
        r = i % 10
        if r == 0:
            vals.append(g_big(rng, marshal))
        elif r == 1:
            vals.append(g_deep(rng, marshal, rng.randint(4, 8)))
        else:
            vals.append(g_any(rng, marshal, rng.choice([0, 1, 2, 2, 3, 4]), exotic=True))
    run_infer(ctx, marshal, vals)

    n = ctx.scale(quick=12000, thorough=200000)
    cases = []
    combos = [(le, off) for le in (True, False) for off in range(8)]
    for k, v in enumerate(fixed):
        for le, off in [(True, 0), (False, 0), combos[k % 16]]:
            cases.append((v, {'op': 'roundtrip', 'value': vc.to_line(v)}, le, off))
    for i in range(n):
        r = i % 10
        le, off = rng.choice(combos) if rng.random() < 0.8 else (True, 0)
        if r == 0:
            v = g_big(rng, marshal)
        elif r == 1:
            v = g_deep(rng, marshal, rng.randint(4, 8))
        elif r == 2:
            spec = g_xspec(rng, marshal, 2)
            cases.append((build_x(spec), {'op': 'roundtrip', 'spec': spec}, le, off))
            continue
        else:
            v = g_any(rng, marshal, rng.choice([0, 1, 2, 2, 3, 3, 4]), exotic=False)
        cases.append((v, {'op': 'roundtrip', 'value': vc.to_line(v)}, le, off))
    run_roundtrip(ctx, marshal, cases)

    # the same values (those inside the line syntax) through the code model of marshal / unmarshal
    wire = [(v, le, off) for v, inp, le, off in cases if 'value' in inp]
    run_wire(ctx, marshal, wire[:ctx.scale(quick=8000, thorough=120000)])
    settle(ctx)


def max_depth(s):
    d = m = 0
    run_a = 0
    for c in s:
        if c in '({':
            d += 1
        elif c in ')}':
            d -= 1
        if c == 'a':
            run_a += 1
        else:
            run_a = 0
        m = max(m, d, run_a)
    return m


def replay(ctx, data):
    from txdbus import marshal
    run_case(ctx, marshal, data['input'])
