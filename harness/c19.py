"""C19 - Signatures split into complete types; inferred variant types always encode.
Correspondence + oracle harness.

Model side: lean/Driver/C19.lean (ops split / first / nargs / infer) over Sig/Split.lean and Wire/Infer.lean.
Implementation side: txdbus.marshal.genCompleteTypes, sigFromPy, marshal/unmarshal of a variant,
txdbus.interface.DBusInterface.addMethod/addSignal (argument counting).

Oracles (implementation alone, written from the property statement and the DBus grammar, not from the model):
  * splitting a VALID signature: the pieces concatenate to the input and each piece is exactly one complete
    type according to `parse_one` (an independent recursive-descent parser of the DBus grammar);
  * argument counting: nargs / nret / signal nargs = number of complete types of that parse;
  * inference on values built from bool, int, float, str, bytearray, wrappers, list, tuple, dict: the result is
    one complete type; a wrapper instance selects exactly its DBus type (table WRAPPER_SIG from the class docs);
  * variant round trip for values INSIDE the claim (`expect`): marshal('v', [v], offset, endianness) then
    unmarshal at the same offset gives a value equal (Python ==) to v after the documented normalisation
    (tuple -> list, bytearray -> list of ints), in both byte orders and at start offsets 0..7.
    `expect` raises Outside for everything the statement leaves out: containers whose elements have the same
    Python class but where a later element does not conform to the first element's DBus type, values without
    a DBus type (scalars beyond 64 bits, empty tuples, container dict keys), dict keys of more than one DBus
    type (DBus has no variant keys), NaN (NaN != NaN), strings DBus cannot carry (NUL, invalid object path /
    signature).  Elements of DIFFERENT Python classes (subclasses included) are inside: they must travel as
    variants (ruling on review item 2, fixes/C19-02).
  * exceptions on malformed signatures and on values without a DBus type are compared only as "raises":
    which exception class (and how many pieces a lazy consumer saw first) is not part of the property.
"""
import json
import re

from harness import valcodec as vc

STREAMS = ['split-enumerated', 'split-random', 'split-malformed', 'argcount', 'infer', 'variant-wire']
THEOREMS = ['split_render', 'split_render_lazy', 'split_first', 'split_concat', 'split_each_complete',
            'split_count', 'render_injective', 'decomposition_unique', 'split_agrees_with_grammar',
            'argcount_eq_types', 'infer_single_complete_type', 'infer_splits_into_one', 'infer_fails_iff',
            'infer_valid_type', 'no_type_no_signature', 'wrapper_selects_type',
            'wrapper_table_matches_source', 'int_rule_matches_source', 'probes_match_model', 'plain_int_rule',
            'prefix_model_f28_infers_i', 'prefix_model_dict_value_from_last',
            'prefix_model_subclass_under_base_type', 'prefix_model_invalid_signatures',
            'variant_roundtrip_partial', 'variant_roundtrip', 'variant_roundtrip_conforming',
            'prefix_inferred_types_do_not_fit']
TRUSTED_BASE = [
    'Python semantics mirrored by hand in Sig/Split.lean and Wire/Infer.lean (generators and PEP 479, slices, '
    'isinstance/type on the builtin classes, dict iteration order, loop variables after a for loop) - validated by '
    'the correspondence streams',
    'harness/valcodec.py <-> lean/Driver/Val.lean (mapping between Python values and PyVal)',
    'harness oracle: parse_one (DBus grammar), natural_sig / expect (domain of the round-trip claim)',
]
ASSUMPTIONS = [
    'enumerated signatures use the leaf alphabet {i, s, v} (all 14 leaf codes up to length 3 quick / 5 thorough): '
    'genCompleteTypes only distinguishes ( ) { } a from every other character; the theorem split_render covers all',
    'user classes are unrelated to each other and to the builtin classes (no subclass of list/dict/int beyond the '
    'wrapper classes of marshal.py)',
]
RULE = ('split-enumerated: every signature of the DBus grammar up to the stated length over the leaf alphabet; '
        'split-random: grammar-generated signatures up to 255 bytes, nesting <= 32; split-malformed: edits of valid '
        'signatures and random bracket strings; infer / variant-roundtrip: values generated type-first (a random DBus '
        'type, then a value of it, mixing subclasses) plus unconstrained heterogeneous values; distinct = distinct '
        'canonical case text per stream; a case is non-trivial unless it is a single leaf')

BASIC = 'ybnqiuxtdsogh'
LEAVES = BASIC + 'v'


# =====================================================================================================
# independent DBus grammar parser (oracle)
# =====================================================================================================
class Bad(Exception):
    pass


def parse_one(s, i, adepth=0, sdepth=0):
    """Index just after the single complete type starting at s[i]; Bad if there is none.
    DBus specification: basic | 'v' | 'a' type | 'a{' basic type '}' | '(' type+ ')'; nesting <= 32 / 32."""
    if i >= len(s):
        raise Bad('end of signature')
    c = s[i]
    if c in LEAVES:
        return i + 1
    if c == 'a':
        if adepth >= 32:
            raise Bad('array nesting')
        if i + 1 < len(s) and s[i + 1] == '{':
            if sdepth >= 32:
                raise Bad('struct nesting')
            j = i + 2
            if j >= len(s) or s[j] not in BASIC:
                raise Bad('dict key')
            j = parse_one(s, j + 1, adepth + 1, sdepth + 1)
            if j >= len(s) or s[j] != '}':
                raise Bad('dict entry not closed')
            return j + 1
        return parse_one(s, i + 1, adepth + 1, sdepth)
    if c == '(':
        if sdepth >= 32:
            raise Bad('struct nesting')
        j = i + 1
        n = 0
        while j < len(s) and s[j] != ')':
            j = parse_one(s, j, adepth, sdepth + 1)
            n += 1
        if j >= len(s) or n == 0:
            raise Bad('struct')
        return j + 1
    raise Bad('unexpected %r' % c)


def parse_all(s):
    """The complete types of a valid signature (Bad otherwise)."""
    out, i = [], 0
    if len(s) > 255:
        raise Bad('too long')
    while i < len(s):
        j = parse_one(s, i)
        out.append(s[i:j])
        i = j
    return out


def is_single(s):
    try:
        return parse_one(s, 0) == len(s)
    except Bad:
        return False


# =====================================================================================================
# signature generators
# =====================================================================================================
def enum_sigs(maxlen, basic, other):
    """All valid signatures of length <= maxlen over the leaf alphabet basic + other (other: 'v')."""
    T = {0: []}      # single complete types by length
    S = {0: ['']}    # sequences by length
    for n in range(1, maxlen + 1):
        ts = []
        if n == 1:
            ts += list(basic + other)
        ts += ['a' + t for t in T.get(n - 1, [])]
        if n >= 5:
            ts += ['a{' + k + t + '}' for k in basic for t in T.get(n - 4, [])]
        if n >= 3:
            ts += ['(' + q + ')' for q in S.get(n - 2, []) if q]
        T[n] = ts
        S[n] = [t + q for k in range(1, n + 1) for t in T[k] for q in S[n - k]]
    out = []
    for n in range(0, maxlen + 1):
        out += S[n]
    return out


def rand_type(rng, budget, adepth=0, sdepth=0):
    """A random single complete type of length <= budget (budget >= 1)."""
    r = rng.random()
    if budget < 2 or r < 0.35:
        return rng.choice(LEAVES)
    if r < 0.60 and adepth < 32:
        return 'a' + rand_type(rng, budget - 1, adepth + 1, sdepth)
    if r < 0.75 and budget >= 5 and adepth < 32 and sdepth < 32:
        return 'a{' + rng.choice(BASIC) + rand_type(rng, budget - 4, adepth + 1, sdepth + 1) + '}'
    if budget >= 3 and sdepth < 32:
        inner = rand_seq(rng, budget - 2, adepth, sdepth + 1, minn=1)
        return '(' + inner + ')'
    return rng.choice(LEAVES)


def rand_seq(rng, budget, adepth=0, sdepth=0, minn=0):
    n = rng.choice([minn, 1, 1, 2, 3, 5, 8]) if budget > 8 else rng.randint(minn, max(minn, min(3, budget)))
    n = max(n, minn)
    out = ''
    for k in range(n):
        left = budget - len(out) - (n - k - 1)
        if left < 1:
            break
        out += rand_type(rng, rng.randint(1, left), adepth, sdepth)
    if minn and not out:
        out = rng.choice(LEAVES)
    return out


def rand_sig(rng):
    budget = rng.choice([4, 8, 16, 40, 100, 255, 255])
    mode = rng.random()
    if mode < 0.15:      # deep nesting
        d = rng.randint(1, 32)
        kind = rng.choice(['a', '(', 'mix'])
        core = rng.choice(LEAVES)
        for k in range(d):
            if kind == 'a' or (kind == 'mix' and rng.random() < 0.5):
                core = 'a' + core
            else:
                core = '(' + core + rng.choice(['', 'i', 's']) + ')'
        s = core
    else:
        s = rand_seq(rng, budget)
    return s if _valid(s) else rand_type(rng, 6)


def _valid(s):
    try:
        parse_all(s)
        return True
    except Bad:
        return False


def malformed(rng, base):
    alpha = '(){}a' + 'isv' + 'a(){}'
    r = rng.random()
    if r < 0.3:
        n = rng.randint(1, 12)
        return ''.join(rng.choice(alpha) for _ in range(n))
    s = list(base)
    for _ in range(rng.randint(1, 3)):
        op = rng.randrange(4)
        p = rng.randint(0, len(s))
        if op == 0 and s:
            del s[min(p, len(s) - 1)]
        elif op == 1:
            s.insert(p, rng.choice(alpha + 'zZ1 é€'))
        elif op == 2 and s:
            s[min(p, len(s) - 1)] = rng.choice(alpha)
        else:
            s = s[:p]
    return ''.join(s)


# =====================================================================================================
# observing the implementation
# =====================================================================================================
def hexes(ps):
    return '%d' % len(ps) + ''.join(' ' + vc.str_hex(p) for p in ps)


def obs_split(marshal, sig):
    ps = []
    try:
        for p in marshal.genCompleteTypes(sig):
            ps.append(p)
            if len(ps) > 100000:
                return 'err runaway'
        return 'ok ' + hexes(ps), ps
    except Exception as e:
        return 'err %s %s' % (type(e).__name__, hexes(ps)), None


def obs_first(marshal, sig):
    g = marshal.genCompleteTypes(sig)
    try:
        p = next(g)
    except Exception as e:
        return 'err ' + type(e).__name__
    return 'ok %s %s' % (vc.str_hex(p), vc.str_hex(sig[len(p):]))


def obs_nargs(sig_in, sig_out, sig_sig):
    from txdbus import interface
    try:
        m = interface.Method('M', arguments=sig_in, returns=sig_out)
        s = interface.Signal('S', sig_sig)
        interface.DBusInterface('org.verif.C19', m, s, noRegister=True)
        return [m.nargs, m.nret, s.nargs]
    except Exception as e:
        return 'err ' + type(e).__name__


def obs_infer(marshal, v):
    try:
        return 'ok ' + vc.str_hex(marshal.sigFromPy(v))
    except Exception as e:
        return 'err ' + type(e).__name__


# =====================================================================================================
# the domain of the round-trip claim
# =====================================================================================================
class Outside(Exception):
    """The value is outside what the property statement claims."""


INT_RANGE = {'y': (0, 2 ** 8), 'n': (-2 ** 15, 2 ** 15), 'q': (0, 2 ** 16), 'i': (-2 ** 31, 2 ** 31),
             'u': (0, 2 ** 32), 'x': (-2 ** 63, 2 ** 63), 't': (0, 2 ** 64)}
# from the doc strings of the wrapper classes / the DBus type names
WRAPPER_SIG = {'Byte': 'y', 'Boolean': 'b', 'Int16': 'n', 'UInt16': 'q', 'Int32': 'i', 'UInt32': 'u',
               'Int64': 'x', 'UInt64': 't', 'Signature': 'g', 'ObjectPath': 'o'}
OBJPATH_RE = re.compile(r'^(/|(/[A-Za-z0-9_]+)+)$')


def wrapper_name(v):
    n = type(v).__name__
    return n if n in WRAPPER_SIG and type(v).__module__ == 'txdbus.marshal' else None



def py_class(v):
    """The builtin class a value counts as for inference (subclasses included), or None."""
    if wrapper_name(v):
        return 'wrapper'
    for name, k in (('bool', bool), ('int', int), ('float', float), ('str', str), ('bytearray', bytearray),
                    ('list', list), ('tuple', tuple), ('dict', dict)):
        if isinstance(v, k):
            return name
    return None


def natural_sig(v):
    """The DBus type a value has by itself (None: it has none).  First-element based, as upstream documents;
    a container whose elements do not all have exactly the class of the first one carries variants."""
    c = py_class(v)
    if c == 'wrapper':
        return WRAPPER_SIG[wrapper_name(v)]
    if c == 'bool':
        return 'b'
    if c == 'int':
        if -2 ** 31 <= v < 2 ** 31:
            return 'i'
        if -2 ** 63 <= v < 2 ** 63:
            return 'x'
        if 2 ** 63 <= v < 2 ** 64:
            return 't'
        return None
    if c == 'float':
        return 'd'
    if c == 'str':
        return 's'
    if c == 'bytearray':
        return 'ay'
    if c == 'list':
        if not len(v):
            return 'av'
        if any(type(e) is not type(v[0]) for e in v[1:]):
            return 'av'
        e = natural_sig(v[0])
        return None if e is None else 'a' + e
    if c == 'tuple':
        if not len(v):
            return None
        parts = [natural_sig(e) for e in v]
        return None if None in parts else '(' + ''.join(parts) + ')'
    if c == 'dict':
        if not len(v):
            return 'a{sv}'
        items = list(v.items())
        k = natural_sig(items[0][0])
        if k is None or k not in BASIC:
            return None
        if any(type(x) is not type(items[0][1]) for _, x in items[1:]):
            return 'a{' + k + 'v}'
        e = natural_sig(items[0][1])
        return None if e is None else 'a{' + k + e + '}'
    return None



def expect(v, sig):
    """The value the peer must decode when `v` travels under the single complete type `sig`;
    Outside when the statement makes no claim."""
    c = sig[0]
    if c == 'v':
        s = natural_sig(v)
        if s is None:
            raise Outside('no DBus type')
        if len(s) > 255:
            raise Outside('signature longer than 255')
        return expect(v, s)
    if c in INT_RANGE:
        if not isinstance(v, int) or isinstance(v, bool):
            raise Outside('not an int')
        lo, hi = INT_RANGE[c]
        if not lo <= int(v) < hi:
            raise Outside('scalar does not fit')
        return int(v)
    if c == 'b':
        if type(v) is bool:
            return v
        if wrapper_name(v) == 'Boolean' and int(v) in (0, 1):
            return bool(v)
        raise Outside('not a boolean')
    if c == 'd':
        if not isinstance(v, float) or v != v:
            raise Outside('not a comparable float')
        return v
    if c in 'sog':
        if not isinstance(v, str):
            raise Outside('not a str')
        s = str(v)
        if '\0' in s:
            raise Outside('NUL')
        try:
            s.encode('utf-8')
        except UnicodeError:
            raise Outside('not encodable')
        if c == 'o' and not OBJPATH_RE.match(s):
            raise Outside('invalid object path')
        if c == 'g' and (len(s) > 255 or not _valid(s)):
            raise Outside('invalid signature')
        return s
    if c == 'a':
        esig = sig[1:]
        if esig[0] == '{':
            if not isinstance(v, dict):
                raise Outside('not a dict')
            ksig = esig[1]
            vsig = esig[2:-1]
            items = list(v.items())
            out = {}
            for k, x in items:
                if natural_sig(k) != ksig:
                    raise Outside('dict keys of more than one DBus type')
                out[expect(k, ksig)] = expect(x, vsig)
            if len(out) != len(items):
                raise Outside('keys collide')
            return out
        if isinstance(v, bytearray):
            if esig != 'y':
                raise Outside('bytearray')
            return list(v)
        if not isinstance(v, list):
            raise Outside('not a list')
        return [expect(e, esig) for e in v]
    if c == '(':
        if not isinstance(v, tuple) or not len(v):
            raise Outside('not a non-empty tuple')
        parts = parse_all(sig[1:-1])
        if len(parts) != len(v):
            raise Outside('arity')
        return [expect(e, p) for e, p in zip(v, parts)]
    raise Outside('type ' + sig)





def normalise(x):
    """Documented normalisation of what was sent: tuple -> list, bytearray -> list of ints."""
    if isinstance(x, (list, tuple)):
        return [normalise(e) for e in x]
    if isinstance(x, bytearray):
        return list(x)
    if isinstance(x, dict):
        return {k: normalise(e) for k, e in x.items()}
    return x


def plain_eq(a, b):
    """Python equality, with list/dict structure compared recursively (== does exactly that)."""
    return a == b



def roundtrip(marshal, v, le=True, off=0):
    """(ok, observed, expected) for a value inside the claim; (None, why, None) when outside."""
    try:
        exp = expect(v, 'v')
    except Outside as o:
        return None, str(o), None
    try:
        sig = marshal.sigFromPy(v)
        n, chunks = marshal.marshal('v', [v], off, le)
        data = b''.join(chunks)
        n2, out = marshal.unmarshal('v', b'\xaa' * off + data, off, le)
    except Exception as e:
        return False, 'raises %s: %s' % (type(e).__name__, str(e)[:100]), repr(exp)[:200]
    got = out[0] if isinstance(out, list) and len(out) == 1 else out
    if not plain_eq(got, exp) or not plain_eq(got, normalise(v)):
        return False, 'sig %s decodes to %s' % (sig, repr(got)[:200]), repr(exp)[:200]
    return True, sig, None


def children(v):
    if isinstance(v, (list, tuple)):
        return list(v)
    if isinstance(v, dict):
        out = []
        for k, x in v.items():
            out += [k, x]
        # also every two-item sub-dict (the dict rules need two items)
        items = list(v.items())
        if len(items) > 2:
            for i in range(len(items)):
                for j in range(i + 1, len(items)):
                    out.append(dict([items[i], items[j]]))
        return out
    return []



def shrink_roundtrip(marshal, v, le=True, off=0, budget=400):
    """Smallest sub-value (or two-item sub-dict / two-element list) that still fails the round-trip oracle."""
    cur = v
    while budget > 0:
        cands = children(cur)
        if isinstance(cur, list) and len(cur) > 2:
            cands += [[cur[0], e] for e in cur[1:]]
        nxt = None
        for c in cands:
            budget -= 1
            try:
                ok, _, _ = roundtrip(marshal, c, le, off)
            except Exception:
                ok = None
            if ok is False:
                nxt = c
                break
        if nxt is None:
            return cur
        cur = nxt
    return cur


def walk(v):
    yield v
    for c in (list(v) if isinstance(v, (list, tuple)) else []):
        yield from walk(c)
    if isinstance(v, dict):
        for k, x in v.items():
            yield from walk(k)
            yield from walk(x)



def _sig_or_none(marshal, v):
    try:
        return marshal.sigFromPy(v)
    except Exception:
        return None


def classify_roundtrip_failure(marshal, v, le=True, off=0):
    """Key of a (shrunk) failing value.  The three named classes are recognised by an EXACT test on the
    shrunk value itself; anything else is filed under the generic key - never under a fixed finding."""
    # F28: a plain int outside int32 that the implementation calls 'i'
    if type(v) is int and not -2 ** 31 <= v < 2 ** 31 and _sig_or_none(marshal, v) == 'i':
        return 'int-outside-int32-infers-i'
    # C19-01: a dict whose signature follows its LAST value: fails as given, passes with the items reversed,
    # and the implementation's value signature is that of the last value, not of the first
    if type(v) is dict and len(v) >= 2:
        items = list(v.items())
        s_first, s_last = _sig_or_none(marshal, items[0][1]), _sig_or_none(marshal, items[-1][1])
        s_all = _sig_or_none(marshal, v)
        if s_first and s_last and s_all and s_first != s_last and s_all.endswith(s_last + '}') \
                and not s_all.endswith(s_first + '}'):
            try:
                if roundtrip(marshal, dict(reversed(items)), le, off)[0] is True:
                    return 'dict-value-signature-from-last-item'
            except Exception:
                pass
    # C19-02: a container holding, after its first element, an element of a proper subclass of the first one's
    # class, which the implementation sends under the type it gives the first element alone
    elems = mk = None
    if type(v) is list and len(v) >= 2:
        elems, mk = v, (lambda a: [a])
    elif type(v) is dict and len(v) >= 2:
        k0 = next(iter(v))
        elems, mk = list(v.values()), (lambda x: {k0: x})
    if elems is not None:
        a = elems[0]
        if any(type(b) is not type(a) and isinstance(b, type(a)) for b in elems[1:]):
            if _sig_or_none(marshal, v) is not None and _sig_or_none(marshal, v) == _sig_or_none(marshal, mk(a)):
                return 'subclass-element-under-base-type'
    return 'variant-roundtrip-fails'


# =====================================================================================================
# value generators
# =====================================================================================================
INT_EDGES = [0, 1, -1, 2, 255, 256, 2 ** 15 - 1, 2 ** 15, -2 ** 15, -2 ** 15 - 1, 2 ** 16 - 1, 2 ** 16,
             2 ** 31 - 1, 2 ** 31, -2 ** 31, -2 ** 31 - 1, 2 ** 32 - 1, 2 ** 32, 2 ** 40, -2 ** 40,
             2 ** 63 - 1, 2 ** 63, -2 ** 63, -2 ** 63 - 1, 2 ** 64 - 1, 2 ** 64, 10 ** 30, -10 ** 30]
FLOATS = [0.0, -0.0, 1.5, -2.25, 1e308, 5e-324, float('inf'), float('-inf'), float('nan'), 3.141592653589793]
STRS = ['', 'a', 'abc', 'x y', 'café', '€', '\U0001f600z', 'a\0b', '/', 'ii', 'a' * 40]
PATHS = ['/', '/a', '/org/freedesktop/DBus', '/a_1/B2', 'bad', '/a/', '//']
SIGS = ['', 'i', 'ai', 'a{sv}', '(ii)', 'a(', 'ii', 'v']
W_INT = ['Byte', 'Boolean', 'Int16', 'UInt16', 'Int32', 'UInt32', 'Int64', 'UInt64']


def g_int(rng):
    r = rng.random()
    if r < 0.45:
        return rng.choice(INT_EDGES)
    if r < 0.8:
        return rng.randint(-300, 300)
    return rng.randint(-2 ** 66, 2 ** 66)


def g_fit(rng, code):
    lo, hi = INT_RANGE[code]
    r = rng.random()
    if r < 0.3:
        return rng.choice([lo, hi - 1])
    if r < 0.6:
        return max(lo, min(hi - 1, rng.randint(-5, 300)))
    return rng.randint(lo, hi - 1)


def g_str(rng):
    if rng.random() < 0.6:
        return rng.choice(STRS)
    return ''.join(rng.choice('abcXYZ09_/ .é中') for _ in range(rng.randint(0, 12)))


def g_scalar(rng, m):
    k = rng.randrange(14)
    if k == 0:
        return rng.random() < 0.5
    if k <= 3:
        return g_int(rng)
    if k <= 5:
        w = rng.choice(W_INT)
        code = WRAPPER_SIG[w]
        if code == 'b':
            return m.Boolean(rng.choice([0, 1, 1, 0, 5]))
        return getattr(m, w)(g_fit(rng, code) if rng.random() < 0.85 else g_int(rng))
    if k == 6:
        return rng.choice(FLOATS) if rng.random() < 0.7 else rng.uniform(-1e6, 1e6)
    if k <= 8:
        return g_str(rng)
    if k == 9:
        return m.ObjectPath(rng.choice(PATHS))
    if k == 10:
        return m.Signature(rng.choice(SIGS))
    if k == 11:
        return bytearray(rng.randrange(256) for _ in range(rng.choice([0, 1, 2, 5])))
    if k == 12:
        return rng.choice([True, False, 0, 1])
    return g_int(rng)


def g_key(rng, m):
    k = rng.randrange(8)
    if k <= 2:
        return g_str(rng)
    if k <= 4:
        return rng.randint(-5, 50)
    if k == 5:
        return rng.random() < 0.5
    if k == 6:
        return getattr(m, rng.choice(['Byte', 'UInt32', 'Int64']))(rng.randint(0, 200))
    return rng.choice([1.5, 2.0, m.ObjectPath('/k'), 2 ** 40, m.Signature('s')])


def g_any(rng, m, depth, exotic=True):
    """Unconstrained value: heterogeneous containers, unsupported objects (when exotic)."""
    r = rng.random()
    if depth <= 0 or r < 0.45:
        if exotic and rng.random() < 0.08:
            k = rng.randrange(4)
            if k == 0:
                return None
            if k == 1:
                return vc.make_other(rng.randrange(7))
            if k == 2:
                return vc.make_obj(rng.randrange(3), rng.choice([None, None, 'i', '(is)', 'ii', 'a{sv}']),
                                   [g_scalar(rng, m) for _ in range(rng.randrange(3))])
        return g_scalar(rng, m)
    n = rng.choice([0, 1, 2, 2, 3, 4])
    if r < 0.65:
        if rng.random() < 0.5 and n:
            first = g_any(rng, m, depth - 1, exotic)
            return [first] + [g_like(rng, m, first, depth - 1, exotic) for _ in range(n - 1)]
        return [g_any(rng, m, depth - 1, exotic) for _ in range(n)]
    if r < 0.8:
        return tuple(g_any(rng, m, depth - 1, exotic) for _ in range(n))
    d = {}
    if rng.random() < 0.5 and n:
        firstv = g_any(rng, m, depth - 1, exotic)
        k0 = g_key(rng, m)
        d[k0] = firstv
        for _ in range(n - 1):
            d[g_like_key(rng, m, k0) if rng.random() < 0.8 else g_key(rng, m)] = \
                g_like(rng, m, firstv, depth - 1, exotic)
        return d
    for _ in range(n):
        d[g_key(rng, m)] = g_any(rng, m, depth - 1, exotic)
    return d


def g_like_key(rng, m, k0):
    while True:
        k = g_like(rng, m, k0, 0, False)
        try:
            hash(k)
            return k
        except TypeError:
            pass


def g_like(rng, m, v, depth, exotic):
    """A value related to `v`: same class, a subclass / superclass of it, or (rarely) anything."""
    r = rng.random()
    t = type(v)
    if r < 0.08:
        return g_any(rng, m, depth, exotic)
    if t is bool:
        return rng.choice([True, False, 0, 1, m.Boolean(1)]) if r < 0.3 else (rng.random() < 0.5)
    if isinstance(v, int):
        w = wrapper_name(v)
        if w and r > 0.3:
            code = WRAPPER_SIG[w]
            return getattr(m, w)(rng.choice([0, 1]) if code == 'b' else g_fit(rng, code))
        k = rng.randrange(6)
        if k == 0:
            return rng.random() < 0.5
        if k == 1:
            ww = rng.choice(W_INT)
            return getattr(m, ww)(rng.choice([0, 1]) if ww == 'Boolean' else g_fit(rng, WRAPPER_SIG[ww]))
        if k == 2:
            return g_int(rng)
        s = natural_sig(int(v))
        return g_fit(rng, s) if s in INT_RANGE and s != 't' else rng.randint(-100, 100)
    if t is float:
        return rng.choice(FLOATS[:8])
    if isinstance(v, str):
        k = rng.randrange(5)
        if k == 0:
            return m.ObjectPath(rng.choice(PATHS[:4]))
        if k == 1:
            return m.Signature(rng.choice(SIGS[:5]))
        if wrapper_name(v) == 'ObjectPath' and k < 4:
            return m.ObjectPath(rng.choice(PATHS[:4]))
        return g_str(rng)
    if t is bytearray:
        return bytearray(rng.randrange(256) for _ in range(rng.randrange(4)))
    if t is list:
        if not v or rng.random() < 0.15:
            return rng.choice([[], [g_scalar(rng, m)]])
        return [g_like(rng, m, v[0], depth - 1, exotic) for _ in range(rng.choice([1, 1, 2, 3]))]
    if t is tuple:
        if rng.random() < 0.1:
            return tuple(g_scalar(rng, m) for _ in range(rng.randrange(3)))
        return tuple(g_like(rng, m, e, depth - 1, exotic) for e in v)
    if t is dict:
        if not v or rng.random() < 0.15:
            return rng.choice([{}, {g_key(rng, m): g_scalar(rng, m)}])
        k0, x0 = next(iter(v.items()))
        return {g_like_key(rng, m, k0): g_like(rng, m, x0, depth - 1, exotic)
                for _ in range(rng.choice([1, 2, 3]))}
    return g_any(rng, m, depth, exotic)


def fixed_values(m):
    """Hand-written cases around every rule of sigFromPy (run in both tiers)."""
    B, Y, U64, OP, SG = m.Boolean, m.Byte, m.UInt64, m.ObjectPath, m.Signature
    return [
        True, 0, 2 ** 31 - 1, 2 ** 31, -2 ** 31, -2 ** 31 - 1, 2 ** 40, 2 ** 63 - 1, 2 ** 63, 2 ** 64 - 1, 2 ** 64,
        -2 ** 63, -2 ** 63 - 1, Y(0), Y(255), B(0), B(1), m.Int16(-2 ** 15), m.UInt16(2 ** 16 - 1), m.Int32(-1),
        m.UInt32(2 ** 32 - 1), m.Int64(-2 ** 63), U64(2 ** 64 - 1), 1.5, -0.0, float('inf'), '', 'a', 'café',
        OP('/'), OP('/a/b'), SG(''), SG('a{sv}'), bytearray(), bytearray(b'\x00\xff'),
        [], [[]], [[], []], [[], [1]], [[1], []], [{}], [{}, {}], [{}, {'a': 1}], {}, {'a': {}}, {'a': {}, 'b': {'x': 1}},
        {'a': [], 'b': [1]}, {'a': [1], 'b': []}, [1, 2, 3], [1, True], [True, 1], [True, False], [1, Y(5)], [Y(5), 1],
        [Y(1), Y(2)], [5, B(1)], [1, U64(7)], [U64(7), U64(2 ** 64 - 1)], ['a', OP('/p')], [OP('/p'), 'a'],
        [OP('/p'), OP('/q')], ['a', SG('i')], [1, 'a'], [1, 2.5], [2.5, 1], [1.5, 2.5], ['a', 'b'], [2 ** 40, 2 ** 41],
        [2 ** 63, 2 ** 63 + 1], (1,), (1, 'a'), ((1, 2), [3]), ([],), ({},), [(1, 'a'), (2, 'b')], [[1, 2], [3]],
        [[1, 'a'], [2.5, True]], [bytearray(b'ab'), bytearray(b'')], {'a': 1}, {'a': 1, 'b': 2}, {'a': 1, 'b': 'x'},
        {'a': 2, 'b': True}, {'a': True, 'b': 2}, {'a': 1000, 'b': Y(1)}, {'a': Y(1), 'b': Y(2)},
        {'a': 'x', 'b': OP('/p')}, {'a': OP('/p'), 'b': OP('/q')}, {'a': 5, 'b': True, 'c': Y(3)},
        {1: 'a', 2: 'b'}, {True: 'a'}, {1.5: 'a'}, {Y(1): 'a', Y(2): 'b'}, {'k': (1, 2), 'j': (3, 4)},
        {'a': [1, 2], 'b': [3]}, {'a': {'x': 1}, 'b': {'y': 2}}, {'a': 1.5, 'b': 2}, {'x': [1, 'a']},
        [{'a': 1}, {'b': 2}], ({'a': (1, [True])},), [[[[1]]]], {'a': {'b': {'c': [1, (2, 'x')]}}},
        [1, U64(2 ** 40)], [1, m.Int64(-2 ** 40)], {'a': 1, 'b': U64(2 ** 40)}, [U64(2 ** 40), 1], ['a', SG('i')],
        (), [()], ((), 1), {(1, 2): 3}, {'a': ()}, [1] * 9 + ['a'], ['a'] + [1] * 20, [1] * 40, list(range(17)) + [2 ** 40],
        {i: 'v%d' % i for i in range(25)}, {('k%d' % i): (i if i != 19 else 'odd') for i in range(20)},
        [[[[[[[[1, 'a']]]]]]]], {'a': [{'b': [{'c': [{'d': (1, [2.5])}]}]}]}, float('nan'), [float('nan')],
    ]


# =====================================================================================================
# values outside the line syntax: subclasses of the builtin classes (oracle-only, built from a JSON spec)
# =====================================================================================================
import collections
import enum


class _Color(enum.IntEnum):
    R = 1
    G = 2
    B = 70000


class _SubList(list):
    pass


class _SubDict(dict):
    pass


_P2 = collections.namedtuple('P2', 'x y')
_P3 = collections.namedtuple('P3', 'a b c')


def build_x(spec):
    """Value from a JSON-able spec: ['v', line] | ['odict', [[k, v]..]] | ['ddict', ..] | ['sdict', ..] |
    ['nt', [fields]] | ['enum', 'R'] | ['slist', [elems]] | ['list', [elems]] | ['tuple', [elems]] | ['dict', [[k, v]..]]"""
    tag = spec[0]
    if tag == 'v':
        return vc.from_line(spec[1])
    if tag in ('odict', 'ddict', 'sdict', 'dict'):
        items = [(build_x(k), build_x(v)) for k, v in spec[1]]
        if tag == 'odict':
            return collections.OrderedDict(items)
        if tag == 'ddict':
            d = collections.defaultdict(list)
            d.update(items)
            return d
        return _SubDict(items) if tag == 'sdict' else dict(items)
    if tag == 'nt':
        f = [build_x(e) for e in spec[1]]
        return _P2(*f) if len(f) == 2 else _P3(*f)
    if tag == 'enum':
        return _Color[spec[1]]
    if tag == 'slist':
        return _SubList(build_x(e) for e in spec[1])
    if tag == 'list':
        return [build_x(e) for e in spec[1]]
    if tag == 'tuple':
        return tuple(build_x(e) for e in spec[1])
    raise ValueError(tag)


def g_xspec(rng, m, depth):
    """Spec of a value that uses subclasses of the builtin classes somewhere."""
    def leaf():
        return ['v', vc.to_line(g_scalar(rng, m))]

    def keyspec(i):
        return ['v', vc.to_line('k%d' % i)]
    r = rng.randrange(9)
    n = rng.choice([1, 2, 3, 6])
    sub = (lambda: g_xspec(rng, m, depth - 1)) if depth > 0 and rng.random() < 0.5 else leaf
    if r == 0:
        return ['enum', rng.choice('RGB')]
    if r == 1:
        return ['nt', [sub() for _ in range(rng.choice([2, 3]))]]
    if r == 2:
        return [rng.choice(['odict', 'ddict', 'sdict']), [[keyspec(i), sub()] for i in range(n)]]
    if r == 3:
        return ['slist', [sub() for _ in range(n)]]
    if r == 4:   # homogeneous list of named tuples / enums
        if rng.random() < 0.5:
            return ['list', [['nt', [['v', 'i %d' % rng.randint(-9, 9)], ['v', vc.to_line(g_str(rng))]]] for _ in range(n)]]
        return ['list', [['enum', rng.choice('RGB')] for _ in range(n)]]
    if r == 5:   # int first, IntEnum later (and the reverse)
        xs = [['v', 'i %d' % rng.randint(-5, 5)], ['enum', rng.choice('RGB')]]
        rng.shuffle(xs)
        return ['list', xs]
    if r == 6:
        return ['dict', [[keyspec(i), rng.choice([['enum', 'R'], ['v', 'i 7'], ['nt', [['v', 'i 1'], ['v', 'i 2']]]])]
                         for i in range(n)]]
    if r == 7:
        return ['tuple', [sub(), ['odict', [[keyspec(0), leaf()]]]]]
    return ['list', [['odict', [[keyspec(0), ['v', 'i %d' % i]]]] for i in range(n)]]


def g_big(rng, m):
    """Containers of 5..40 elements; homogeneous, or with ONE odd element last / in the middle / first."""
    n = rng.randint(5, 40)
    kind = rng.randrange(6)
    base = rng.choice([lambda: rng.randint(-100, 100), lambda: g_str(rng), lambda: rng.random() < 0.5,
                       lambda: rng.uniform(-9, 9), lambda: m.Byte(rng.randrange(256)),
                       lambda: (rng.randint(0, 9), g_str(rng)), lambda: [rng.randint(0, 9)] * rng.randrange(3),
                       lambda: m.UInt64(rng.randrange(2 ** 64))])
    xs = [base() for _ in range(n)]
    odd = rng.choice([lambda: 'odd', lambda: 2 ** 40, lambda: True, lambda: m.UInt64(2 ** 40), lambda: 1.5,
                      lambda: m.ObjectPath('/odd'), lambda: [], lambda: {}, lambda: 7, lambda: m.Int16(-3)])
    if kind >= 2:
        pos = {2: n - 1, 3: n // 2, 4: 0, 5: rng.randrange(n)}[kind]
        xs[pos] = odd()
    if rng.random() < 0.35:
        keys = rng.choice([lambda i: 'k%d' % i, lambda i: i, lambda i: m.UInt32(i)])
        return {keys(i): x for i, x in enumerate(xs)}
    if rng.random() < 0.15:
        return tuple(xs[:12])
    return xs


def g_deep(rng, m, depth):
    """Nesting up to `depth` (<= 8) of single-child containers around a small value."""
    v = g_any(rng, m, 1, exotic=False)
    for _ in range(depth):
        k = rng.randrange(4)
        if k == 0:
            v = [v]
        elif k == 1:
            v = (v, rng.randint(0, 3))
        elif k == 2:
            v = {'k': v}
        else:
            v = [v, g_like(rng, m, v, 1, False)]
    return v


# =====================================================================================================
# streams
# =====================================================================================================
def canon_err(x):
    """Which exception a malformed signature / a typeless value raises is not part of the property."""
    return 'err' if isinstance(x, str) and x.startswith('err') else x


def check_split_oracle(ctx, sig, pieces, observed):
    """S4 on a valid signature: concatenation and one complete type per piece."""
    want = parse_all(sig)
    ok = pieces is not None and ''.join(pieces) == sig and all(is_single(p) for p in pieces)
    if not ok or pieces != want:
        ctx.violation('split-wrong-decomposition',
                      'list(genCompleteTypes(%r)) is not the decomposition into complete types' % (sig,),
                      inp={'op': 'split', 'sig': sig}, observed=observed, expected=want)


def run_split(ctx, marshal, stream, sigs, valid):
    lines = []
    for s in sigs:
        lines.append('split ' + vc.str_hex(s))
        lines.append('first ' + vc.str_hex(s))
    out = ctx.model(lines)
    for i, s in enumerate(sigs):
        ob, pieces = obs_split(marshal, s)
        of = obs_first(marshal, s)
        ctx.impl_trace(2)
        ctx.case(stream, sample=s, nontrivial=len(s) > 1)
        ctx.stat('%s:len=%s' % (stream, len(s) if len(s) < 10 else '%d+' % (len(s) // 10 * 10)))
        if not valid:
            ctx.stat('%s:%s' % (stream, 'ok' if ob.startswith('ok') else 'raises'))
        if out is not None and valid:
            if out[2 * i] != ob:
                ctx.disagree(stream, {'op': 'split', 'sig': s}, out[2 * i], ob)
            if s and out[2 * i + 1] != of:
                ctx.disagree(stream, {'op': 'first', 'sig': s}, out[2 * i + 1], of)
        elif out is not None:
            # malformed input: the property says nothing.  Whatever the implementation ACCEPTS must be what the
            # model yields; an implementation that refuses more (validation up front, another exception class)
            # is not a disagreement.
            if ob.startswith('ok') and out[2 * i] != ob:
                ctx.disagree(stream, {'op': 'split', 'sig': s}, out[2 * i], ob)
            if s and of.startswith('ok') and out[2 * i + 1] != of:
                ctx.disagree(stream, {'op': 'first', 'sig': s}, out[2 * i + 1], of)
        if valid:
            check_split_oracle(ctx, s, pieces, ob)
            want = parse_all(s)
            if want:
                exp_first = 'ok %s %s' % (vc.str_hex(want[0]), vc.str_hex(s[len(want[0]):]))
                if of != exp_first:
                    ctx.violation('split-wrong-decomposition',
                                  'next(genCompleteTypes(%r)) is not the first complete type' % (s,),
                                  inp={'op': 'split', 'sig': s}, observed=of, expected=exp_first)


def obs_nargs_reuse(sig_in, sig_out, sig_sig):
    """Declarations that are not fresh: the same Method / Signal added twice and to a second interface,
    and a second Method whose signatures are those of the first one swapped."""
    from txdbus import interface
    try:
        m = interface.Method('M', arguments=sig_in, returns=sig_out)
        s = interface.Signal('S', sig_sig)
        i1 = interface.DBusInterface('org.verif.C19a', m, s, noRegister=True)
        first = [m.nargs, m.nret, s.nargs]
        i1.addMethod(m)
        i1.addSignal(s)
        m2 = interface.Method('N', arguments=sig_out, returns=sig_in)
        interface.DBusInterface('org.verif.C19b', m, s, m2, noRegister=True)
        return first, [m.nargs, m.nret, s.nargs], [m2.nret, m2.nargs]
    except Exception as e:
        return 'err'


def run_argcount(ctx, marshal, triples):
    lines = []
    for t in triples:
        lines += ['nargs ' + vc.str_hex(x) for x in t]
    out = ctx.model(lines)
    for i, t in enumerate(triples):
        ob = obs_nargs(*t)
        ctx.impl_trace()
        ctx.case('argcount', sample=list(t))
        valid = all(_valid(x) for x in t)
        if out is not None:
            mo = out[3 * i:3 * i + 3]
            mv = [int(x[3:]) for x in mo] if all(x.startswith('ok ') for x in mo) else 'err'
            if mv != canon_err(ob) and (valid or canon_err(ob) != 'err'):
                # (on a malformed signature an implementation that refuses more than the model is tolerated)
                ctx.disagree('argcount', {'op': 'nargs', 'sigs': list(t)}, mv, ob)
        if valid:
            want = [len(parse_all(x)) for x in t]
            again = obs_nargs_reuse(*t)
            if ob != want or again != (want, want, want[:2]):
                ctx.violation('argcount-wrong', 'interface.py counts %r (re-added / shared / swapped: %r) arguments '
                              'for signatures %r' % (ob, again, list(t)),
                              inp={'op': 'nargs', 'sigs': list(t)}, observed=[ob, again], expected=want)


def builtin_only(v):
    for x in walk(v):
        if py_class(x) is None:
            return False
    return True


def typeless_somewhere(v):
    """Some sub-value has no DBus type (an int beyond 64 bits, an empty tuple, a container dict key)."""
    for x in walk(v):
        c = py_class(x)
        if c == 'int' and natural_sig(x) is None:
            return True
        if c == 'tuple' and not len(x):
            return True
        if c == 'dict' and any(py_class(k) in ('list', 'tuple', 'dict', 'bytearray', None) for k in x):
            return True
    return False


def infer_oracle(ctx, marshal, v, ob, inp):
    """S4 for inference on a value built from the supported classes (`ob` = 'ok <hex>' | 'err <Class>')."""
    if not builtin_only(v):
        return
    nat = natural_sig(v)
    if ob.startswith('ok '):
        sig = vc.hex_str(ob[3:])
        # depth > 32 / length > 255 are limits the statement does not mention: not judged here
        if len(sig) <= 255 and max_depth(sig) <= 32 and not is_single(sig):
            ctx.violation('inferred-signature-not-single-complete-type',
                          'sigFromPy gives %r, which is not one complete type' % (sig,),
                          inp=inp, observed=sig, expected='one complete type, or an exception')
        w = wrapper_name(v)
        if w and sig != WRAPPER_SIG[w]:
            ctx.violation('wrapper-selects-wrong-type', '%s instance infers %r' % (w, sig),
                          inp=inp, observed=sig, expected=WRAPPER_SIG[w])
    elif nat is not None and len(nat) <= 255 and max_depth(nat) <= 32 and not typeless_somewhere(v):
        # only values that HAVE a DBus type, throughout, must get a signature (a typeless value may raise)
        ctx.violation('inference-fails-on-supported-value', 'sigFromPy raises %s on a value built from the '
                      'supported classes that has the DBus type %s' % (ob[4:], nat), inp=inp,
                      observed=ob, expected=nat)


def run_infer(ctx, marshal, values):
    lines = ['infer ' + vc.to_line(v) for v in values]
    out = ctx.model(lines)
    for i, v in enumerate(values):
        ob = obs_infer(marshal, v)
        ctx.impl_trace()
        ctx.case('infer', sample=lines[i][6:], nontrivial=isinstance(v, (list, tuple, dict)))
        ctx.stat('infer:top=' + type(v).__name__)
        ctx.stat('infer:' + ('raises' if ob.startswith('err') else 'ok'))
        inp = {'op': 'infer', 'value': lines[i][6:]}
        typeless = typeless_somewhere(v) or (builtin_only(v) and natural_sig(v) is None)
        if out is not None and not typeless and canon_err(out[i]) != canon_err(ob):
            # (what happens to a value WITHOUT a DBus type - 2**64, a container holding one - is not compared)
            ctx.disagree('infer', inp, out[i], ob)
        infer_oracle(ctx, marshal, v, ob, inp)


def run_roundtrip(ctx, marshal, cases):
    """cases: (value, replayable input, little endian?, start offset)"""
    for v, inp, le, off in cases:
        ok, info, exp = roundtrip(marshal, v, le, off)
        ctx.case('variant-roundtrip', sample=inp if ok is not None else None,
                 nontrivial=ok is not None and isinstance(v, (list, tuple, dict)))
        if ok is None:
            ctx.stat('roundtrip:outside:' + info)
            continue
        ctx.impl_trace()
        ctx.stat('roundtrip:inside')
        ctx.stat('roundtrip:%s,off=%d' % ('le' if le else 'be', off))
        ctx.stat('roundtrip:inside:top=' + (py_class(v) or '?'))
        if isinstance(v, (list, dict, tuple)):
            ctx.stat('roundtrip:inside:len=%s' % (len(v) if len(v) < 5 else '5..40' if len(v) <= 40 else '40+'))
        if ok is False:
            small = shrink_roundtrip(marshal, v, le, off)
            ok2, info2, exp2 = roundtrip(marshal, small, le, off)
            if ok2 is not False:
                small, info2, exp2 = v, info, exp
            key = classify_roundtrip_failure(marshal, small, le, off)
            try:
                sinp = {'op': 'roundtrip', 'value': vc.to_line(small), 'le': le, 'off': off}
            except ValueError:
                sinp = dict(inp, le=le, off=off)
                small = v
            ctx.violation(key, 'variant round trip (%s endian, offset %d) of %s: %s'
                          % ('little' if le else 'big', off, repr(small)[:120], info2),
                          inp=sinp, observed=info2, expected=exp2)
        if ok is not None and 'spec' in inp:
            # subclass values have no model side: judge their inference here
            infer_oracle(ctx, marshal, v, obs_infer(marshal, v), inp)


def obs_vrt(marshal, v, le, off):
    """marshal('v', [v], off, le): count and bytes; then unmarshal of those bytes: count and value."""
    try:
        n, chunks = marshal.marshal('v', [v], off, le)
        data = b''.join(chunks)
    except Exception:
        return 'err'
    try:
        n2, out = marshal.unmarshal('v', b'\xaa' * off + data, off, le)
        return 'ok %d %s %d %s' % (n, vc.bytes_hex(data), n2, vc.to_line(out[0]))
    except Exception:
        return 'ok %d %s undecodable' % (n, vc.bytes_hex(data))


def run_wire(ctx, marshal, cases):
    """Correspondence of the code model used by `variant_roundtrip` (Wire/Code.lean: marshal_variant,
    unmarshal_variant and below) with the implementation: the bytes, the counts, the decoded value.
    Only whether marshal raises is compared when it raises (values outside the claim)."""
    cases = [(v, le, off) for v, le, off in cases]
    lines = ['vrt %d %d %s' % (1 if le else 0, off, vc.to_line(v)) for v, le, off in cases]
    out = ctx.model(lines)
    for i, (v, le, off) in enumerate(cases):
        ob = obs_vrt(marshal, v, le, off)
        ctx.impl_trace()
        ctx.case('variant-wire', sample=lines[i], nontrivial=isinstance(v, (list, tuple, dict)))
        ctx.stat('variant-wire:' + ob.split(' ')[0])
        if out is not None and out[i] != ob:
            ctx.disagree('variant-wire', {'op': 'wire', 'value': lines[i][4:]}, out[i][:300], ob[:300])


def run_case(ctx, marshal, case):
    op = case.get('op')
    if op in ('split', 'first'):
        s = case['sig']
        run_split(ctx, marshal, 'split-enumerated' if _valid(s) else 'split-malformed', [s], _valid(s))
    elif op == 'nargs':
        run_argcount(ctx, marshal, [tuple(case['sigs'])])
    elif op == 'infer':
        run_infer(ctx, marshal, [vc.from_line(case['value'])])
    elif op == 'wire':
        toks = case['value'].split()
        run_wire(ctx, marshal, [(vc.from_line(' '.join(toks[2:])), toks[0] == '1', int(toks[1]))])
    elif op == 'roundtrip':
        if 'spec' in case:
            v = build_x(case['spec'])
            inp = {'op': 'roundtrip', 'spec': case['spec']}
        else:
            v = vc.from_line(case['value'])
            inp = {'op': 'roundtrip', 'value': case['value']}
            run_infer(ctx, marshal, [v])
        if 'spec' not in case:
            run_wire(ctx, marshal, [(v, True, 0), (v, False, 5)])
        if 'le' in case:
            combos = [(bool(case['le']), int(case.get('off', 0)))]
        else:
            combos = [(True, 0), (False, 0), (True, 3), (False, 5)]
        run_roundtrip(ctx, marshal, [(v, inp, le, off) for le, off in combos])


def run(ctx):
    from txdbus import marshal
    rng = ctx.rng
    thorough = ctx.tier != 'quick'

    for name, case in ctx.corpus():
        run_case(ctx, marshal, case)

    # ---- splitter
    nlen = 8 if thorough else 7
    sigs = enum_sigs(nlen, 'is', 'v')
    seen = set(sigs)
    sigs += [s for s in enum_sigs(5 if thorough else 3, BASIC, 'v') if s not in seen]
    if ctx.widen and not thorough:
        seen = set(sigs)
        sigs += [s for s in enum_sigs(8, 'i', 'v') if s not in seen]
    run_split(ctx, marshal, 'split-enumerated', sigs, True)
    ctx.exhaustive = True
    ctx.note('split-enumerated: %d signatures = every valid signature of length <= %d over leaves {i,s,v} and of '
             'length <= %d over all 14 leaf codes' % (len(sigs), nlen, 5 if thorough else 3))

    n = ctx.scale(quick=3000, thorough=40000)
    rsigs = [rand_sig(rng) for _ in range(n)]
    run_split(ctx, marshal, 'split-random', rsigs, True)
    for s in rsigs:
        ctx.stat('split-random:depth=%d' % max_depth(s))

    n = ctx.scale(quick=6000, thorough=80000)
    pool = sigs[:4000] + rsigs[:2000]
    bad = []
    while len(bad) < n:
        s = malformed(rng, rng.choice(pool))
        if len(s) <= 300:
            bad.append(s)
    run_split(ctx, marshal, 'split-malformed', [s for s in bad if not _valid(s)], False)

    n = ctx.scale(quick=1200, thorough=15000)
    triples = []
    for _ in range(n):
        r = rng.random()
        pick = (lambda: rng.choice(sigs)) if r < 0.5 else (lambda: rand_sig(rng))
        t = [pick(), pick(), pick()]
        if rng.random() < 0.15:
            t[1] = t[0]                      # equal in / out signatures
        if rng.random() < 0.1:
            t[rng.randrange(3)] = malformed(rng, rng.choice(pool))
        triples.append(tuple(t))
    run_argcount(ctx, marshal, triples)

    # ---- inference and variant round trip
    fixed = fixed_values(marshal)
    n = ctx.scale(quick=9000, thorough=150000)
    vals = list(fixed)
    for i in range(n):
        r = i % 10
        if r == 0:
            vals.append(g_big(rng, marshal))
        elif r == 1:
            vals.append(g_deep(rng, marshal, rng.randint(4, 8)))
        else:
            vals.append(g_any(rng, marshal, rng.choice([0, 1, 2, 2, 3, 4]), exotic=True))
    run_infer(ctx, marshal, vals)

    n = ctx.scale(quick=12000, thorough=200000)
    cases = []
    combos = [(le, off) for le in (True, False) for off in range(8)]
    for k, v in enumerate(fixed):
        for le, off in [(True, 0), (False, 0), combos[k % 16]]:
            cases.append((v, {'op': 'roundtrip', 'value': vc.to_line(v)}, le, off))
    for i in range(n):
        r = i % 10
        le, off = rng.choice(combos) if rng.random() < 0.8 else (True, 0)
        if r == 0:
            v = g_big(rng, marshal)
        elif r == 1:
            v = g_deep(rng, marshal, rng.randint(4, 8))
        elif r == 2:
            spec = g_xspec(rng, marshal, 2)
            cases.append((build_x(spec), {'op': 'roundtrip', 'spec': spec}, le, off))
            continue
        else:
            v = g_any(rng, marshal, rng.choice([0, 1, 2, 2, 3, 3, 4]), exotic=False)
        cases.append((v, {'op': 'roundtrip', 'value': vc.to_line(v)}, le, off))
    run_roundtrip(ctx, marshal, cases)

    # the same values (those inside the line syntax) through the code model of marshal / unmarshal
    wire = [(v, le, off) for v, inp, le, off in cases if 'value' in inp]
    run_wire(ctx, marshal, wire[:ctx.scale(quick=8000, thorough=120000)])


def max_depth(s):
    d = m = 0
    run_a = 0
    for c in s:
        if c in '({':
            d += 1
        elif c in ')}':
            d -= 1
        if c == 'a':
            run_a += 1
        else:
            run_a = 0
        m = max(m, d, run_a)
    return m


def replay(ctx, data):
    from txdbus import marshal
    run_case(ctx, marshal, data['input'])
