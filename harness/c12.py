"""C12 - a signal reaches exactly the callbacks whose match rule it satisfies.
Correspondence + oracle harness.

Real objects driven: router.MessageRouter / router.Rule, client.DBusClientConnection (handshake done
by hand on a StringTransport, AddMatch/RemoveMatch bytes captured, replies scripted), bus.Bus.dbus_AddMatch,
objects.RemoteDBusObject.notifyOnSignal / cancelSignalNotification.

Two judgements per case: (S3) the Lean code model (driver drv_c12) against the implementation;
(S4) the property oracle `oracle_matches` - an independent matcher written from the property
statement - against the implementation alone.
"""
import json

STREAMS = ['mkrule', 'match-pairs', 'route-histories', 'client-histories', 'client-daemon', 'rule-text', 'bus-parse',
           'bus-histories', 'proxy-gate', 'proxy-connections', 'oracle-vs-spec']
THEOREMS = ['tables_current', 'mtypes_table_is_spec', 'match_eq_spec', 'match_eq_spec_with', 'match_eq_spec_full',
            'match_eq_spec_gen', 'gen_relation_is_full_spec', 'found_router_ignores_arg0namespace',
            'namespace_is_component_prefix', 'route_exact',
            'route_independent_of_raising', 'invoked_exact_each_once', 'removed_never_invoked', 'ids_never_reused',
            'rule_text_roundtrip', 'client_text_means_constraints', 'bus_reads_what_the_text_means',
            'bus_scanner_follows_spec',
            'bus_rule_is_client_rule', 'proxy_gate', 'proxy_delivery', 'proxy_select', 'proxy_cancel',
            'proxy_cancel_per_proxy', 'client_refines_router', 'client_signal_exact',
            'bus_rules_mirror_local_rules', 'daemon_reads_rule_as_spec', 'live_rules_keep_receiving']
TRUSTED_BASE = [
    'Python str ==, startswith, endswith, split, slices, "%d" %, int() on ASCII digits, dict insertion order, '
    'getattr/hasattr, truthiness, try/except BaseException (mirrored by hand in Route/*.lean, validated by the streams)',
    'unmarshalling of s/o/g (and strings inside variants) to plain str: the code cannot distinguish them',
    'Twisted Deferred callback chains of addMatch/delMatch (modelled as: continuation runs when the reply arrives)',
]
ASSUMPTIONS = [
    'callbacks do not add or remove rules synchronously while a message is being routed (the public client API '
    'cannot: addMatch/delMatch act after the daemon replied); the internal-API variant is probed and noted',
    'rule values are str, argument indices are non-negative int; constraint values that are the empty string are '
    'dropped by the router (falsy) - neither matching nor the rule text is judged for rules containing them',
    'sender is not evaluated locally (a client-side router sees unique names); arg0namespace IS judged, by the DBus '
    'specification: first argument of type STRING, equal to the value or continuing it after a dot (key '
    'arg0namespace-constraint-ignored on a tree whose Rule.match does not evaluate it)',
    'whether argN may match an OBJECT_PATH / SIGNATURE / variant-wrapped string argument (the DBus spec says '
    'STRING only; the code sees one Python str type) is left unjudged by the oracle',
    'the oracle judges a registration only while it is settled (acknowledged and no removal requested, or removal '
    'acknowledged); it identifies registrations by the order of their addMatch calls, never by id value; ids may be reissued',
    'rule texts are judged with the grammar of the DBus specification (quoting rule included) for every value; a text the '
    'specification reads as a rule must be accepted by Bus.dbus_AddMatch',
    'a proxy subscription whose signal name is declared by several interfaces and no interface= was given is not judged',
]
RULE = ('rule x message pairs are derived from a generated message: every subset of constraint keys, values copied '
        'from the message (match) or replaced by a near-miss (sibling sharing a textual prefix, parent, child, '
        'trailing slash, other type, out-of-range index); histories are random add/del/route/reply sequences over '
        'them; distinct = distinct canonical JSON of the case')

MISSING = '<missing>'
MTYPE_NAMES = {1: 'method_call', 2: 'method_return', 3: 'error', 4: 'signal'}
RULE_KEYS = ['mtype', 'sender', 'interface', 'member', 'path', 'path_namespace', 'destination', 'args',
             'arg_paths', 'arg0namespace']

IFACES = ['a.b', 'a.bc', 'a.b.c', 'org.x.Y', 'A.b']
MEMBERS = ['M', 'Mm', 'N', 'Changed', 'm']
PATHS = ['/', '/a', '/a/b', '/a/bc', '/a/b/c', '/aa/bb', '/aa/bbc', '/aa', '/aa/bb/cc', '/a/b/c/d', '/A/b']
DESTS = [':1.1', ':1.10', 'x.y', 'x.yz']
SENDERS = [':1.5', 'x.y']
STRVALS = ['x', 'xy', '', '/aa/bb', '/aa/bb/', '/aa/', '/aa/bbc', '/', '/aa', '/aa/bb/cc', 'a.b', '/aa/bb/cc/', "it's",
           'X', 'x ', '7', 'True', '1.5', 'a,b', 'a=b', 'a\\b']
NAMEVALS = ['com.ex', 'com.ex.a', 'com.exa', 'com', 'com.e', 'com.ex.a.b', 'org.ex.A', 'a.b.c', 'a.bc', 'org']
OTHER_BODY = [('i', 7), ('b', True), ('u', 0), ('d', 1.5), ('as', ['x']), ('ay', [120]), ('(s)', ['x']),
              ('a{ss}', {'x': 'x'}), ('x', 1 << 40), ('y', 47)]


# ------------------------------------------------------------------------------------------ encoding
def hx(s):
    return '-' if s == '' else ''.join('%06x' % ord(c) for c in s)


def unhx(t):
    return '' if t == '-' else ''.join(chr(int(t[i:i + 6], 16)) for i in range(0, len(t), 6))


def enc_opt(v):
    return '~' if v is None else hx(v)


def enc_pairs(v):
    if v is None:
        return '~'
    if not v:
        return '.'
    return ','.join('%d:%s' % (i, hx(s)) for i, s in v)


def enc_rule(kw):
    return ' '.join([enc_opt(kw.get('mtype')), enc_opt(kw.get('sender')), enc_opt(kw.get('interface')),
                     enc_opt(kw.get('member')), enc_opt(kw.get('path')), enc_opt(kw.get('path_namespace')),
                     enc_opt(kw.get('destination')), enc_pairs(kw.get('args')), enc_pairs(kw.get('arg_paths')),
                     enc_opt(kw.get('arg0namespace'))])


def dec_opt(t):
    return None if t == '~' else unhx(t)


def dec_pairs(t):
    if t == '~':
        return None
    if t == '.':
        return []
    out = []
    for p in t.split(','):
        i, s = p.split(':')
        out.append([int(i), unhx(s)])
    return out


def dec_rule(tokens):
    kw = {}
    for k, t in zip(RULE_KEYS, tokens):
        kw[k] = dec_pairs(t) if k in ('args', 'arg_paths') else dec_opt(t)
    return kw


def enc_attr(v):
    if v == MISSING:
        return '!'
    return '~' if v is None else hx(v)


def enc_body(body):
    if body is None:
        return '~'
    if not body:
        return '.'
    return ','.join(('s' + hx(a[1])) if a[0] == 'str' else 'o' for a in body)


def enc_msg(mv):
    return ' '.join([str(mv['mtype']), enc_attr(mv['path']), enc_attr(mv['interface']), enc_attr(mv['member']),
                     enc_attr(mv['destination']), enc_attr(mv['sender']), enc_body(mv['body'])])


def enc_raises(rs):
    return '.' if not rs else ','.join(str(r) for r in sorted(rs))


def clean_kw(kw):
    """kwargs with None entries dropped, lists as lists of 2-lists (JSON friendly)."""
    out = {}
    for k in RULE_KEYS:
        v = kw.get(k)
        if v is not None:
            out[k] = [[i, s] for i, s in v] if k in ('args', 'arg_paths') else v
    return out


def call_kw(kw):
    """kwargs as handed to the real code (pairs as tuples)."""
    out = {}
    for k, v in kw.items():
        if v is None:
            continue
        out[k] = [(i, s) for i, s in v] if k in ('args', 'arg_paths') else v
    return out


# ------------------------------------------------------------------------------------------ messages
def sig_types(sig):
    """Top-level single complete types of a signature (enough for the small signatures generated here)."""
    out, i = [], 0
    while i < len(sig):
        j = i
        while sig[j] == 'a':
            j += 1
        if sig[j] in '({':
            close = {'(': ')', '{': '}'}[sig[j]]
            depth, k = 0, j
            while True:
                if sig[k] == sig[j]:
                    depth += 1
                elif sig[k] == close:
                    depth -= 1
                    if depth == 0:
                        break
                k += 1
            j = k
        out.append(sig[i:j + 1])
        i = j + 1
    return out


def view(m, types=None):
    """What the match code can see of a message object, canonicalised."""
    body = getattr(m, 'body', None)
    if body is not None:
        sig = getattr(m, 'signature', None)
        ts = types if types is not None else (sig_types(sig) if sig else None)
        vb = []
        for i, x in enumerate(body):
            t = ts[i] if ts is not None and i < len(ts) else None
            if isinstance(x, str):
                vb.append(['str', str(x), t])
            else:
                vb.append(['other', str(x), t])
        body = vb
    mv = {'mtype': m._messageType, 'body': body}
    for a in ('path', 'interface', 'member', 'destination', 'sender'):
        v = getattr(m, a, MISSING)
        mv[a] = v if (v is None or v == MISSING) else str(v)
    return mv


def add_sender(raw, sender):
    """Message bytes with a SENDER header field (code 7, type 's') appended - by the DBus wire format alone
    (fixed 12 bytes, header-field array length at 12..16, fields are 8-aligned structs, header padded to 8
    before the body); no private re-marshal entry point of the library is used."""
    raw = bytes(raw)
    bo = 'little' if raw[:1] == b'l' else 'big'
    alen = int.from_bytes(raw[12:16], bo)
    end = 16 + alen
    body = raw[end + ((-end) % 8):]
    arr = bytearray(raw[16:end])
    while len(arr) % 8:
        arr.append(0)
    sb = sender.encode('utf-8')
    arr += bytes([7, 1]) + b's\0' + len(sb).to_bytes(4, bo) + sb + b'\0'
    out = bytearray(raw[:12]) + len(arr).to_bytes(4, bo) + arr
    while len(out) % 8:
        out.append(0)
    return bytes(out) + body


def build_message(spec, parse=True):
    """spec: dict(kind, path, interface, member, destination, sender, signature, body) -> real message object.
    parse=True: the object a receiver gets (parseMessage of the bytes)."""
    from txdbus import message
    kind = spec['kind']
    sig = spec.get('signature')
    body = spec.get('body')
    if body is not None:
        body = list(body)
    if kind == 'signal':
        m = message.SignalMessage(spec['path'], spec['member'], spec['interface'],
                                  destination=spec.get('destination'), signature=sig, body=body)
    elif kind == 'method_call':
        m = message.MethodCallMessage(spec['path'], spec['member'], interface=spec.get('interface'),
                                      destination=spec.get('destination'), signature=sig, body=body)
    elif kind == 'method_return':
        m = message.MethodReturnMessage(7, body=body, destination=spec.get('destination'), signature=sig)
    elif kind == 'error':
        m = message.ErrorMessage('org.x.Err', 7, destination=spec.get('destination'), signature=sig, body=body)
    else:
        raise ValueError(kind)
    if spec.get('sender') is not None:
        raw = add_sender(m.rawMessage, spec['sender'])
        m.sender = spec['sender']
        m.rawMessage = raw
    if parse:
        m = message.parseMessage(m.rawMessage, [])
    return m


def gen_body(rng):
    """(signature, body) or (None, None)."""
    r = rng.random()
    if r < 0.18:
        return None, None
    n = rng.choice([1, 1, 2, 2, 3, 3, 11, 13])
    sig, body = '', []
    for _ in range(n):
        q = rng.random()
        if q < 0.55:
            sig += 's'
            body.append(rng.choice(NAMEVALS) if rng.random() < 0.25 else rng.choice(STRVALS))
        elif q < 0.70:
            sig += 'o'
            body.append(rng.choice(PATHS))
        elif q < 0.75:
            sig += 'g'
            body.append(rng.choice(['s', 'ai', 'x']))
        elif q < 0.80:
            sig += 'v'
            body.append(rng.choice(['x', '/aa/bb']))
        else:
            t, v = rng.choice(OTHER_BODY)
            sig += t
            body.append(v)
    return sig, body


def gen_msg_spec(rng, kind=None):
    kind = kind or rng.choice(['signal'] * 7 + ['method_call', 'method_return', 'error'])
    sig, body = gen_body(rng)
    spec = {'kind': kind, 'signature': sig, 'body': body,
            'destination': rng.choice([None, None] + DESTS), 'sender': rng.choice([None] + SENDERS)}
    if kind in ('signal', 'method_call'):
        spec['path'] = rng.choice(PATHS)
        spec['member'] = rng.choice(MEMBERS)
        spec['interface'] = rng.choice(IFACES)
    if kind in ('method_return', 'error') and spec['destination'] is None and rng.random() < 0.5:
        spec['destination'] = rng.choice(DESTS)
    return spec


# ------------------------------------------------------------------------------------------ rules
def near(rng, pool, v):
    """A value from the pool different from v, preferring ones sharing a prefix with it."""
    if not isinstance(v, str):
        return rng.choice(pool)
    if v and rng.random() < 0.3:
        # differs only in case or in surrounding blanks
        w = rng.choice([v.swapcase(), v.lower(), v.upper(), v + ' ', ' ' + v])
        if w != v:
            return w
    c = [p for p in pool if p != v and (p.startswith(v) or v.startswith(p))] or [p for p in pool if p != v]
    return rng.choice(c)


def ns_candidates(path):
    """path_namespace values around a path: itself, ancestors, '/', textual prefixes, children, trailing slash."""
    out = {'/', path}
    parts = path.split('/')
    for i in range(2, len(parts)):
        out.add('/'.join(parts[:i]))
    if len(path) > 1:
        out.add(path[:-1] if path[:-1] != '' else '/')      # textual prefix: '/a/b' for '/a/bc'
        out.add(path + '/')
        out.add(path + '/x')
        out.add(path + 'c')
    return sorted(x for x in out if x)


def argpath_candidates(a):
    out = {a, a + '/', a + 'c', a + '/x', a + '/x/'}
    if a.endswith('/'):
        out.add(a[:-1])
        out.add(a + 'bb/')
        out.add(a + 'bb')
    if '/' in a.rstrip('/'):
        parent = a.rstrip('/').rsplit('/', 1)[0]
        out.update({parent, parent + '/', parent + '/c'})
    if len(a) > 1:
        out.add(a[:-1])
    out.add('/')
    return sorted(out)


def arg0ns_candidates(a):
    """arg0namespace values around a first argument a: itself, the namespaces above it (inside), a textual prefix
    that is no namespace of it ('com.ex' for 'com.exa': sibling), a name below it, a trailing dot."""
    out = {a, a + '.x', a + 'a', a + '.'}
    parts = a.split('.')
    for i in range(1, len(parts)):
        out.add('.'.join(parts[:i]))
    if len(a) > 1:
        out.add(a[:-1])
    return sorted(x for x in out if x)


def gen_rule_for(rng, mv, p_key=0.35, p_miss=0.3):
    """A rule derived from the message view mv: each key present with probability p_key, copied from the
    message (satisfied) or replaced by a near-miss."""
    kw = {}
    miss = lambda: rng.random() < p_miss
    if rng.random() < p_key:
        t = MTYPE_NAMES.get(mv['mtype'])
        kw['mtype'] = rng.choice([x for x in list(MTYPE_NAMES.values()) + ['bogus'] if x != t]) if miss() else t
    for key, pool in (('interface', IFACES), ('member', MEMBERS), ('path', PATHS), ('destination', DESTS)):
        if rng.random() < p_key:
            v = mv[key] if isinstance(mv[key], str) else None
            if v is None or miss():
                kw[key] = near(rng, pool, v)
            else:
                kw[key] = v
    if rng.random() < p_key:
        p = mv['path'] if isinstance(mv['path'], str) else rng.choice(PATHS)
        kw['path_namespace'] = rng.choice(ns_candidates(p))
    body = mv['body'] or []
    if rng.random() < p_key:
        args = []
        for _ in range(rng.choice([1, 1, 2])):
            idx = rng.choice([0, 0, 1, 2, 3, 10, 12]) if len(body) < 5 else rng.choice([0, 1, 5, 10, 10, 12, 1])
            if idx < len(body) and body[idx][0] == 'str' and not miss():
                args.append([idx, body[idx][1]])
            elif idx < len(body) and body[idx][0] == 'other' and rng.random() < 0.7:
                args.append([idx, body[idx][1]])          # the str() of a non-string argument: must not match
            else:
                base = body[idx][1] if idx < len(body) and body[idx][0] == 'str' else None
                args.append([idx, near(rng, STRVALS, base)])
        kw['args'] = args
    if rng.random() < p_key:
        aps = []
        for _ in range(rng.choice([1, 1, 2])):
            idx = rng.choice([0, 0, 1, 2, 3]) if len(body) < 5 else rng.choice([0, 1, 10, 10, 12, 3])
            if idx < len(body) and body[idx][0] == 'str':
                aps.append([idx, rng.choice(argpath_candidates(body[idx][1]))])
            elif idx < len(body) and rng.random() < 0.5:
                aps.append([idx, body[idx][1]])
            else:
                aps.append([idx, rng.choice(STRVALS)])
        kw['arg_paths'] = aps
    if rng.random() < 0.08:
        kw['sender'] = rng.choice(SENDERS)
    if rng.random() < max(0.08, p_key / 3.0):
        kw['arg0namespace'] = rng.choice(arg0ns_candidates(body[0][1])) if body and body[0][0] == 'str' and body[0][1] \
            and not miss() else rng.choice(NAMEVALS + ['a.b', 'x'])
    # falsy values (dropped by the router) and empty lists, rarely
    if rng.random() < 0.04:
        kw[rng.choice(['mtype', 'interface', 'member', 'path', 'destination', 'path_namespace', 'arg0namespace'])] = ''
    if rng.random() < 0.03:
        kw[rng.choice(['args', 'arg_paths'])] = []
    return kw


# ------------------------------------------------------------------------------------------ the oracle
def _descendant_or_self(ns, p):
    if ns == '/':
        return True
    if p == ns:
        return True
    return p[:len(ns)] == ns and p[len(ns):len(ns) + 1] == '/'


def _argpath_ok(val, a):
    if a == val:
        return True
    if val[-1:] == '/' and a[:len(val)] == val:
        return True
    if a[-1:] == '/' and val[:len(a)] == a:
        return True
    return False


def oracle_matches(kw, mv):
    """Independent matcher from the property statement.  Returns (verdict, failing) where verdict is
    True / False / None (None: the statement does not decide this pair) and failing lists
    (constraint-kind, detail) for every constraint the message does not satisfy."""
    failing = []
    undecided = False
    for k in ('mtype', 'interface', 'member', 'path', 'destination', 'path_namespace', 'arg0namespace'):
        if kw.get(k) == '':
            return None, []            # empty constraint value: dropped by the router, not judged
    t = kw.get('mtype')
    if t is not None and MTYPE_NAMES.get(mv['mtype']) != t:
        failing.append(('mtype', t))
    for k in ('interface', 'member', 'path', 'destination'):
        v = kw.get(k)
        if v is not None:
            a = mv[k]
            if not (isinstance(a, str) and a != MISSING and a == v):
                failing.append((k, v))
    ns = kw.get('path_namespace')
    if ns is not None:
        p = mv['path']
        if not (isinstance(p, str) and p != MISSING and _descendant_or_self(ns, p)):
            failing.append(('path_namespace', 'sibling' if isinstance(p, str) and p.startswith(ns) else 'other'))
    body = mv['body'] if mv['body'] is not None else []
    for idx, val in (kw.get('args') or []):
        if idx >= len(body):
            failing.append(('args', 'no-body' if mv['body'] is None else 'missing'))
            continue
        kind, s, typ = body[idx]
        if kind != 'str':
            failing.append(('args', 'non-string'))
        elif s != val:
            failing.append(('args', 'different'))
        elif typ not in ('s', None):
            undecided = True          # equal text, but the argument is not of DBus type STRING
    for idx, val in (kw.get('arg_paths') or []):
        if idx >= len(body):
            failing.append(('arg_paths', 'no-body' if mv['body'] is None else 'missing'))
            continue
        kind, s, typ = body[idx]
        if kind != 'str':
            failing.append(('arg_paths', 'non-string'))
        elif not _argpath_ok(val, s):
            failing.append(('arg_paths', 'plain-prefix' if s.startswith(val) else 'different'))
        elif typ not in ('s', 'o', None):
            undecided = True
    ns0 = kw.get('arg0namespace')
    if ns0 is not None:
        # DBus specification: "matches messages whose first argument is of type STRING, and is a bus name or interface
        # name within the specified namespace" ('com.ex' contains 'com.ex' and 'com.ex.a', not 'com.exa')
        if not body:
            failing.append(('arg0namespace', 'no-body' if mv['body'] is None else 'missing'))
        else:
            kind, s, typ = body[0]
            if kind != 'str':
                failing.append(('arg0namespace', 'non-string'))
            elif not (s == ns0 or s[:len(ns0) + 1] == ns0 + '.'):
                failing.append(('arg0namespace', 'sibling' if s[:len(ns0)] == ns0 else 'different'))
            elif typ not in ('s', None):
                undecided = True      # inside the namespace by its text, but not of DBus type STRING
    if failing:
        return False, failing
    if undecided:
        return None, []
    return True, []


def classify(kw, mv, called, verdict, failing):
    """Violation key + text for an implementation result that contradicts the oracle."""
    if called and verdict is False:
        kinds = sorted(set(k for k, _ in failing))
        if kinds == ['mtype']:
            return 'mtype-constraint-ignored', "a rule with type=%r receives a %s" % (kw['mtype'], MTYPE_NAMES.get(mv['mtype']))
        if kinds == ['arg0namespace']:
            return ('arg0namespace-constraint-ignored',
                    'a rule with arg0namespace=%r receives a message whose first argument is %s (%r): the constraint is not '
                    'evaluated' % (kw['arg0namespace'], {'sibling': 'a textual continuation, not inside the namespace',
                                                        'different': 'outside the namespace', 'non-string': 'not a string',
                                                        'no-body': 'absent (no body)', 'missing': 'absent'}[failing[0][1]],
                                   [b[1] for b in (mv['body'] or [])][:1]))
        if kinds == ['path_namespace']:
            if failing[0][1] == 'sibling':
                return ('path-namespace-prefix-sibling',
                        'path_namespace=%r matches the path %r (textual prefix, not the path or a descendant)'
                        % (kw['path_namespace'], mv['path']))
            return 'path-namespace-mismatch-accepted', 'path_namespace=%r matches %r' % (kw['path_namespace'], mv['path'])
        if kinds in (['args'], ['arg_paths'], ['arg_paths', 'args'][::-1], ['args', 'arg_paths']):
            details = set(d for _, d in failing)
            if details == {'no-body'}:
                return ('arg-constraint-skipped-no-body',
                        'argument constraints %r are ignored for a message without a body'
                        % (clean_kw({k: kw.get(k) for k in ('args', 'arg_paths')}),))
            if kinds == ['arg_paths'] and details == {'plain-prefix'}:
                return ('argpath-plain-startswith',
                        'argNpath %r matches an argument that merely starts with it: %r'
                        % (kw['arg_paths'], [b[1] for b in (mv['body'] or [])]))
            if kinds == ['args']:
                return 'arg-mismatch-accepted', 'argN constraint %r satisfied by %r' % (kw['args'], mv['body'])
            return 'argpath-mismatch-accepted', 'argNpath constraint %r satisfied by %r' % (kw.get('arg_paths'), mv['body'])
        if len(kinds) == 1:
            return kinds[0] + '-mismatch-accepted', 'constraint %s=%r satisfied by %r' % (kinds[0], kw[kinds[0]], mv.get(kinds[0]))
        return 'nonmatching-message-delivered', 'callback invoked although %r are not satisfied' % (kinds,)
    if (not called) and verdict is True:
        body = mv['body'] or []
        for idx, val in (kw.get('arg_paths') or []):
            if idx < len(body) and body[idx][0] == 'str':
                s = body[idx][1]
                if s != val and s.endswith('/') and val.startswith(s):
                    return ('argpath-rule-trailing-slash-prefix',
                            'argNpath %r does not match the argument %r (the argument ends in "/" and is a prefix of the rule value)'
                            % (val, s))
        ks = sorted(clean_kw(kw))
        if len(ks) == 1:
            return 'matching-%s-not-delivered' % ks[0], 'the constraint %s=%r is satisfied by the message but the callback ' \
                'is not invoked' % (ks[0], kw[ks[0]])
        return 'matching-message-not-delivered', 'every constraint of the rule is satisfied but the callback is not invoked'
    return None, None


def impl_single(sub, m):
    """Does the real router invoke the callback of the rule `sub` for the message object m?"""
    from txdbus import router
    saved = swap_log(router, LogSpy())
    try:
        r = router.MessageRouter()
        hits = []
        r.addMatch(hits.append, **call_kw(sub))
        r.routeMessage(m)
        return bool(hits)
    except Exception:
        return None
    finally:
        restore_log(router, saved)


def attribute(kw, m, mv):
    """The single constraints of `kw` that the implementation, given that constraint alone, evaluates
    differently from the oracle on this message: [(sub-rule, oracle verdict, failing)]."""
    out = []
    for key in RULE_KEYS:
        v = kw.get(key)
        if v is None:
            continue
        subs = [{key: [p]} for p in v] if key in ('args', 'arg_paths') else [{key: v}]
        for sub in subs:
            verdict, failing = oracle_matches(sub, mv)
            if verdict is None:
                continue
            got = impl_single(sub, m)
            if got is not None and got != verdict:
                out.append((sub, verdict, failing))
    return out


def explain(kw, m, mv, called, verdict, failing):
    """Violation key + text for an observation that contradicts the oracle: blame a single constraint when
    the implementation gets that constraint wrong on its own, otherwise name the combination."""
    blamed = attribute(kw, m, mv)
    for sub, v, f in blamed:
        if v != called:           # the wrong single constraint explains the direction of the failure
            key, what = classify(sub, mv, not v, v, f)
            if key:
                return key, what + ' (rule %r)' % (clean_kw(kw),) if clean_kw(sub) != clean_kw(kw) else what
    if called:
        return 'nonmatching-message-delivered', 'callback invoked although %r are not satisfied (each of them is ' \
            'evaluated correctly when it is the only constraint)' % (sorted(set(k for k, _ in failing)),)
    return 'matching-message-not-delivered', 'every constraint of the rule %r is satisfied but the callback is not ' \
        'invoked (each constraint is evaluated correctly when it is the only one)' % (clean_kw(kw),)


def judge(ctx, kw, m, mv, called, where, inp):
    """Evaluate the oracle on one (rule, message, called?) observation of the implementation."""
    verdict, failing = oracle_matches(kw, mv)
    if verdict is None:
        ctx.stat('oracle:undecided')
        return
    if called == verdict:
        ctx.stat('oracle:match' if verdict else 'oracle:no-match')
        return
    key, what = explain(kw, m, mv, called, verdict, failing)
    if mv['mtype'] != 4:
        # the property speaks about signals; other message types only reach a router inside the bus
        ctx.stat('oracle:non-signal-mismatch:' + key)
        ctx.note('non-signal message: %s (%s)' % (what, where))
        return
    ctx.violation(key, what, inp=inp, observed='callback %s' % ('invoked' if called else 'not invoked'),
                  expected='callback %s' % ('invoked' if verdict else 'not invoked'))


# ------------------------------------------------------------------------------------------ real-code helpers
def swap_log(router_mod, new):
    """Replace the twisted log module inside txdbus.router (bound to whatever name it is imported under) by `new`;
    returns what restore_log needs.  When the router does not log through twisted's log at all nothing is
    replaced: logged-error counts are then zero, which only feeds a statistic."""
    from twisted.python import log as twisted_log
    for name, v in list(vars(router_mod).items()):
        if v is twisted_log:
            setattr(router_mod, name, new)
            return (name, v)
    return None


def restore_log(router_mod, saved):
    if saved is not None:
        setattr(router_mod, saved[0], saved[1])


class LogSpy:
    """Stands in for `router.log`: counts log.err() calls."""
    def __init__(self):
        self.n = 0

    def err(self, *a, **k):
        self.n += 1

    def msg(self, *a, **k):
        pass


class Spy:
    def __init__(self):
        self.calls = []


def find_rule(router_obj, rid):
    """The rule object a MessageRouter keeps for the id `rid`, wherever it keeps it (dict, list, ...)."""
    for v in vars(router_obj).values():
        cands = list(v.values()) if isinstance(v, dict) else (list(v) if isinstance(v, (list, tuple, set)) else [])
        for o in cands:
            if getattr(o, 'id', None) == rid and hasattr(o, 'match'):
                return o
    return None


def stored_rule(r):
    """The logical content of a real router.Rule, read through a layout-agnostic accessor: the (key, value)
    constraints it holds - in its `simple` list, as instance attributes, or inside any dict attribute (the private
    layout of Rule objects is not the property's business)."""
    def val(v):
        if v is None:
            return '~'
        if isinstance(v, bool):
            return 'b%r' % v
        if isinstance(v, int):
            return 'i%d' % v
        if isinstance(v, str):
            return 's' + hx(v)
        if isinstance(v, (list, tuple)) and all(isinstance(e, (list, tuple)) and len(e) == 2 and isinstance(e[0], int)
                                                and isinstance(e[1], str) for e in v):
            return 'p' + enc_pairs(list(v))
        raise TypeError('unreadable')
    if r is None:
        return 'rule=?'               # the router's bookkeeping is not recognisable: compared by behaviour only
    entries = []
    for k, v in vars(r).items():
        if k in ('callback', 'id', 'router') or callable(v):
            continue
        if isinstance(v, dict):
            entries += list(v.items())
        elif isinstance(v, (list, tuple)) and all(isinstance(e, tuple) and len(e) == 2 and isinstance(e[0], str) for e in v):
            entries += list(v)                  # a list of (key, value) pairs (`simple`)
        else:
            entries.append((k, v))
    try:
        return 'rule=' + (';'.join(sorted('%s:%s' % (k, val(v)) for k, v in entries)) or '.')
    except TypeError:
        return 'rule=?'               # holds something that is not plain data (closures, ...): behaviour only


def canon_stored(line):
    """A stored rule as the set of its constraints (model: 'simple=.. attrs=..'; implementation: 'rule=..'):
    where and in which order addMatch keeps the constraints of a conjunction is not observable."""
    if ' ' not in line and '=' not in line:
        return line
    entries = []
    for p in line.split(' '):
        if '=' in p:
            v = p.split('=', 1)[1]
            if v != '.':
                entries += v.split(';')
    return 'rule=' + (';'.join(sorted(entries)) or '.')


CLOSED_KEYS = ['type', 'sender', 'interface', 'member', 'path', 'path_namespace', 'destination', 'arg0namespace']


def spec_meaning(text):
    """The constraints a rule text means (specification keys; argN / argNpath with decimal N), as the sorted
    list of 'key=<hex value>' - or None when the text is not a rule or names an unknown key."""
    p = spec_parse_rule(text)
    if p is None:
        return None
    out = []
    for k, v in p:
        if k in CLOSED_KEYS:
            out.append('%s=%s' % (k, hx(v)))
        elif k.startswith('arg'):
            r = k[3:]
            suffix = ''
            if r.endswith('path'):
                r, suffix = r[:-4], 'path'
            if r and all(c in '0123456789' for c in r):
                out.append('arg%d%s=%s' % (int(r), suffix, hx(v)))
            else:
                return None
        else:
            return None
    return sorted(out)


def make_connection():
    """A DBusClientConnection that finished its handshake and its Hello, on a StringTransport."""
    from twisted.internet.testing import StringTransport
    from txdbus import client, message
    c = client.DBusClientConnection()
    c.factory = client.DBusClientFactory()
    t = StringTransport()
    c.makeConnection(t)
    t.clear()
    c.dataReceived(b'OK 1234deadbeef\r\n')
    raw = t.value()
    t.clear()
    i = raw.index(b'BEGIN\r\n') + 7
    hello = message.parseMessage(raw[i:], [])
    assert hello.member == 'Hello'
    got = []
    c.factory.getConnection().addCallback(got.append)
    c.dataReceived(message.MethodReturnMessage(hello.serial, body=[':1.7'], signature='s', destination=':1.7').rawMessage)
    assert got and c.busName == ':1.7'
    return c, t


def drain_calls(t):
    """Messages written to the transport since the last call: [(member, body, serial)]."""
    import struct
    from txdbus import message
    raw = t.value()
    t.clear()
    out = []
    while raw:
        endian = '<' if raw[:1] == b'l' else '>'
        blen = struct.unpack(endian + 'I', raw[4:8])[0]
        hlen = struct.unpack(endian + 'I', raw[12:16])[0]
        h = 16 + hlen
        pad = (8 - h % 8) % 8
        n = h + pad + blen
        m = message.parseMessage(raw[:n], [])
        raw = raw[n:]
        out.append((getattr(m, 'member', None), m.body, m.serial, m))
    return out


# ------------------------------------------------------------------------------------------ directed cases
def SIG(path='/a/b', member='M', interface='a.b', **kw):
    d = {'kind': 'signal', 'path': path, 'member': member, 'interface': interface, 'destination': None,
         'sender': None, 'signature': None, 'body': None}
    d.update(kw)
    return d


DIRECTED = [
    # (rule kwargs, message spec)  - exemplars of the defects observed on the original tree and their neighbours
    ({'mtype': 'error'}, SIG()),
    ({'mtype': 'signal'}, SIG()),
    ({'mtype': 'method_call'}, SIG()),
    ({'mtype': 'bogus'}, SIG()),
    ({'mtype': 'signal'}, {'kind': 'error', 'destination': ':1.1', 'sender': None, 'signature': None, 'body': None}),
    ({'mtype': 'error'}, {'kind': 'error', 'destination': ':1.1', 'sender': None, 'signature': None, 'body': None}),
    ({'member': 'M'}, {'kind': 'method_return', 'destination': ':1.1', 'sender': None, 'signature': None, 'body': None}),
    ({'path_namespace': '/a/b'}, SIG(path='/a/bc')),
    ({'path_namespace': '/a/b'}, SIG(path='/a/b')),
    ({'path_namespace': '/a/b'}, SIG(path='/a/b/c')),
    ({'path_namespace': '/a/b'}, SIG(path='/a')),
    ({'path_namespace': '/'}, SIG(path='/a/b')),
    ({'path_namespace': '/'}, SIG(path='/')),
    ({'path_namespace': '/a/b/'}, SIG(path='/a/b/c')),
    ({'path_namespace': '/a'}, SIG(path='/aa')),
    ({'args': [[0, 'x']]}, SIG()),
    ({'args': [[0, 'x']]}, SIG(signature='s', body=['x'])),
    ({'args': [[0, 'x']]}, SIG(signature='s', body=['xy'])),
    ({'args': [[1, 'x']]}, SIG(signature='s', body=['x'])),
    ({'args': [[0, 'x']]}, SIG(signature='i', body=[7])),
    ({'args': [[0, '']]}, SIG(signature='s', body=[''])),
    ({'args': [[0, '/a/b']]}, SIG(signature='o', body=['/a/b'])),
    ({'arg_paths': [[0, '/aa/bb']]}, SIG()),
    ({'arg_paths': [[0, '/aa/bb']]}, SIG(signature='s', body=['/aa/bbc'])),
    ({'arg_paths': [[0, '/aa/bb']]}, SIG(signature='s', body=['/aa/bb'])),
    ({'arg_paths': [[0, '/aa/bb']]}, SIG(signature='o', body=['/aa/bb'])),
    ({'arg_paths': [[0, '/aa/bb/']]}, SIG(signature='s', body=['/aa/'])),
    ({'arg_paths': [[0, '/aa/bb/']]}, SIG(signature='s', body=['/aa/bb/cc'])),
    ({'arg_paths': [[0, '/aa/bb/']]}, SIG(signature='s', body=['/aa/bb'])),
    ({'arg_paths': [[0, '/aa/bb']]}, SIG(signature='s', body=['/aa/'])),
    ({'arg_paths': [[0, '/aa/bb']]}, SIG(signature='s', body=['/aa/bb/'])),
    ({'arg_paths': [[0, '/aa/bb']]}, SIG(signature='s', body=['/aa/bb/cc'])),
    ({'arg_paths': [[0, '/']]}, SIG(signature='s', body=['/aa/bb'])),
    ({'arg_paths': [[0, '/aa/']]}, SIG(signature='i', body=[5])),
    ({'arg_paths': [[1, '/aa/']]}, SIG(signature='s', body=['/aa/'])),
    ({'arg0namespace': 'com.ex'}, SIG(signature='s', body=['com.ex'])),
    ({'arg0namespace': 'com.ex'}, SIG(signature='s', body=['com.ex.a'])),
    ({'arg0namespace': 'com.ex'}, SIG(signature='ss', body=['com.ex.a.b', 'x'])),
    ({'arg0namespace': 'com.ex'}, SIG(signature='s', body=['com.exa'])),
    ({'arg0namespace': 'com.ex'}, SIG(signature='s', body=['com.e'])),
    ({'arg0namespace': 'com.ex'}, SIG(signature='s', body=['com'])),
    ({'arg0namespace': 'com.ex'}, SIG(signature='s', body=['org.other'])),
    ({'arg0namespace': 'com.ex'}, SIG(signature='ss', body=['x', 'com.ex'])),
    ({'arg0namespace': 'com.ex'}, SIG(signature='i', body=[7])),
    ({'arg0namespace': 'com.ex'}, SIG(signature='as', body=[['com.ex']])),
    ({'arg0namespace': 'com.ex'}, SIG()),
    ({'arg0namespace': 'com.ex.'}, SIG(signature='s', body=['com.ex.a'])),
    ({'arg0namespace': 'com'}, SIG(signature='s', body=['com.ex.a'])),
    ({'arg0namespace': 'com.ex', 'member': 'M'}, SIG(signature='s', body=['com.exa'])),
    ({'arg0namespace': 'com.ex', 'member': 'N'}, SIG(signature='s', body=['com.ex.a'])),
    ({'arg0namespace': 'com.ex', 'args': [[0, 'com.ex.a']]}, SIG(signature='s', body=['com.ex.a'])),
    ({'arg0namespace': '/a'}, SIG(signature='o', body=['/a'])),
    ({'interface': 'a.b'}, SIG(interface='a.bc')),
    ({'path': '/a/b'}, SIG(path='/a/bc')),
    ({'member': 'M'}, SIG(member='Mm')),
    ({'destination': ':1.1'}, SIG(destination=':1.10')),
    ({'destination': ':1.1'}, SIG()),
    ({'sender': ':1.5'}, SIG(sender='x.y')),
    ({'interface': ''}, SIG()),
    ({'args': []}, SIG()),
    ({}, SIG()),
]


# ------------------------------------------------------------------------------------------ streams
def stream_pairs(ctx, cases, label):
    """cases: [(kw, msg_spec, parse)] -> mkrule + match correspondence, oracle, oracle-vs-spec."""
    from txdbus import router
    lines, obs = [], []
    spy = LogSpy()
    saved = swap_log(router, spy)
    try:
        for kw, spec, parse in cases:
            m = build_message(spec, parse=parse)
            mv = view(m)
            r = router.MessageRouter()
            hits = []
            try:
                rid = r.addMatch(hits.append, **call_kw(kw))
                try:
                    stored = stored_rule(find_rule(r, rid))
                except Exception:
                    stored = 'rule=?'
            except Exception as e:
                stored = 'addfailed'
                rid = None
            n0 = spy.n
            if rid is not None:
                r.routeMessage(m)
            logged = spy.n - n0
            called = len(hits)
            outcome = 'addfailed' if rid is None else ('call' if called else ('err' if logged else 'skip'))
            if called > 1:
                outcome = 'call*%d' % called
            obs.append((kw, spec, parse, mv, stored, outcome, called, logged, m))
            lines.append('mkrule ' + enc_rule(kw))
            lines.append('match ' + enc_rule(kw) + ' ' + enc_msg(mv))
            lines.append('spec ' + enc_rule(kw) + ' ' + enc_msg(mv))
    finally:
        restore_log(router, saved)
    out = ctx.model(lines)
    layout_differs = []
    for i, (kw, spec, parse, mv, stored, outcome, called, logged, m) in enumerate(obs):
        inp = {'stream': 'match-pairs', 'rule': clean_kw(kw), 'message': spec, 'parsed': parse}
        ctx.case('mkrule', sample={'rule': clean_kw(kw)})
        ctx.case('match-pairs', sample=inp)
        ctx.impl_trace()
        ctx.stat('pairs:%s:%s' % (label, outcome))
        ctx.stat('msg-kind:' + spec['kind'])
        ctx.stat('rule-keys:%d' % len(clean_kw(kw)))
        idxs = [i_ for i_, _ in (kw.get('args') or [])] + [i_ for i_, _ in (kw.get('arg_paths') or [])]
        if any(i_ >= 10 for i_ in idxs):
            ctx.stat('two-digit-index' + (':invoked' if called else ''))
        if called and any(i_ > 0 for i_ in idxs):
            ctx.stat('positive-match-at-index>0')
        if called and len(clean_kw(kw)) >= 3:
            ctx.stat('positive-match-with>=3-keys')
        for k in clean_kw(kw):
            ctx.stat('rule-key:' + k)
        if out is not None:
            m_stored, m_out, m_spec = out[3 * i], out[3 * i + 1], out[3 * i + 2]
            if stored == 'rule=?':
                ctx.stat('mkrule:layout-not-recognised(compared by behaviour only)')
            elif canon_stored(m_stored) != canon_stored(stored):
                layout_differs.append((kw, m_stored, stored))
            # the model separates "returned quietly" from "raised and logged"; compare the invocation,
            # keep the logging difference as a statistic (a guard that avoids the exception is harmless)
            if (m_out == 'call') != (outcome == 'call') or (m_out == 'addfailed') != (outcome == 'addfailed') \
                    or outcome.startswith('call*'):
                ctx.disagree('match-pairs', inp, m_out, outcome)
            elif m_out != outcome:
                ctx.stat('log-err-differs')
            verdict, _ = oracle_matches(kw, mv)
            ctx.case('oracle-vs-spec', sample=None)
            if verdict is not None and m_spec != ('1' if verdict else '0'):
                ctx.disagree('oracle-vs-spec', inp, m_spec, verdict)
        if outcome != 'addfailed':
            judge(ctx, kw, m, mv, called > 0, 'match-pairs', inp)
            if called > 1:
                ctx.violation('invoked-twice', 'one rule, one message: callback invoked %d times' % called, inp=inp,
                              observed=called, expected=1)
    if layout_differs:
        confirm_by_behaviour(ctx, layout_differs)


def confirm_by_behaviour(ctx, layout_differs):
    """The constraints read off a real Rule object differ from the model's stored rule.  The layout of Rule objects
    is private: what counts is which messages the rule matches - run the rule against a battery of signals on the
    real router and on the model; only a behavioural difference is a disagreement."""
    seen = set()
    todo = []
    for kw, m_stored, stored in layout_differs:
        key = json.dumps(clean_kw(kw), sort_keys=True)
        if key in seen or len(todo) >= 40:
            continue
        seen.add(key)
        todo.append((kw, m_stored, stored))
    lines, impl = [], []
    for kw, m_stored, stored in todo:
        for spec in PROBE_SPECS + derived_specs(kw):
            m = build_message(spec)
            lines.append('match ' + enc_rule(kw) + ' ' + enc_msg(view(m)))
            impl.append(impl_single(kw, m))
    out = ctx.model(lines) or []
    k = 0
    for kw, m_stored, stored in todo:
        n = len(PROBE_SPECS + derived_specs(kw))
        bad = [j for j in range(k, k + n) if (out[j] == 'call') != bool(impl[j])] if out else []
        k += n
        if bad:
            ctx.disagree('mkrule', {'rule': clean_kw(kw)}, m_stored, stored,
                         detail='stored rule differs and so does its behaviour: ' + lines[bad[0]])
        else:
            ctx.stat('mkrule:layout-differs-behaviour-same')


def gen_history(rng, n_ops):
    """A router history: list of ops over a small pool of messages and rules derived from them."""
    specs = [gen_msg_spec(rng, 'signal' if rng.random() < 0.8 else None) for _ in range(3)]
    ops = []
    n_add = 0
    for _ in range(n_ops):
        q = rng.random()
        if q < 0.40 or n_add == 0:
            spec = rng.choice(specs)
            mv = view(build_message(spec))
            kw = gen_rule_for(rng, mv, p_key=0.25, p_miss=0.25)
            ops.append(['add', rng.randrange(4), clean_kw(kw)])
            n_add += 1
        elif q < 0.58:
            # mostly an id that was handed out, sometimes never / no longer valid
            ops.append(['del', rng.randrange(n_add) if rng.random() < 0.85 else n_add + rng.randrange(3)])
        else:
            spec = rng.choice(specs) if rng.random() < 0.8 else gen_msg_spec(rng)
            raises = sorted(set(rng.randrange(4) for _ in range(rng.choice([0, 0, 1, 2, 4]))))
            ops.append(['route', raises, spec])
    return ops


class Boom(Exception):
    pass


class Halt(BaseException):
    """A BaseException subclass (like SystemExit / GeneratorExit / CancelledError) raised by a callback."""


def raise_for(cb):
    """What a raising callback raises: plain exceptions and BaseException subclasses."""
    if cb % 4 == 3:
        raise Halt('callback %d' % cb)
    if cb % 4 == 2:
        raise SystemExit('callback %d' % cb)
    raise Boom('callback %d raises' % cb)


def canon_inv(line):
    """'inv=2:1,0:3 log=1 [escaped]' with the invoked pairs sorted (the statement fixes no order)."""
    parts = line.split(' ')
    if not parts[0].startswith('inv='):
        return line
    body = parts[0][4:]
    if body != '.':
        pairs = sorted(tuple(int(x) for x in p.split(':')) for p in body.split(','))
        body = ','.join('%d:%d' % p for p in pairs)
    return ' '.join(['inv=' + body] + parts[1:])


def run_history(ctx, ops, inp_extra=None):
    """Run one router history on the real MessageRouter and on the model; oracle on the implementation.
    The oracle identifies a registration by the order of its addMatch call (tag), never by the id value:
    the statement does not forbid an implementation from reissuing the id of a removed rule."""
    from txdbus import router
    spy = LogSpy()
    saved = swap_log(router, spy)
    lines = ['reset']
    impl = ['ok']
    inp = {'stream': 'route-histories', 'ops': ops}
    reg = {}           # oracle registry: tag -> dict(kw, cb, state 'live'|'removed', id)
    id_to_tag = {}     # id currently naming a live registration -> its tag
    ids_seen = []
    try:
        r = router.MessageRouter()
        fired = []
        raising = set()

        def make_cb(cb, tag):
            def f(m):
                fired.append((tag, cb))
                if cb in raising:
                    raise_for(cb)
            return f
        n_tags = 0
        for op in ops:
            if op[0] == 'add':
                _, cb, kw = op
                tag = n_tags
                n_tags += 1
                try:
                    rid = r.addMatch(make_cb(cb, tag), **call_kw(kw))
                    impl.append('id %d' % rid)
                    if rid in ids_seen:
                        ctx.stat('id-reissued')        # model correspondence decides; not a property demand
                    ids_seen.append(rid)
                    reg[tag] = {'kw': kw, 'cb': cb, 'state': 'live', 'id': rid}
                    id_to_tag[rid] = tag
                except Exception:
                    impl.append('addfailed')
                lines.append('add %d %s' % (cb, enc_rule(kw)))
            elif op[0] == 'del':
                try:
                    r.delMatch(op[1])
                    impl.append('ok')
                    tag = id_to_tag.pop(op[1], None)
                    if tag is not None:
                        reg[tag]['state'] = 'removed'
                except KeyError:
                    impl.append('keyerror')
                lines.append('del %d' % op[1])
            else:
                _, raises, spec = op
                m = build_message(spec)
                mv = view(m)
                raising.clear()
                raising.update(raises)
                del fired[:]
                n0 = spy.n
                escaped = None
                try:
                    r.routeMessage(m)
                except BaseException as e:       # nothing may escape routeMessage
                    escaped = repr(e)
                inv = [(reg[tag]['id'], cb) for tag, cb in fired if tag in reg]
                impl.append(canon_inv('inv=%s log=%d' % (','.join('%d:%d' % ic for ic in inv) or '.', spy.n - n0)
                                      + (' escaped' if escaped else '')))
                lines.append('route %s %s' % (enc_raises(raises), enc_msg(mv)))
                ctx.impl_trace()
                if mv['mtype'] != 4:
                    continue
                # ---- oracle: invoked multiset == live registrations that match, each once
                expected, undecided = set(), set()
                for tag, g in reg.items():
                    if g['state'] != 'live':
                        continue
                    v, _ = oracle_matches(g['kw'], mv)
                    if v is None:
                        undecided.add(tag)
                    elif v:
                        expected.add(tag)
                got = [tag for tag, _ in fired if tag not in undecided]
                if any(cb % 4 >= 2 for cb in raises):
                    ctx.stat('history-route:base-exception-callback')
                if len(expected) > 1:
                    ctx.stat('history-route:several-rules-match')
                if escaped:
                    ctx.violation('exception-escapes-routing', 'routeMessage raised %s: an exception of one callback '
                                  'reaches the caller and the remaining rules are not evaluated' % escaped, inp=inp,
                                  observed=escaped, expected='no exception')
                bad = None
                for tag in sorted(set(got)):
                    if got.count(tag) > 1:
                        bad = ('invoked-twice', 'registration #%d invoked %d times for one signal' % (tag, got.count(tag)))
                    elif reg[tag]['state'] == 'removed':
                        bad = ('removed-rule-invoked', 'registration #%d (id %d) was removed and is invoked again'
                               % (tag, reg[tag]['id']))
                if bad is None and set(got) != expected:
                    tag = sorted(set(got) ^ expected)[0]
                    kw = reg[tag]['kw']
                    v, failing = oracle_matches(kw, mv)
                    bad = explain(kw, m, mv, tag in got, v, failing)
                    if tag not in got and raises:
                        raising.clear()
                        del fired[:]
                        try:
                            r.routeMessage(m)
                        except BaseException:
                            pass
                        if tag in [t for t, _ in fired]:
                            bad = ('callback-exception-stops-routing',
                                   'a raising callback prevented the matching registration #%d from being invoked '
                                   '(it is invoked when no callback raises)' % tag)
                if bad is not None:
                    ctx.violation(bad[0] or 'invoked-set-differs', bad[1] or 'invoked set differs', inp=inp,
                                  observed=sorted(set(got)), expected=sorted(expected))
                else:
                    ctx.stat('history-route:ok')
    finally:
        restore_log(router, saved)
    out = ctx.model(lines)
    ctx.case('route-histories', sample=inp)
    ctx.stat('history-len:%d' % (len(ops) // 5 * 5))
    if out is not None:
        for i, (a, b) in enumerate(zip(out, impl)):
            a = canon_inv(a)
            if a != b:
                # logging differences alone are tolerated (see stream_pairs)
                if a.startswith('inv=') and b.startswith('inv=') and a.split(' ')[0] == b.split(' ')[0] \
                        and 'escaped' not in b:
                    ctx.stat('log-err-differs')
                    continue
                ctx.disagree('route-histories', inp, {'line': lines[i], 'out': a}, {'out': b}, detail='op %d' % (i - 1))
                break


def gen_client_history(rng, n_ops):
    specs = [gen_msg_spec(rng, 'signal') for _ in range(3)]
    ops, n_calls, n_add = [], 0, 0
    for _ in range(n_ops):
        q = rng.random()
        if q < 0.28 or n_add == 0:
            mv = view(build_message(rng.choice(specs)))
            kw = gen_rule_for(rng, mv, p_key=0.25, p_miss=0.25)
            # client API names
            ops.append(['cadd', rng.randrange(4), clean_kw(kw)])
            n_calls += 1
            n_add += 1
        elif q < 0.42:
            ops.append(['cdel', rng.randrange(n_add + 1)])
            n_calls += 1          # may not issue a call (KeyError); indices are assigned at run time
        elif q < 0.72 and n_calls:
            ops.append(['cok' if rng.random() < 0.85 else 'cerr', rng.randrange(n_calls)])
        else:
            raises = sorted(set(rng.randrange(4) for _ in range(rng.choice([0, 0, 1, 2]))))
            ops.append(['csig', raises, rng.choice(specs) if rng.random() < 0.85 else gen_msg_spec(rng, 'signal')])
    return ops


def text_constraints(kw):
    """The constraints a rule text must express for the addMatch arguments kw: sorted list of
    (text key, value) - the order of the items in a rule text carries no meaning."""
    exp = []
    names = {'mtype': 'type', 'sender': 'sender', 'interface': 'interface', 'member': 'member', 'path': 'path',
             'path_namespace': 'path_namespace', 'destination': 'destination', 'arg0namespace': 'arg0namespace'}
    for k, tk in names.items():
        if kw.get(k) is not None:
            exp.append((tk, kw[k]))
    for i, v in (kw.get('args') or []):
        exp.append(('arg%d' % i, v))
    for i, v in (kw.get('arg_paths') or []):
        exp.append(('arg%dpath' % i, v))
    return sorted(exp)


def spec_parse_rule(text):
    """Match-rule text as the DBus specification defines it ("Match Rules": comma-separated key=value pairs;
    an apostrophe starts / ends a quoted stretch in which every other character is literal; outside quotes
    a backslash followed by an apostrophe is a literal apostrophe and a comma ends the value).  Written
    from the specification, independent of txdbus.  Returns the list of (key, value), or None when the
    text is not a rule (an item without '=', an unterminated quote)."""
    out = []
    i, n = 0, len(text)
    if n == 0:
        return out
    while True:
        j = text.find('=', i)
        if j < 0:
            return None
        key = text[i:j]
        if ',' in key or "'" in key:
            return None
        i = j + 1
        val, quoted = [], False
        while i < n:
            ch = text[i]
            if quoted:
                if ch == "'":
                    quoted = False
                else:
                    val.append(ch)
            elif ch == "'":
                quoted = True
            elif ch == ',':
                break
            elif ch == '\\' and i + 1 < n and text[i + 1] == "'":
                val.append("'")
                i += 1
            else:
                val.append(ch)
            i += 1
        if quoted:
            return None
        out.append((key, ''.join(val)))
        if i >= n:
            return out
        i += 1          # the comma; another item must follow


def canon_text(text):
    """A rule text up to the order of its items (raw when it is not a rule)."""
    p = spec_parse_rule(text)
    if p is None:
        # not a rule by the specification (an unescaped apostrophe, ...): items as the client separates them
        return 'raw:' + ';'.join(hx(x) for x in sorted(text.split("',")))
    return 'rule:' + ';'.join('%s=%s' % (hx(k), hx(v)) for k, v in sorted(p))


def text_judgeable(kw):
    """The rule-text clause is judged for rules whose matching is judged (no empty constraint value among the
    simple keys).  Every other value is judged: commas, equals signs, backslashes and apostrophes inside a
    value all have a defined spelling in a match rule."""
    for k in ('mtype', 'interface', 'member', 'path', 'destination', 'path_namespace', 'sender', 'arg0namespace'):
        if kw.get(k) == '':
            return False
    return True


def check_meaning(ctx, text, model_line):
    """Python reading of a rule text (spec_meaning) against Lean's Spec.ruleTextMeaning."""
    want = spec_meaning(text)
    got = None if model_line == 'none' else ([] if model_line == '.' else sorted(model_line.split(';')))
    ctx.case('oracle-vs-spec', sample=None)
    if want != got:
        ctx.disagree('oracle-vs-spec', {'stream': 'bus-parse', 'text': text}, model_line, want, detail='meaning of a rule text')


def judge_text(ctx, kw, text):
    """'The rule text sent to the bus daemon expresses the same constraints': read the text with the
    specification's grammar and compare the constraints (as a multiset)."""
    if not text_judgeable(kw):
        ctx.stat('rule-text:not-judged(empty constraint value)')
        return
    got = spec_parse_rule(text)
    want = text_constraints(kw)
    if got is None or sorted(got) != want:
        vals = [v for v in kw.values() if isinstance(v, str)] + [x for k in ('args', 'arg_paths') for _, x in (kw.get(k) or [])]
        key = 'rule-text-unescaped-apostrophe' if any("'" in v for v in vals) else 'rule-text-differs'
        ctx.violation(key, 'the AddMatch text does not express the constraints of the rule: %r' % (text,),
                      inp={'stream': 'rule-text', 'rule': clean_kw(kw)}, observed=text, expected=[list(x) for x in want])
    else:
        ctx.stat('rule-text:ok')


def run_client_history(ctx, ops):
    """One history on a real DBusClientConnection.  Oracle, by registration (tag = order of the addMatch
    call): a registration is judged only while it is *settled* - acknowledged and no removal requested
    ('live': invoked iff the signal matches) or removal acknowledged ('removed': never invoked).  Between a
    request and its acknowledgement, after an error reply, and for ids the oracle cannot attribute, nothing
    is demanded: the statement does not fix the moment at which a registration or a removal takes effect."""
    from txdbus import message, router
    spy = LogSpy()
    saved = swap_log(router, spy)
    inp = {'stream': 'client-histories', 'ops': ops}
    lines, impl = ['reset'], ['ok']
    try:
        c, t = make_connection()
        calls = []            # k-th AddMatch/RemoveMatch call: dict(serial, kind, tag, answered)
        results = {}          # k -> outcome string, filled by Deferred callbacks
        fired = []
        raising = set()
        reg = {}              # tag -> dict(kw, cb, text, state, id)
        id_to_tag = {}

        def make_cb(cb, tag):
            def f(m):
                fired.append((tag, cb))
                if cb in raising:
                    raise_for(cb)
            return f
        for op in ops:
            if op[0] == 'cadd':
                _, cb, kw = op
                k = len(calls)
                tag = len(reg)
                ckw = call_kw(kw)
                if 'args' in ckw:
                    ckw['arg'] = ckw.pop('args')
                if 'arg_paths' in ckw:
                    ckw['arg_path'] = ckw.pop('arg_paths')
                d = c.addMatch(make_cb(cb, tag), **ckw)
                sent = [x for x in drain_calls(t)]
                if len(sent) != 1 or sent[0][0] != 'AddMatch':
                    # not what the model does (one AddMatch per addMatch): a disagreement; the bookkeeping below
                    # (calls numbered in the order written) has no meaning for the rest of this history
                    impl.append('sent %s' % (','.join(str(x[0]) for x in sent) or 'nothing'))
                    lines.append('cadd %d %s' % (cb, enc_rule(kw)))
                    ctx.stat('client-histories:addMatch-wrote-%d-calls' % len(sent))
                    break
                text = sent[0][1][0]
                calls.append({'serial': sent[0][2], 'kind': 'add', 'tag': tag, 'answered': False})
                reg[tag] = {'kw': kw, 'cb': cb, 'text': text, 'state': 'pending-add', 'id': None}
                d.addCallbacks(lambda rid, k=k: results.__setitem__(k, 'adddone %d' % rid),
                               lambda f, k=k: results.__setitem__(k, 'failed'))
                impl.append('sentadd ' + canon_text(text))
                lines.append('cadd %d %s' % (cb, enc_rule(kw)))
                m0 = sent[0][3]
                if (m0.path, m0.interface, m0.destination, m0.signature) != \
                        ('/org/freedesktop/DBus', 'org.freedesktop.DBus', 'org.freedesktop.DBus', 's'):
                    ctx.stat('addmatch-call-addressing-unusual')     # engineering check, not a property demand
                judge_text(ctx, kw, text)
            elif op[0] == 'cdel':
                rid = op[1]
                k = len(calls)
                try:
                    d = c.delMatch(rid)
                except KeyError:
                    impl.append('keyerror')
                    lines.append('cdel %d' % rid)
                    continue
                sent = drain_calls(t)
                lines.append('cdel %d' % rid)
                if len(sent) != 1 or sent[0][0] != 'RemoveMatch':
                    impl.append('sent %r' % ([x[0] for x in sent],))
                    continue
                text = sent[0][1][0]
                tag = id_to_tag.get(rid)
                calls.append({'serial': sent[0][2], 'kind': 'del', 'tag': tag, 'answered': False})
                d.addCallbacks(lambda _, k=k: results.__setitem__(k, 'deldone'),
                               lambda f, k=k: results.__setitem__(k, 'delfailed' if f.check(KeyError) else 'failed'))
                impl.append('sentremove ' + canon_text(text))
                if tag is not None:
                    if reg[tag]['state'] == 'live':
                        reg[tag]['state'] = 'removing'
                    ctx.stat('removematch-text:%s' % ('same-as-addmatch' if reg[tag]['text'] == text else 'differs'))
            elif op[0] in ('cok', 'cerr'):
                k = op[1]
                lines.append('%s %d' % (op[0], k))
                if k >= len(calls):
                    impl.append('ignored')
                    continue
                call = calls[k]
                results.pop(k, None)
                if op[0] == 'cok':
                    reply = message.MethodReturnMessage(call['serial'], destination=':1.7')
                else:
                    reply = message.ErrorMessage('org.freedesktop.DBus.Error.MatchRuleInvalid', call['serial'],
                                                 destination=':1.7', signature='s', body=['no'])
                c.dataReceived(reply.rawMessage)
                res = results.get(k, 'ignored')
                impl.append(res)
                if call['answered']:
                    continue
                call['answered'] = True
                tag = call['tag']
                if call['kind'] == 'add':
                    g = reg[tag]
                    if op[0] == 'cok' and res.startswith('adddone'):
                        g['state'] = 'live'
                        g['id'] = int(res.split()[1])
                        id_to_tag[g['id']] = tag
                    else:
                        g['state'] = 'unsettled'         # refused by the daemon, or the client reported a failure
                elif tag is not None:
                    g = reg[tag]
                    if op[0] == 'cok' and g['state'] == 'removing':
                        g['state'] = 'removed'
                        if id_to_tag.get(g['id']) == tag:
                            del id_to_tag[g['id']]
                    # error reply to RemoveMatch: stays 'removing' - not judged any more
            else:
                _, raises, spec = op
                m = build_message(spec, parse=False)
                mv = view(build_message(spec))
                raising.clear()
                raising.update(raises)
                del fired[:]
                n0 = spy.n
                escaped = None
                try:
                    c.dataReceived(m.rawMessage)
                except BaseException as e:      # Twisted would drop the connection ("lost by the reactor")
                    escaped = repr(e)
                inv = [(reg[tag]['id'] if reg[tag]['id'] is not None else -1, cb) for tag, cb in fired]
                impl.append(canon_inv('inv=%s log=%d' % (','.join('%d:%d' % ic for ic in inv) or '.', spy.n - n0)
                                      + (' escaped' if escaped else '')))
                if escaped:
                    ctx.violation('exception-escapes-routing', 'an exception raised by a signal callback escapes '
                                  'dataReceived (%s): the connection is lost and later callbacks are not invoked' % escaped,
                                  inp=inp, observed=escaped, expected='no exception')
                lines.append('csig %s %s' % (enc_raises(raises), enc_msg(mv)))
                ctx.impl_trace()
                expected, judged = set(), set()
                for tag, g in reg.items():
                    if g['state'] == 'live':
                        v, _f = oracle_matches(g['kw'], mv)
                        if v is None:
                            continue
                        judged.add(tag)
                        if v:
                            expected.add(tag)
                    elif g['state'] == 'removed':
                        judged.add(tag)
                    else:
                        ctx.stat('client-signal:registration-in-window-not-judged')
                got = [tag for tag, _ in fired if tag in judged]
                bad = None
                for tag in sorted(set(got)):
                    if got.count(tag) > 1:
                        bad = ('invoked-twice', 'registration #%d invoked %d times' % (tag, got.count(tag)))
                    elif reg[tag]['state'] == 'removed':
                        bad = ('removed-rule-invoked', 'registration #%d (id %s): its removal was acknowledged and it '
                               'is invoked again' % (tag, reg[tag]['id']))
                if bad is None and set(got) != expected:
                    tag = sorted(set(got) ^ expected)[0]
                    kw = reg[tag]['kw']
                    v, failing = oracle_matches(kw, mv)
                    bad = explain(kw, build_message(spec), mv, tag in got, v, failing)
                    if tag not in got and raises:
                        raising.clear()
                        del fired[:]
                        try:
                            c.dataReceived(m.rawMessage)
                        except BaseException:
                            pass
                        if tag in [t_ for t_, _ in fired]:
                            bad = ('callback-exception-stops-routing',
                                   'a raising callback prevented the matching registration #%d from being invoked '
                                   '(it is invoked when no callback raises)' % tag)
                if bad is not None:
                    ctx.violation(bad[0] or 'invoked-set-differs', bad[1] or 'invoked set differs', inp=inp,
                                  observed=sorted(set(got)), expected=sorted(expected))
                else:
                    ctx.stat('client-signal:ok')
    finally:
        restore_log(router, saved)
    out = ctx.model(lines)
    ctx.case('client-histories', sample=inp)
    if out is not None:
        for i, (a, b) in enumerate(zip(out, impl)):
            a = canon_inv(a)
            if a.startswith('sentadd ') or a.startswith('sentremove '):
                w, tx = a.split(' ', 1)
                a = w + ' ' + canon_text(unhx(tx))
            if a != b:
                if a.startswith('inv=') and b.startswith('inv=') and a.split(' ')[0] == b.split(' ')[0] \
                        and 'escaped' not in b:
                    ctx.stat('log-err-differs')
                    continue
                ctx.disagree('client-histories', inp, {'line': lines[i], 'out': a}, {'out': b}, detail='op %d' % (i - 1))
                break


# ------------------------------------------------------------------------------------------ client + SPEC daemon
BUS_DRIVER = 'org.freedesktop.DBus'
TEXT_KEY_TO_KW = {'type': 'mtype', 'sender': 'sender', 'interface': 'interface', 'member': 'member', 'path': 'path',
                  'path_namespace': 'path_namespace', 'destination': 'destination', 'arg0namespace': 'arg0namespace'}


def daemon_rule(text):
    """A rule text as a specification-conforming daemon reads it: (canonical form, constraints as kwargs), or None
    when the text is not a rule (grammar, unknown key; also one of the closed keys given twice with different
    values - no message satisfies both, and the generators never produce it).  Two rules are the same rule when
    they consist of the same constraints - spelling and the order of the items carry no meaning."""
    if spec_meaning(text) is None:
        return None
    kw = {}
    for k, v in spec_parse_rule(text):
        if k in TEXT_KEY_TO_KW:
            if kw.get(TEXT_KEY_TO_KW[k], v) != v:
                return None
            kw[TEXT_KEY_TO_KW[k]] = v
        else:
            r, dest = k[3:], 'args'
            if r.endswith('path'):
                r, dest = r[:-4], 'arg_paths'
            kw.setdefault(dest, []).append([int(r), v])
    for k in ('args', 'arg_paths'):
        if k in kw:
            kw[k].sort()
    return json.dumps(kw, sort_keys=True), kw


def daemon_matches(kw, mv):
    """Does the daemon's rule kw select the message?  True / False / None (None: not decided by the statement).  The
    constraints the property lists are evaluated by `oracle_matches`; `sender` and `arg0namespace`, which only a
    daemon evaluates, by the words of the DBus specification."""
    v, _ = oracle_matches({k: x for k, x in kw.items() if k not in ('sender', 'arg0namespace')}, mv)
    if v is False:
        return False
    s = kw.get('sender')
    if s is not None and mv.get('sender') != s:
        return False
    ns = kw.get('arg0namespace')
    if ns is not None:
        body = mv['body'] or []
        if not body or body[0][0] != 'str' or not (body[0][1] == ns or body[0][1].startswith(ns + '.')):
            return False
        if body[0][2] not in ('s', None):
            return None
    return v


class SpecDaemon:
    """What a message bus daemon does for ONE connection, from the DBus specification alone ("Message Bus Messages"):
    AddMatch adds the rule - one entry per call, also when the connection already holds the same rule;
    RemoveMatch removes one instance of the rule and fails with MatchRuleNotFound when the connection holds none;
    a broadcast signal is delivered to the connection while at least one of its rules matches."""

    def __init__(self):
        self.rules = []          # (canonical form, kwargs, text as received), a multiset

    def call(self, member, text):
        """-> None (method return) or the error name."""
        r = daemon_rule(text) if isinstance(text, str) else None
        if r is None:
            return 'org.freedesktop.DBus.Error.MatchRuleInvalid'
        if member == 'AddMatch':
            self.rules.append(r + (text,))
            return None
        for i, (canon, _, _) in enumerate(self.rules):
            if canon == r[0]:
                del self.rules[i]
                return None
        return 'org.freedesktop.DBus.Error.MatchRuleNotFound'

    def forwards(self, mv):
        vs = [daemon_matches(kw, mv) for _, kw, _ in self.rules]
        if any(v is True for v in vs):
            return True
        return None if any(v is None for v in vs) else False

    def held(self):
        return sorted(c for c, _, _ in self.rules)


def daemon_rule_kw(rng, spec):
    """A rule satisfied by the broadcast signal `spec`, with constraints the statement decides (no sender /
    arg0namespace / destination, no empty value)."""
    mv = view(build_message(spec))
    for _ in range(30):
        kw = gen_rule_for(rng, mv, p_key=rng.choice([0.15, 0.3, 0.5]), p_miss=0.0)
        kw = {k: v for k, v in clean_kw(kw).items()
              if k not in ('sender', 'arg0namespace', 'destination') and v != '' and v != []}
        if oracle_matches(kw, mv)[0] is True:
            return kw
    return {}


def gen_daemon_history(rng, n_ops):
    """A history of the connection and its daemon: addMatch (often with constraints identical to an earlier call),
    delMatch of a registration, delivery of the daemon's replies (mostly in order, before or after the next
    operation), broadcast signals; at the end every reply is delivered and one signal satisfying each rule used
    is broadcast, once more after a further removal."""
    pool = []
    for _ in range(rng.choice([1, 2, 2, 3])):
        spec = gen_msg_spec(rng, 'signal')
        spec['destination'] = None
        pool.append((daemon_rule_kw(rng, spec), spec))
    ops, n_add = [], 0

    def sig(spec):
        raises = sorted(set(rng.randrange(4) for _ in range(rng.choice([0, 0, 0, 1, 2]))))
        return ['sig', raises, spec]
    for _ in range(n_ops):
        q = rng.random()
        if q < 0.30 or n_add == 0:
            kw, _spec = pool[0] if rng.random() < 0.6 else rng.choice(pool)
            ops.append(['add', rng.randrange(4), kw])
            n_add += 1
        elif q < 0.42:
            ops.append(['del', rng.randrange(4)])
        elif q < 0.75:
            ops.append(['deliver', 0 if rng.random() < 0.8 else rng.randrange(4)])
        else:
            if rng.random() < 0.8:
                ops.append(sig(rng.choice(pool)[1]))
            else:
                spec = gen_msg_spec(rng, 'signal')
                spec['destination'] = None
                ops.append(sig(spec))
    ops.append(['flush'])
    ops.extend(['sig', [], spec] for _, spec in pool)
    if rng.random() < 0.7:
        ops.append(['del', rng.randrange(4)])
        ops.append(['flush'])
        ops.extend(['sig', [], spec] for _, spec in pool)
    return ops


def run_daemon_history(ctx, ops, batch=None):
    """One history on a real DBusClientConnection whose transport leads to a SpecDaemon.  Every method call the client
    writes to the bus driver is handed to the daemon in the order written; the daemon's reply is delivered when the
    history says so; a broadcast signal reaches the client only when the daemon - holding exactly the rules the
    client's AddMatch / RemoveMatch calls left it with - forwards it.

    Oracle (implementation only), by registration (tag = order of the addMatch call), judged while settled:
    `live` = addMatch's Deferred fired with an id, every call it wrote is answered, delMatch not called for it;
    `removed` = delMatch's Deferred fired and every call it wrote is answered.  For every broadcast signal: a live
    registration is invoked exactly once iff the signal satisfies its rule - through the daemon, for as long as it
    is registered; a removed one never.  delMatch is called at most once per registration (a second RemoveMatch for
    the same text would, by the specification, remove another registration's identical rule)."""
    from txdbus import message, router
    spy = LogSpy()
    saved = swap_log(router, spy)
    inp = {'stream': 'client-daemon', 'ops': ops}
    lines, impl = ['dreset'], ['ok']
    try:
        c, t = make_connection()
        daemon = SpecDaemon()
        outbox = []           # k-th AddMatch/RemoveMatch written: dict(serial, error, delivered, result)
        reg = {}              # tag -> registration
        fired, raising = [], set()
        unusual = [False]

        def make_cb(cb, tag):
            def f(m):
                fired.append((tag, cb))
                if cb in raising:
                    raise_for(cb)
            return f

        def take_written():
            """Hand what the client wrote to the daemon; -> indices of the calls in the outbox, texts."""
            ks, texts, members = [], [], []
            for member, body, serial, m0 in drain_calls(t):
                members.append(member)
                if getattr(m0, 'destination', None) != BUS_DRIVER or member not in ('AddMatch', 'RemoveMatch') \
                        or not body or len(body) != 1:
                    unusual[0] = True
                    ctx.stat('client-daemon:other-call-written')
                    continue
                err = daemon.call(member, body[0])
                ks.append(len(outbox))
                texts.append(body[0])
                outbox.append({'serial': serial, 'error': err, 'delivered': False, 'member': member})
            return ks, texts, members

        def deliver(k):
            call = outbox[k]
            call['delivered'] = True
            if call['error'] is None:
                reply = message.MethodReturnMessage(call['serial'], destination=':1.7')
            else:
                reply = message.ErrorMessage(call['error'], call['serial'], destination=':1.7', signature='s',
                                             body=['refused'])
            c.dataReceived(reply.rawMessage)

        def answered(ks):
            return all(outbox[k]['delivered'] for k in ks)

        def status(g):
            if g['add'] is None or not answered(g['add_calls']):
                return 'pending'
            if g['add'][0] != 'ok':
                return 'unsettled'
            if not g['del_requested']:
                return 'live'
            if g['del'] == 'ok' and answered(g['del_calls']):
                return 'removed'
            return 'unsettled'

        for op in ops:
            if op[0] == 'add':
                _, cb, kw = op
                tag = len(reg)
                ckw = call_kw(kw)
                if 'args' in ckw:
                    ckw['arg'] = ckw.pop('args')
                if 'arg_paths' in ckw:
                    ckw['arg_path'] = ckw.pop('arg_paths')
                g = {'kw': kw, 'cb': cb, 'add': None, 'id': None, 'add_calls': [], 'texts': [],
                     'del_requested': False, 'del': None, 'del_calls': []}
                reg[tag] = g
                d = c.addMatch(make_cb(cb, tag), **ckw)

                def on_ok(rid, g=g):
                    g['add'] = ('ok', rid)
                    g['id'] = rid
                    g['last'] = 'adddone %s' % (rid,)

                def on_fail(f, g=g):
                    g['add'] = ('failed',)
                    g['last'] = 'failed'
                d.addCallbacks(on_ok, on_fail)
                ks, texts, members = take_written()
                g['add_calls'], g['texts'] = ks, texts
                for k in ks:
                    outbox[k]['reg'] = (tag, 'add')
                lines.append('dadd %d %s' % (cb, enc_rule(kw)))
                if members == ['AddMatch'] and len(ks) == 1:
                    impl.append('sentadd ' + canon_text(texts[0]))
                    judge_text(ctx, kw, texts[0])
                else:
                    impl.append('sent %s' % (','.join(str(x) for x in members) or 'nothing'))
                    ctx.stat('client-daemon:addMatch-wrote-%d-calls' % len(members))
            elif op[0] == 'del':
                # op[1] picks among the registrations that are live at this moment (by order of registration)
                live = [x for x in sorted(reg) if status(reg[x]) == 'live' and isinstance(reg[x]['id'], int)]
                if not live:
                    ctx.stat('client-daemon:del-skipped(no live registration)')
                    continue
                dtag = live[op[1] % len(live)]
                g = reg[dtag]
                if sum(1 for x in live if reg[x]['kw'] == g['kw']) > 1:
                    ctx.stat('client-daemon:del-one-of-several-identical-rules')
                g['del_requested'] = True
                lines.append('ddel %d' % g['id'])
                try:
                    d = c.delMatch(g['id'])
                except KeyError:
                    impl.append('keyerror')
                    g['del'] = 'failed'
                    continue

                def on_ok(_, g=g):
                    g['del'] = 'ok'
                    g['last'] = 'deldone'

                def on_fail(f, g=g):
                    g['del'] = 'failed'
                    g['last'] = 'delfailed' if f.check(KeyError) else 'failed'
                d.addCallbacks(on_ok, on_fail)
                ks, texts, members = take_written()
                g['del_calls'] = ks
                for k in ks:
                    outbox[k]['reg'] = (dtag, 'del')
                if members == ['RemoveMatch'] and len(ks) == 1:
                    impl.append('sentremove ' + canon_text(texts[0]))
                    ctx.stat('removematch-text:%s' % ('same-as-addmatch' if texts[:1] == g['texts'][:1] else 'differs'))
                else:
                    impl.append('sent %s' % (','.join(str(x) for x in members) or 'nothing'))
            elif op[0] in ('deliver', 'flush'):
                waiting = [k for k, call in enumerate(outbox) if not call['delivered']]
                if op[0] == 'deliver':
                    if not waiting:
                        ctx.stat('client-daemon:deliver-skipped(nothing outstanding)')
                        continue
                    todo = [waiting[op[1] % len(waiting)]]
                    ctx.stat('client-daemon:reply-%s' % ('in-order' if todo[0] == waiting[0] else 'out-of-order'))
                else:
                    todo = waiting
                for k in todo:
                    tag, _what = outbox[k].get('reg', (None, None))
                    g = reg.get(tag)
                    if g is not None:
                        g['last'] = 'ignored'
                    deliver(k)
                    lines.append('ddeliver %d' % k)
                    impl.append(g['last'] if g is not None else 'ignored')
                    if outbox[k]['error'] is not None:
                        ctx.stat('client-daemon:error-reply:%s:%s' % (outbox[k]['member'], outbox[k]['error'].rsplit('.', 1)[-1]))
            else:
                _, raises, spec = op
                m = build_message(spec, parse=False)
                mv = view(build_message(spec))
                fw = daemon.forwards(mv)
                if fw is None:
                    ctx.stat('client-daemon:signal-skipped(undecided rule/signal pair)')
                    continue
                raising.clear()
                raising.update(raises)
                del fired[:]
                n0 = spy.n
                escaped = None
                if fw:
                    try:
                        c.dataReceived(m.rawMessage)
                    except BaseException as e:
                        escaped = repr(e)
                    inv = [(reg[tag]['id'] if isinstance(reg[tag]['id'], int) else -1, cb) for tag, cb in fired]
                    impl.append(canon_inv('inv=%s log=%d' % (','.join('%d:%d' % ic for ic in inv) or '.', spy.n - n0)
                                          + (' escaped' if escaped else '')))
                else:
                    impl.append('notforwarded')
                lines.append('dsig %s %s' % (enc_raises(raises), enc_msg(mv)))
                ctx.impl_trace()
                ctx.stat('client-daemon:signal-%s' % ('forwarded' if fw else 'not-forwarded'))
                if escaped:
                    ctx.violation('exception-escapes-routing', 'an exception raised by a signal callback escapes '
                                  'dataReceived (%s): the connection is lost and later callbacks are not invoked' % escaped,
                                  inp=inp, observed=escaped, expected='no exception')
                    continue
                expected, judged = set(), set()
                for tag, g in reg.items():
                    st = status(g)
                    if st == 'live':
                        v, _f = oracle_matches(g['kw'], mv)
                        if v is None:
                            continue
                        judged.add(tag)
                        if v:
                            expected.add(tag)
                    elif st == 'removed':
                        judged.add(tag)
                    else:
                        ctx.stat('client-daemon:registration-in-window-not-judged')
                got = [tag for tag, _ in fired if tag in judged]
                bad = None
                for tag in sorted(set(got)):
                    if got.count(tag) > 1:
                        bad = ('invoked-twice', 'registration #%d invoked %d times' % (tag, got.count(tag)))
                    elif status(reg[tag]) == 'removed':
                        bad = ('removed-rule-invoked', 'registration #%d (id %s): its removal was acknowledged and it '
                               'is invoked again' % (tag, reg[tag]['id']))
                if bad is None and not fw:
                    # live registrations whose rule the signal satisfies, and the daemon holds no rule selecting the
                    # signal.  When the text a registration's own AddMatch carried does not select the signal either,
                    # the text is what is wrong (judged by judge_text: rule-text-differs) - not reported here.
                    for tag in sorted(expected):
                        g = reg[tag]
                        own = [daemon_rule(x) for x in g['texts']]
                        if own and all(r is None or daemon_matches(r[1], mv) is not True for r in own):
                            ctx.stat('client-daemon:own-text-does-not-select-the-signal')
                            continue
                        same = [x for x, h in reg.items() if x != tag and h['kw'] == g['kw']]
                        bad = ('live-rule-not-held-by-daemon',
                               'registration #%d (id %s, rule %r) is registered - addMatch succeeded, delMatch was never '
                               'called for it - and the broadcast signal satisfies its rule, but the AddMatch / RemoveMatch '
                               'calls the client wrote leave a specification-conforming daemon (one rule per AddMatch, '
                               'RemoveMatch removes one) without any rule selecting the signal: it is not forwarded and the '
                               'callback is not invoked (AddMatch calls written for this registration: %d; other '
                               'registrations with identical constraints: %r)'
                               % (tag, g['id'], clean_kw(g['kw']), len(g['add_calls']), same))
                        break
                elif bad is None and set(got) != expected:
                    tag = sorted(set(got) ^ expected)[0]
                    g = reg[tag]
                    kw = g['kw']
                    v, failing = oracle_matches(kw, mv)
                    bad = explain(kw, build_message(spec), mv, tag in got, v, failing)
                    if tag not in got and raises:
                        raising.clear()
                        del fired[:]
                        try:
                            c.dataReceived(m.rawMessage)
                        except BaseException:
                            pass
                        if tag in [t_ for t_, _ in fired]:
                            bad = ('callback-exception-stops-routing',
                                   'a raising callback prevented the matching registration #%d from being invoked '
                                   '(it is invoked when no callback raises)' % tag)
                if bad is not None:
                    ctx.violation(bad[0] or 'invoked-set-differs', bad[1] or 'invoked set differs', inp=inp,
                                  observed={'forwarded by the daemon': bool(fw), 'invoked': sorted(set(got)),
                                            'rules held by the daemon': [json.loads(x) for x in daemon.held()]},
                                  expected={'invoked': sorted(expected)})
                    break
                ctx.stat('client-daemon:signal-ok')
        # the daemon's rules against the local registrations (exact mirror: correspondence with the model only)
        lines.append('dstate')
        local, pend = [], sum(1 for call in outbox if not call['delivered'])
        for tag, g in reg.items():
            if g['add'] is not None and g['add'][0] == 'ok' and not (g['del'] == 'ok'):
                local.append(canon_text(g['texts'][0]) if g['texts'] else '?')
        bus = [canon_text(x) for _, _, x in daemon.rules]
        impl.append('bus=%s local=%s pending=%d' % ('|'.join(sorted(bus)) or '.', '|'.join(sorted(local)) or '.', pend))
        if pend == 0 and not unusual[0]:
            ctx.stat('client-daemon:daemon-rules-%s-local-rules' % ('mirror' if sorted(bus) == sorted(local) else 'differ-from'))
        same_text = len(set(local)) < len(local)
        if same_text:
            ctx.stat('client-daemon:history-ends-with-identical-live-rules')
    finally:
        restore_log(router, saved)
    ctx.case('client-daemon', sample=inp)
    if batch is not None:
        batch.append((inp, lines, impl))
    else:
        compare_daemon_histories(ctx, [(inp, lines, impl)])


def compare_daemon_histories(ctx, batch):
    """Correspondence of `client-daemon` histories with the model (System = client + SPEC daemon), one driver run for
    the whole batch (every history starts with `dreset`)."""
    all_lines = [ln for _, lines, _ in batch for ln in lines]
    out_all = ctx.model(all_lines)
    if out_all is None:
        return
    off = 0
    for inp, lines, impl in batch:
        out = out_all[off:off + len(lines)]
        off += len(lines)
        for i, (a, b) in enumerate(zip(out, impl)):
            a = canon_inv(a)
            if a.startswith('sentadd ') or a.startswith('sentremove '):
                w, tx = a.split(' ', 1)
                a = w + ' ' + canon_text(unhx(tx))
            elif a.startswith('bus='):
                parts = dict(p.split('=', 1) for p in a.split(' '))
                cv = lambda s_: '|'.join(sorted(canon_text(unhx(x)) for x in s_.split(';'))) if s_ != '.' else '.'
                a = 'bus=%s local=%s pending=%s' % (cv(parts['bus']), cv(parts['local']), parts['pending'])
            if a != b:
                if a.startswith('inv=') and b.startswith('inv=') and a.split(' ')[0] == b.split(' ')[0] \
                        and 'escaped' not in b:
                    ctx.stat('log-err-differs')
                    continue
                ctx.disagree('client-daemon', inp, {'line': lines[i], 'out': a}, {'out': b}, detail='op %d' % (i - 1))
                break


class HarnessReach(Exception):
    """The harness could not reach an internal it uses to set a scenario up (an attribute moved, a helper was
    renamed).  Never a property violation: the stream is skipped with a note."""


class FakePeer:
    """Stands in for a BusProtocol connection when a real one cannot be built: records what the bus sends to it."""
    def __init__(self, name):
        self.uniqueName = name
        self.sent = []
        self.matchRules = set()
        self.busNames = {}
        self.isConnected = True

    def sendMessage(self, m):
        self.sent.append(m)


def find_router(b):
    """The MessageRouter of a Bus, under whatever attribute it is kept."""
    r = getattr(b, 'router', None)
    if r is not None and hasattr(r, 'addMatch') and hasattr(r, 'routeMessage'):
        return r
    for v in vars(b).values():
        if hasattr(v, 'addMatch') and hasattr(v, 'routeMessage') and hasattr(v, 'delMatch'):
            return v
    raise HarnessReach('the router of the Bus object was not found')


def make_bus_peer(b):
    """A connection registered with the Bus `b` whose outgoing messages are recorded in `.sent`.  Preferred: a real
    BusProtocol on a StringTransport, authenticated and announced through Bus.clientConnected (it has every attribute
    the bus expects of a connection); fallback: a stand-in put into the bus's table of clients."""
    from txdbus import bus
    try:
        from twisted.internet.testing import StringTransport
        from twisted.internet.protocol import Factory
        f = Factory()
        f.protocol = bus.BusProtocol
        f.bus = b
        p = f.buildProtocol(None)
        p.makeConnection(StringTransport())
        p._authenticated = True
        p.connectionAuthenticated()
        b.clientConnected(p)
        p.sent = []
        p.sendMessage = p.sent.append
        if isinstance(getattr(p, 'uniqueName', None), str):
            return p
    except Exception:
        pass
    try:
        peer = FakePeer(':1.1')
        b.clients[peer.uniqueName] = peer
        return peer
    except Exception as e:
        raise HarnessReach('cannot register a connection with the Bus: %r' % (e,))


_BUS_SETUP_OK = {}


def bus_add(text):
    """Real Bus.dbus_AddMatch(text): ('ok', kwargs given to router.addMatch, bus, peer) | ('valueerror', ...)."""
    from txdbus import bus
    b = bus.Bus()
    peer = make_bus_peer(b)
    rt = find_router(b)
    captured = []
    real_add = rt.addMatch

    def spy_add(cb, **kw):
        captured.append(kw)
        return real_add(cb, **kw)
    rt.addMatch = spy_add
    if not _BUS_SETUP_OK.get(id(bus)):
        # once per run: the scenario itself must work before a refusal may be blamed on the rule text
        try:
            b.dbus_AddMatch("type='signal'", dbusCaller=peer.uniqueName)
            assert captured and captured[0].get('mtype') == 'signal'
        except Exception as e:
            raise HarnessReach('Bus.dbus_AddMatch cannot be driven with a registered connection: %r' % (e,))
        del captured[:]
        _BUS_SETUP_OK[id(bus)] = True
        return bus_add(text)
    try:
        b.dbus_AddMatch(text, dbusCaller=peer.uniqueName)
    except ValueError:
        return 'valueerror', None, b, peer
    except KeyError as e:
        return 'keyerror', None, b, peer
    except Exception as e:
        return 'error:' + type(e).__name__, None, b, peer
    if not captured:
        raise HarnessReach('Bus.dbus_AddMatch did not call the router located by the harness')
    return 'ok', captured[0], b, peer


def canon_bus_kwargs(kw):
    return 'ok ' + enc_rule(kw)


def stream_text(ctx, rules, malformed):
    """rule-text: client rendering == model rendering and bus(client text) registers the same rule;
    bus-parse: arbitrary texts through the real dbus_AddMatch against the model's parser."""
    from txdbus import router
    saved = swap_log(router, LogSpy())
    try:
        lines, obs = [], []
        for kw in rules:
            ckw = call_kw(kw)
            if 'args' in ckw:
                ckw['arg'] = ckw.pop('args')
            if 'arg_paths' in ckw:
                ckw['arg_path'] = ckw.pop('arg_paths')
            # a fresh connection per rule: the text written for a rule must not depend on the rules asked for before
            # (an implementation may legitimately not repeat an AddMatch for a text it already sent)
            c, t = make_connection()
            c.addMatch(lambda m: None, **ckw).addErrback(lambda f: None)
            sent = [x for x in drain_calls(t) if x[0] == 'AddMatch' and x[1]]
            if not sent:
                ctx.stat('rule-text:first-addMatch-on-a-connection-wrote-no-AddMatch')
                continue
            text = sent[0][1][0]
            status, bkw, b, peer = bus_add(text)
            lines.append('render ' + enc_rule(kw))
            lines.append('parse ' + hx(text))
            lines.append('meaning ' + hx(text))
            obs.append((kw, text, status, bkw, b, peer))
            judge_text(ctx, kw, text)
        out = ctx.model(lines)
        for i, (kw, text, status, bkw, b, peer) in enumerate(obs):
            inp = {'stream': 'rule-text', 'rule': clean_kw(kw)}
            ctx.case('rule-text', sample=inp)
            impl_parse = canon_bus_kwargs(bkw) if status == 'ok' else status
            ctx.stat('rule-text:bus-%s' % status)
            if out is not None:
                if canon_text(unhx(out[3 * i])) != canon_text(text):
                    ctx.disagree('rule-text', inp, unhx(out[3 * i]), text)
                if out[3 * i + 1] == 'outofdomain':
                    ctx.stat('bus-parse:outofdomain')
                elif out[3 * i + 1] != impl_parse:
                    ctx.disagree('rule-text', inp, out[3 * i + 1], impl_parse, detail='bus parse of the client text')
                check_meaning(ctx, text, out[3 * i + 2])
            # ---- oracle: the rule the bus registered from the client's text selects the same signals
            if status == 'ok' and text_judgeable(kw):
                for spec in PROBE_SPECS + derived_specs(kw):
                    m = build_message(spec)
                    mv = view(m)
                    v, failing = oracle_matches(kw, mv)
                    if v is None:
                        continue
                    del peer.sent[:]
                    find_router(b).routeMessage(m)
                    got = len(peer.sent) > 0
                    if got != v:
                        key, what = explain(kw, m, mv, got, v, failing)
                        # the bus routes through the same Rule class: an ignored arg0namespace is the same defect
                        ctx.violation(key if key == 'arg0namespace-constraint-ignored' else 'bus-' + key,
                                      'bus-side rule registered from the text %r: %s' % (text, what),
                                      inp={'stream': 'rule-text', 'rule': clean_kw(kw), 'message': spec},
                                      observed='forwarded' if got else 'not forwarded',
                                      expected='forwarded' if v else 'not forwarded')
                    else:
                        ctx.stat('bus-rule:ok')
            elif status != 'ok':
                if spec_meaning(text) is not None:
                    # the text is a rule by the specification's grammar and the bus cannot read it
                    ctx.violation('bus-rejects-valid-rule-text',
                                  'Bus.dbus_AddMatch(%r) raises %s: a valid match rule is refused, the rule is never registered'
                                  % (text, status), inp={'stream': 'rule-text', 'rule': clean_kw(kw)}, observed=status,
                                  expected='the rule is registered')
                else:
                    ctx.stat('bus-rejects-text-that-is-no-rule')
        # ---- malformed / arbitrary texts
        lines, obs = [], []
        for text in malformed:
            status, bkw, b, peer = bus_add(text)
            lines.append('parse ' + hx(text))
            lines.append('meaning ' + hx(text))
            obs.append((text, canon_bus_kwargs(bkw) if status == 'ok' else status))
        out = ctx.model(lines)
        for i, (text, impl_parse) in enumerate(obs):
            ctx.case('bus-parse', sample={'text': text})
            ctx.stat('bus-parse:' + impl_parse.split(' ')[0])
            if out is not None:
                check_meaning(ctx, text, out[2 * i + 1])
            if out is not None and out[2 * i] != impl_parse:
                if out[2 * i] == 'outofdomain':
                    ctx.stat('bus-parse:outofdomain')
                    continue
                ctx.disagree('bus-parse', {'stream': 'bus-parse', 'text': text}, out[2 * i], impl_parse)
    finally:
        restore_log(router, saved)


PROBE_SPECS = [SIG(), SIG(path='/a/bc'), SIG(path='/a/b/c'), SIG(interface='a.bc'), SIG(member='Mm'),
               SIG(signature='s', body=['x']), SIG(signature='s', body=['/aa/bb']), SIG(signature='s', body=['/aa/bbc']),
               SIG(signature='s', body=['/aa/']), SIG(signature='ss', body=['x', '/aa/bb/']),
               SIG(path='/aa/bb', destination=':1.1'), SIG(path='/aa/bbc', signature='i', body=[7]),
               {'kind': 'error', 'destination': ':1.1', 'sender': None, 'signature': None, 'body': None},
               SIG(signature='s' * 13, body=['x', '/aa/bb', '/aa/', 'xy', 'x', 'x', 'x', 'x', 'x', 'x', '/aa/bb', 'x', '/aa/bb/']),
               SIG(signature='sis', body=['7', 7, 'True'])]


def derived_specs(kw):
    """Signals built from a rule: one that satisfies it, and near-misses a sloppy reading of the rule text
    would confuse with it (value at the index named by the first digit only; values without their
    surrounding blanks; values in the other case)."""
    base = SIG()
    for k in ('interface', 'member', 'path', 'destination'):
        if kw.get(k):
            base[k] = kw[k]
    if kw.get('path_namespace') and not kw.get('path'):
        base['path'] = kw['path_namespace']
    pairs = [(i, v) for i, v in (kw.get('args') or [])] + [(i, v) for i, v in (kw.get('arg_paths') or [])]
    pairs = [(i, v) for i, v in pairs if i < 64]
    n = max([i for i, _ in pairs] + [-1]) + 1

    def with_body(place, conv):
        d = dict(base)
        if n:
            body = ['q'] * n
            for i, v in pairs:
                body[place(i)] = conv(v)
            d['signature'] = 's' * n
            d['body'] = body
        for k in ('interface', 'member', 'path', 'destination'):
            if isinstance(d.get(k), str):
                d[k] = conv(d[k]) if conv(d[k]) else d[k]
        return d
    ns0 = kw.get('arg0namespace')
    extra = []
    if ns0 and not any(i == 0 for i, _ in pairs):
        for first in (ns0, ns0 + '.x', ns0 + 'x', ns0[:-1] or 'q'):
            d = with_body(lambda i: i, lambda v: v)
            body = list(d.get('body') or ['q'])
            body[0] = first
            d['signature'] = 's' * len(body)
            d['body'] = body
            extra.append(d)
    cands = extra + [with_body(lambda i: i, lambda v: v),
             with_body(lambda i: int(str(i)[0]), lambda v: v),
             with_body(lambda i: i, lambda v: v.strip()),
             with_body(lambda i: i, lambda v: v.swapcase())]
    out, seen = [], set()
    for d in cands:
        key = json.dumps(d, sort_keys=True)
        if key in seen:
            continue
        seen.add(key)
        try:
            build_message(d)
        except Exception:
            continue
        out.append(d)
    return out


# ------------------------------------------------------------------------------------------ bus histories
BUS_NAME = 'org.freedesktop.DBus'


def gen_bus_history(rng, n_ops):
    """Several connections to one real Bus: AddMatch, signals and disconnects interleaved.  A rule lives from its
    AddMatch until its owner disconnects (or removes it)."""
    specs = [gen_msg_spec(rng, 'signal') for _ in range(3)]
    for sp in specs:
        sp['destination'] = None          # broadcasts: delivery by match rules only (unicast is C14's subject)
    ops = [['bconn'], ['bconn']]
    n_conn = 2
    for _ in range(n_ops):
        q = rng.random()
        if q < 0.10 and n_conn < 5:
            ops.append(['bconn'])
            n_conn += 1
        elif q < 0.45:
            mv = view(build_message(rng.choice(specs)))
            kw = clean_kw(gen_rule_for(rng, mv, p_key=0.2, p_miss=0.2))
            ops.append(['badd', rng.randrange(n_conn), kw])
        elif q < 0.58:
            ops.append(['bdisc', rng.randrange(n_conn)])
        else:
            spec = dict(rng.choice(specs)) if rng.random() < 0.85 else gen_msg_spec(rng, 'signal')
            spec['destination'] = None
            ops.append(['bsig', rng.randrange(n_conn), spec])
    return ops


def render_with_client(kw, _cache={}):
    """The rule text the real client writes for kw."""
    from txdbus import client
    key = (client.__file__, json.dumps(clean_kw(kw), sort_keys=True))
    if key not in _cache:
        # a fresh connection per rule: an implementation may legitimately not repeat an AddMatch for a text it sent before
        c, t = make_connection()
        ckw = call_kw(kw)
        if 'args' in ckw:
            ckw['arg'] = ckw.pop('args')
        if 'arg_paths' in ckw:
            ckw['arg_path'] = ckw.pop('arg_paths')
        c.addMatch(lambda m: None, **ckw).addErrback(lambda f: None)
        sent = [x for x in drain_calls(t) if x[0] == 'AddMatch' and x[1]]
        if not sent:
            raise HarnessReach('the first addMatch on a fresh connection wrote no AddMatch')
        _cache[key] = sent[0][1][0]
    return _cache[key]


def run_bus_history(ctx, ops):
    """One history on a real Bus with real BusProtocol connections.  Oracle (implementation only): a broadcast signal
    is delivered to a connection once per live rule of that connection it satisfies; a rule is live from the successful
    AddMatch until its owner disconnects."""
    from txdbus import bus, message, router
    from twisted.internet.testing import StringTransport
    from twisted.internet.protocol import Factory
    from twisted.python.failure import Failure
    from twisted.internet.error import ConnectionDone
    saved = swap_log(router, LogSpy())
    inp = {'stream': 'bus-histories', 'ops': ops}
    lines, model_route = ['reset'], []      # model: the router with callback number = connection index
    impl_route = []
    try:
        b = bus.Bus()
        f = Factory()
        f.protocol = bus.BusProtocol
        f.bus = b
        conns = []          # dict(p, got, alive, rules: [(kw, model id)])
        next_model_id = 0
        for op in ops:
            if op[0] == 'bconn':
                p = f.buildProtocol(None)
                p.makeConnection(StringTransport())
                p._authenticated = True
                p.connectionAuthenticated()
                got = []
                p.sendMessage = got.append
                hello = message.MethodCallMessage('/org/freedesktop/DBus', 'Hello', interface=BUS_NAME, destination=BUS_NAME)
                p.dataReceived(hello.rawMessage)
                if not (got and got[-1]._messageType == 2):
                    raise HarnessReach('a bus connection did not get its Hello reply')
                conns.append({'p': p, 'got': got, 'alive': True, 'rules': []})
                continue
            c = conns[op[1] % len(conns)]
            ci = conns.index(c)
            if op[0] == 'badd':
                if not c['alive']:
                    continue
                kw = op[2]
                text = render_with_client(kw)
                del c['got'][:]
                call = message.MethodCallMessage('/org/freedesktop/DBus', 'AddMatch', interface=BUS_NAME,
                                                 destination=BUS_NAME, signature='s', body=[text])
                c['p'].dataReceived(call.rawMessage)
                ok = bool(c['got']) and c['got'][-1]._messageType == 2
                ctx.stat('bus-history:addmatch-%s' % ('ok' if ok else 'refused'))
                if ok:
                    c['rules'].append((kw, next_model_id))
                    lines.append('add %d %s' % (ci, enc_rule(kw)))
                    next_model_id += 1
            elif op[0] == 'bdisc':
                if not c['alive']:
                    continue
                c['alive'] = False
                try:
                    c['p'].connectionLost(Failure(ConnectionDone()))
                except Exception as e:
                    ctx.stat('bus-history:disconnect-raises-%s' % type(e).__name__)
                for _, mid in c['rules']:
                    lines.append('del %d' % mid)
                if any(x['alive'] and x['rules'] for x in conns):
                    ctx.stat('bus-history:disconnect-while-others-hold-rules')
            else:
                if not c['alive']:
                    continue
                spec = op[2]
                m = build_message(spec, parse=False)
                mv = view(build_message(spec))
                for x in conns:
                    del x['got'][:]
                escaped = None
                try:
                    c['p'].dataReceived(m.rawMessage)
                except Exception as e:
                    escaped = repr(e)
                counts = []
                for x in conns:
                    counts.append(len([g for g in x['got'] if g._messageType == 4 and getattr(g, 'member', None) == spec['member']
                                       and getattr(g, 'path', None) == spec['path']]))
                lines.append('route . ' + enc_msg(mv))
                model_route.append(len(lines) - 1)
                impl_route.append(counts)
                ctx.impl_trace()
                if escaped:
                    ctx.violation('exception-escapes-routing', 'a broadcast signal makes the bus raise %s' % escaped, inp=inp,
                                  observed=escaped, expected='no exception')
                    continue
                # ---- oracle
                for xi, x in enumerate(conns):
                    want, undecided, want_ignoring = 0, False, 0
                    if x['alive']:
                        for kw, _ in x['rules']:
                            v, _f = oracle_matches(kw, mv)
                            if v is None:
                                undecided = True
                            elif v:
                                want += 1
                            if oracle_matches({k: z for k, z in kw.items() if k != 'arg0namespace'}, mv)[0]:
                                want_ignoring += 1
                    if undecided:
                        ctx.stat('bus-history:undecided')
                        continue
                    if counts[xi] == want:
                        ctx.stat('bus-history:delivery-ok' + ('(>0)' if want else ''))
                    elif not x['alive']:
                        ctx.violation('bus-rule-of-disconnected-connection-fires',
                                      'connection #%d disconnected, yet its match rules still forward a signal to it' % xi,
                                      inp=inp, observed=counts, expected='nothing for #%d' % xi)
                    elif counts[xi] < want:
                        ctx.violation('bus-live-rule-not-delivered',
                                      'connection #%d holds %d live rule(s) the signal satisfies (it never removed them and is '
                                      'still connected) but receives the signal %d time(s)' % (xi, want, counts[xi]),
                                      inp=inp, observed=counts, expected='%d for #%d' % (want, xi))
                    elif counts[xi] == want_ignoring:
                        ctx.violation('arg0namespace-constraint-ignored',
                                      'connection #%d receives the signal %d time(s) but only %d of its live rules match: the '
                                      'others carry an arg0namespace the first argument %r is not inside, and match once that '
                                      'constraint is left out' % (xi, counts[xi], want, [b[1] for b in (mv['body'] or [])][:1]),
                                      inp=inp, observed=counts, expected='%d for #%d' % (want, xi))
                    else:
                        ctx.violation('bus-signal-delivered-without-matching-rule',
                                      'connection #%d receives the signal %d time(s) but only %d of its live rules match'
                                      % (xi, counts[xi], want), inp=inp, observed=counts, expected='%d for #%d' % (want, xi))
    finally:
        restore_log(router, saved)
    out = ctx.model(lines)
    ctx.case('bus-histories', sample=inp)
    if out is not None:
        for li, counts in zip(model_route, impl_route):
            body = out[li].split(' ')[0][4:]
            mc = [0] * len(counts)
            if body != '.':
                for pr in body.split(','):
                    cb = int(pr.split(':')[1])
                    if cb < len(mc):
                        mc[cb] += 1
            if mc != counts:
                ctx.disagree('bus-histories', inp, {'line': lines[li], 'deliveries': mc}, {'deliveries': counts})
                break


def gen_malformed(rng):
    keys = ['type', 'mtype', 'sender', 'interface', 'member', 'path', 'path_namespace', 'destination',
            'arg0', 'arg1', 'arg12', 'arg007', 'arg0path', 'arg3path', 'argpath', 'arg', 'argx', 'argxpath',
            'arg0namespace', 'eavesdrop', 'x', '', 'arg1x', 'arg0paths', 'arg10path', 'arg63path', 'arg12path',
            'arg10', 'arg+1', 'arg 1', 'arg1_0', 'arg-1', 'arg\uff11', 'arg1 path', 'arg+1path', 'Type', ' type']
    vals = ["'x'", "''", "'", "", "x", "'/a/b'", "'a=b'", "'a,b'", "'it's'", "\"x\"", "'/aa/'", "'x' "]
    n = rng.choice([0, 1, 1, 2, 3])
    items = []
    for _ in range(n):
        q = rng.random()
        if q < 0.8:
            items.append(rng.choice(keys) + '=' + rng.choice(vals))
        elif q < 0.9:
            items.append(rng.choice(keys))
        else:
            items.append(rng.choice(keys) + '=' + rng.choice(vals) + '=' + rng.choice(vals))
    return ','.join(items)


PROXY_SIGS = ['', 's', 'ss', 'i', 'so', 'as', 'o']
PROXY_BODY = {'': None, 's': ['x'], 'ss': ['x', 'y'], 'i': [5], 'so': ['x', '/a'], 'as': [['x']], 'o': ['/a/b']}


def gen_proxy_scenario(rng):
    """Interfaces (several may declare the same signal name with different signatures), subscriptions
    (with and without interface=), signals around them, then cancellations in any order (also twice, also
    an id that was never handed out)."""
    names = ['a.b', 'a.bc', 'org.x.Y']
    rng.shuffle(names)
    ifaces = []
    for nm in names[:rng.choice([1, 2, 2, 3])]:
        sigs = {}
        for sn in ['M', 'N', 'K']:
            if rng.random() < 0.7:
                sigs[sn] = rng.choice(PROXY_SIGS)
        ifaces.append([nm, sigs])
    subs = []
    for _ in range(rng.choice([1, 2, 2, 3])):
        subs.append([rng.choice(['M', 'M', 'N', 'K', 'Z']),
                     rng.choice([None, None, ''] + [i[0] for i in ifaces] + ['no.such'])])
    signals = []
    for _ in range(5):
        sn = rng.choice(['M', 'M', 'N', 'K'])
        decls = [i[1][sn] for i in ifaces if sn in i[1]]
        sig = rng.choice(decls) if decls and rng.random() < 0.6 else rng.choice(PROXY_SIGS)
        signals.append(SIG(path=rng.choice(['/a/b', '/a/b', '/a/b', '/a/bc']), member=sn,
                           interface=rng.choice([i[0] for i in ifaces] + ['a.b']),
                           signature=sig or None, body=PROXY_BODY[sig]))
    order = list(range(len(subs)))
    rng.shuffle(order)
    cancels = []
    for i in order:
        cancels.append(i)
        if rng.random() < 0.3:
            cancels.append(i)            # cancel twice
        if rng.random() < 0.15:
            cancels.append(-1)           # an id never handed out
    return {'stream': 'proxy-gate', 'ifaces': ifaces, 'subs': subs, 'signals': signals, 'cancels': cancels}


def enc_ifaces(ifaces):
    """name:sig=decl;sig=decl|name:..."""
    if not ifaces:
        return '.'
    return '|'.join('%s:%s' % (hx(nm), ';'.join('%s=%s' % (hx(k), hx(v)) for k, v in sigs.items()) or '.')
                    for nm, sigs in ifaces)


def oracle_select(ifaces, name, requested):
    """Which declaration a subscription refers to: ('none',) when no interface (of the requested name, if one
    is requested) declares the signal; ('one', iface, decl) when the statement determines it; ('ambiguous',)
    when no interface was requested and several declare the name (the statement does not say which)."""
    cands = [(nm, sigs[name]) for nm, sigs in ifaces if name in sigs and (not requested or nm == requested)]
    if not cands:
        return ('none',)
    if len(cands) > 1 and len(set(cands)) > 1:
        return ('ambiguous',)
    return ('one', cands[0][0], cands[0][1])


def run_proxy_scenario(ctx, sc):
    from txdbus import objects, interface, message
    c, t = make_connection()
    ifs = [interface.DBusInterface(nm, *[interface.Signal(k, v) for k, v in sigs.items()]) for nm, sigs in sc['ifaces']]
    got_ro = []
    c.getRemoteObject('x.y', '/a/b', ifs).addCallback(got_ro.append)      # explicit interfaces: no introspection
    if not got_ro:
        raise HarnessReach('getRemoteObject with explicit interfaces did not produce a proxy at once')
    ro = got_ro[0]
    drain_calls(t)
    lines, impl = ['preset'], ['ok']
    daemon = SpecDaemon()      # the daemon of the DBus specification: one rule per AddMatch, RemoveMatch removes one

    def answer(sent):
        """Hand the calls the client wrote to the daemon and deliver its replies; -> every reply was a success."""
        good = True
        for x in sent:
            err = None
            if x[0] in ('AddMatch', 'RemoveMatch') and getattr(x[3], 'destination', None) == BUS_DRIVER \
                    and x[1] and len(x[1]) == 1:
                err = daemon.call(x[0], x[1][0])
            if err is None:
                c.dataReceived(message.MethodReturnMessage(x[2], destination=':1.7').rawMessage)
            else:
                good = False
                ctx.stat('proxy:daemon-error-reply:%s' % err.rsplit('.', 1)[-1])
                c.dataReceived(message.ErrorMessage(err, x[2], destination=':1.7', signature='s',
                                                    body=['refused']).rawMessage)
        return good
    subs = []          # per subscription: dict(name, requested, got, rid, rule, sel)
    for name, requested in sc['subs']:
        got = []
        sub = {'name': name, 'requested': requested, 'got': got, 'rid': None, 'rule': None,
               'sel': oracle_select(sc['ifaces'], name, requested), 'state': 'none'}
        subs.append(sub)
        lines.append('select %s %s %s' % (hx(name), enc_opt(requested), enc_ifaces(sc['ifaces'])))
        try:
            d = ro.notifyOnSignal(name, (lambda g: (lambda *a: g.append(list(a))))(got), interface=requested)
        except AttributeError:
            impl.append('none')
            continue
        rids = []
        d.addCallback(rids.append)
        sent = drain_calls(t)
        answer(sent)
        if len(sent) != 1 or sent[0][0] != 'AddMatch':
            # not what the model does (one AddMatch per subscription): a disagreement; the subscription is judged by
            # behaviour only (through the daemon), its rule text is unknown
            impl.append('sent %s' % (','.join(str(x[0]) for x in sent) or 'nothing'))
            ctx.stat('proxy:subscription-wrote-%d-calls' % len(sent))
            sub['rid'] = rids[0] if rids else None
            sub['state'] = 'live' if rids else 'unjudged'
            continue
        text = sent[0][1][0]
        parsed = dict(spec_parse_rule(text) or [])
        sub['rule'] = parsed
        sub['rid'] = rids[0] if rids else None
        sub['state'] = 'live'
        # the implementation's selection, read off the rule it registered and the gate it applies
        impl.append('%s' % hx(parsed.get('interface', '?')))
        lines.append('psub %d' % (sub['rid'] if sub['rid'] is not None else 999))
        impl.append('ok')
        if sub['sel'][0] == 'none':
            ctx.violation('proxy-subscribes-undeclared-signal', 'notifyOnSignal(%r, interface=%r) succeeded although no '
                          'such signal is declared' % (name, requested), inp=sc, observed=text, expected='AttributeError')
        elif sub['sel'][0] == 'one':
            want = {'type': 'signal', 'path': '/a/b', 'member': name, 'interface': sub['sel'][1]}
            if parsed != want:
                ctx.violation('proxy-rule-differs', 'notifyOnSignal(%r, interface=%r) registered %r' % (name, requested, text),
                              inp=sc, observed=parsed, expected=want)
    for s_ in subs:
        if s_['state'] == 'none' and s_['sel'][0] == 'one':
            ctx.violation('proxy-declared-signal-refused', 'notifyOnSignal(%r, interface=%r) raised although %s declares it'
                          % (s_['name'], s_['requested'], s_['sel'][1]), inp=sc, observed='AttributeError', expected='subscription')

    def fire(spec, where):
        for s_ in subs:
            del s_['got'][:]
        mv = view(build_message(spec))
        # the signal reaches the connection unless the daemon - holding what the connection's AddMatch / RemoveMatch
        # calls left it with - has no rule selecting it
        forwarded = daemon.forwards(mv) is not False
        if forwarded:
            c.dataReceived(build_message(spec, parse=False).rawMessage)
        else:
            ctx.stat('proxy:signal-not-forwarded-by-the-daemon')
        for i, s_ in enumerate(subs):
            calls = [list(x) for x in s_['got']]
            if s_['state'] in ('none', 'unjudged'):
                continue
            if s_['rule'] is None:
                # no rule text was written for this subscription: judged by behaviour alone
                if s_['state'] == 'live' and s_['sel'][0] == 'one':
                    _, ifname, decl = s_['sel']
                    if spec['path'] == '/a/b' and spec['member'] == s_['name'] and spec['interface'] == ifname \
                            and (spec['signature'] or '') == (decl or '') and not calls:
                        ctx.violation('proxy-live-subscription-not-held-by-daemon' if not forwarded
                                      else 'proxy-matching-signal-not-delivered',
                                      'subscription %s(%r) of %s is live, the signal is the declared one, the callback is '
                                      'not called (%s; forwarded by a specification-conforming daemon: %s)'
                                      % (s_['name'], decl, ifname, where, forwarded),
                                      inp=sc, observed=calls, expected='called once with the body')
                continue
            ctx.case('proxy-gate', sample=None)
            ctx.impl_trace()
            # model: rule as the implementation registered it x gate with the model's selected declaration
            lines.append('match %s %s' % (enc_rule({'mtype': s_['rule'].get('type'), 'path': s_['rule'].get('path'),
                                                     'member': s_['rule'].get('member'),
                                                     'interface': s_['rule'].get('interface')}), enc_msg(mv)))
            lines.append('gatesel %d %s %s' % (i, enc_opt(spec['signature']), enc_body(mv['body'])))
            impl.append('-')          # compared below through s_['obs']
            impl.append('-')
            s_.setdefault('obs', []).append((len(lines) - 2, calls, s_['state']))
            # ---- oracle
            if s_['state'] == 'removed':
                if calls:
                    ctx.violation('removed-rule-invoked', 'a cancelled signal subscription still fires (%s)' % where,
                                  inp=sc, observed=calls, expected=[])
                else:
                    ctx.stat('proxy:cancelled-silent')
                continue
            if s_['sel'][0] != 'one':
                ctx.stat('proxy:declaration-ambiguous-not-judged')
                continue
            _, ifname, decl = s_['sel']
            addressed = (spec['path'] == '/a/b' and spec['member'] == s_['name'] and spec['interface'] == ifname)
            same_sig = (spec['signature'] or '') == (decl or '')
            want = addressed and same_sig
            ctx.stat('proxy:%s' % ('deliver' if want else ('wrong-signature' if addressed else 'other-signal')))
            if bool(calls) != want or len(calls) > 1:
                if not addressed:
                    key = 'proxy-wrong-signal-delivered'
                elif want and not calls:
                    # not forwarded: the AddMatch / RemoveMatch calls written so far left the daemon without a rule
                    # selecting the signal although this subscription is live
                    key = 'proxy-matching-signal-not-delivered' if forwarded else 'proxy-live-subscription-not-held-by-daemon'
                elif len(calls) > 1:
                    key = 'invoked-twice'
                else:
                    key = 'proxy-signature-gate'
                ctx.violation(key, 'subscription %s(%r) of %s: callback %s for a signal %s.%s on %s with signature %r'
                              % (s_['name'], decl, ifname, 'called' if calls else 'not called', spec['interface'],
                                 spec['member'], spec['path'], spec['signature']),
                              inp=sc, observed=calls, expected='called once with the body' if want else 'not called')
            elif calls and calls[0] != list(spec['body'] or []):
                ctx.violation('proxy-arguments-differ', 'the callback did not receive the signal arguments', inp=sc,
                              observed=calls[0], expected=spec['body'])

    for spec in sc['signals']:
        fire(spec, 'before any cancel')
    if len([s_ for s_ in subs if s_['state'] == 'live']) > 1:
        ctx.stat('proxy:several-subscriptions')
    for ci in sc['cancels']:
        rid = subs[ci]['rid'] if ci >= 0 else 777
        if rid is None:
            continue
        ro.cancelSignalNotification(rid)
        sent = drain_calls(t)
        lines.append('pcancel %d' % rid)
        impl.append('del %d' % rid if [x[0] for x in sent] == ['RemoveMatch'] else ('noop' if not sent else 'sent %r' % [x[0] for x in sent]))
        acknowledged = answer(sent)
        if ci >= 0 and subs[ci]['state'] == 'live' and not acknowledged:
            subs[ci]['state'] = 'unjudged'         # the daemon refused the removal: the statement demands nothing
        if ci >= 0 and subs[ci]['state'] == 'live':
            # cancelSignalNotification returned and every request it sent is acknowledged: whatever the
            # implementation does (remove locally at once, or on the acknowledgement), the subscription is
            # removed now - a cancel that silently does nothing leaves a callback firing after its removal
            subs[ci]['state'] = 'removed'
            if [x[0] for x in sent] != ['RemoveMatch']:
                ctx.stat('proxy:cancel-sent-no-removematch')      # engineering observation, not a property demand
        # after the acknowledgement: cancelled subscriptions are silent, the others still deliver
        for s_ in subs:
            if s_['sel'][0] == 'one' and s_['state'] in ('live', 'removed'):
                _, ifname, decl = s_['sel']
                fire(SIG(member=s_['name'], interface=ifname, signature=decl or None, body=PROXY_BODY[decl]),
                     'after cancelling %r' % (sc['cancels'],))
    return lines, impl, subs


def stream_proxy(ctx, scenarios):
    """Real RemoteDBusObject.notifyOnSignal / cancelSignalNotification on a real connection."""
    from txdbus import router
    saved = swap_log(router, LogSpy())
    try:
        runs = []
        all_lines = []
        for sc in scenarios:
            lines, impl, subs = run_proxy_scenario(ctx, sc)
            runs.append((sc, lines, impl, subs, len(all_lines)))
            all_lines += lines
        out = ctx.model(all_lines)
        if out is None:
            return
        for sc, lines, impl, subs, off in runs:
            mo = out[off:off + len(lines)]
            done = False
            for i, ln in enumerate(lines):
                if done:
                    break
                w = ln.split(' ')[0]
                if w == 'select':
                    # model: 'none' | '<iface> <declared>' ; implementation: 'none' | '<iface>'
                    if mo[i].split(' ')[0] != impl[i]:
                        ctx.disagree('proxy-gate', sc, {'line': ln, 'out': mo[i]}, impl[i], detail='interface selection')
                        done = True
                elif w in ('psub', 'pcancel', 'preset'):
                    if mo[i] != impl[i]:
                        ctx.disagree('proxy-gate', sc, {'line': ln, 'out': mo[i]}, impl[i], detail='cancelSignalNotification')
                        done = True
            for s_ in subs:
                for (li, calls, state) in s_.get('obs', []):
                    m_match, m_gate = mo[li], mo[li + 1]
                    if state == 'removed':
                        model = 'none'
                    else:
                        model = m_gate if m_match == 'call' else 'none'
                    if not calls:
                        got = 'none'
                    else:
                        got = 'call ' + enc_body([['str', a, None] if isinstance(a, str) else ['other', None, None]
                                                  for a in calls[0]])
                    if model != got or len(calls) > 1:
                        ctx.disagree('proxy-gate', sc, {'line': lines[li] + ' / ' + lines[li + 1], 'out': model}, got)
                        break
    finally:
        restore_log(router, saved)


# ------------------------------------------------------------------------------------------ several proxies, several connections
MP_DECL = {'M': 's', 'N': ''}           # the one interface 'a.b' every proxy of this stream has
MP_PATHS = ['/a/b', '/a/bc']


def mp_signal(rng):
    sn = rng.choice(['M', 'M', 'N', 'Mm'])
    decl = MP_DECL.get(sn, 's')
    sig = decl if rng.random() < 0.75 else rng.choice(PROXY_SIGS)
    return SIG(path=rng.choice(MP_PATHS + MP_PATHS + ['/a']), member=sn, interface=rng.choice(['a.b', 'a.b', 'a.b', 'a.bc']),
               signature=sig or None, body=PROXY_BODY[sig])


def gen_multi_proxy(rng):
    """2-3 connections to one bus, 1-3 proxies on each (of the same or of different remote objects), subscriptions /
    cancellations / broadcast signals interleaved; at the end (usually) every subscription is cancelled, in a random
    order, and the signal each subscription was for is broadcast.  Rule ids are numbered per connection, so proxies
    on different connections routinely hold equal ids."""
    n_conn = rng.choice([2, 2, 3])
    proxies = []
    for ci in range(n_conn):
        for _ in range(rng.choice([1, 1, 2, 3])):
            proxies.append([ci, rng.choice(MP_PATHS)])
    ops, subs = [], []

    def sub(pi):
        subs.append(pi)
        ops.append(['sub', pi, rng.choice(['M', 'M', 'N'])])
    if rng.random() < 0.7:
        order = list(range(len(proxies)))
        rng.shuffle(order)
        for pi in order:
            if rng.random() < 0.8:
                sub(pi)
    for _ in range(rng.choice([4, 8, 16])):
        q = rng.random()
        if q < 0.30 or not subs:
            sub(rng.randrange(len(proxies)))
        elif q < 0.55:
            ops.append(['cancel', rng.randrange(len(subs))])
        else:
            ops.append(['sig', mp_signal(rng)])
    declared, seen = [], []
    for pi, op in [(o[1], o) for o in ops if o[0] == 'sub']:
        key = (proxies[pi][1], op[2])
        if key not in seen:
            seen.append(key)
            decl = MP_DECL[op[2]]
            declared.append(['sig', SIG(path=key[0], member=key[1], interface='a.b', signature=decl or None,
                                        body=PROXY_BODY[decl])])
    ops.extend(declared)            # the signal every subscription made so far is for
    if rng.random() < 0.7:
        order = list(range(len(subs)))
        rng.shuffle(order)
        for si in order:
            if rng.random() < 0.85:
                ops.append(['cancel', si])
        ops.extend(declared)        # and once more after the cancellations
    return {'stream': 'proxy-connections', 'conns': n_conn, 'proxies': proxies, 'ops': ops}


def run_multi_proxy(ctx, sc):
    """Real RemoteDBusObject proxies on several real connections, each connection behind its own SpecDaemon state
    (one bus, the rules of every connection kept separately); a signal is broadcast to every connection whose rules
    select it.  Oracle (implementation only), per subscription: live (notifyOnSignal's Deferred fired, its AddMatch
    acknowledged, not cancelled): the callback is called exactly once, with the arguments, for the declared signal
    of its object, and for nothing else; once cancelSignalNotification(id) on ITS proxy returned and every request
    that wrote is acknowledged: never again - whatever other proxies, on this or on other connections, subscribed
    or cancelled, with whatever ids."""
    from txdbus import interface, message, router
    saved = swap_log(router, LogSpy())
    lines, impl = ['mpreset'], ['ok']
    checks = []           # (index of the 'match' line, calls, state) - compared with the model afterwards
    try:
        conns = []
        for ci in range(sc['conns']):
            c, t = make_connection()
            conns.append({'c': c, 't': t, 'daemon': SpecDaemon()})
        iface = interface.DBusInterface('a.b', *[interface.Signal(k, v) for k, v in MP_DECL.items()])
        proxies = []
        for ci, path in sc['proxies']:
            got_ro = []
            conns[ci]['c'].getRemoteObject('x.y', path, [iface]).addCallback(got_ro.append)
            if not got_ro:
                raise HarnessReach('getRemoteObject with explicit interfaces did not produce a proxy at once')
            drain_calls(conns[ci]['t'])
            proxies.append({'ro': got_ro[0], 'ci': ci, 'path': path})

        def answer(ci):
            """Hand the calls connection ci wrote to its daemon, deliver the replies; -> (members, all succeeded)."""
            K = conns[ci]
            members, good = [], True
            for member, body, serial, m0 in drain_calls(K['t']):
                members.append(member)
                err = None
                if member in ('AddMatch', 'RemoveMatch') and getattr(m0, 'destination', None) == BUS_DRIVER \
                        and body and len(body) == 1:
                    err = K['daemon'].call(member, body[0])
                    if member == 'AddMatch':
                        K['last_text'] = body[0]
                if err is None:
                    K['c'].dataReceived(message.MethodReturnMessage(serial, destination=':1.7').rawMessage)
                else:
                    good = False
                    ctx.stat('proxy-connections:daemon-error-reply:%s' % err.rsplit('.', 1)[-1])
                    K['c'].dataReceived(message.ErrorMessage(err, serial, destination=':1.7', signature='s',
                                                             body=['refused']).rawMessage)
            return members, good

        subs = []
        for op in sc['ops']:
            if op[0] == 'sub':
                _, pi, name = op
                P = proxies[pi]
                got, rids = [], []
                s_ = {'pi': pi, 'name': name, 'got': got, 'rid': None, 'rule': None, 'state': 'unjudged'}
                subs.append(s_)
                d = P['ro'].notifyOnSignal(name, (lambda g: (lambda *a: g.append(list(a))))(got))
                d.addCallbacks(rids.append, lambda f: None)
                conns[P['ci']]['last_text'] = None
                members, good = answer(P['ci'])
                if rids and isinstance(rids[0], int) and good:
                    s_['rid'] = rids[0]
                    s_['state'] = 'live'
                    lines.append('mpsub %d %d' % (pi, rids[0]))
                    impl.append('ok')
                text = conns[P['ci']]['last_text']
                if members == ['AddMatch'] and text is not None:
                    s_['rule'] = dict(spec_parse_rule(text) or [])
                    want = {'type': 'signal', 'path': P['path'], 'member': name, 'interface': 'a.b'}
                    if s_['rule'] != want:
                        ctx.violation('proxy-rule-differs', 'notifyOnSignal(%r) on the proxy of %s registered %r'
                                      % (name, P['path'], text), inp=sc, observed=s_['rule'], expected=want)
                else:
                    ctx.stat('proxy-connections:subscription-wrote-%d-calls' % len(members))
            elif op[0] == 'cancel':
                s_ = subs[op[1] % len(subs)] if subs else None
                if s_ is None or s_['rid'] is None or s_['state'] == 'unjudged':
                    continue
                P = proxies[s_['pi']]
                others = [x for x in subs if x is not s_ and x['rid'] == s_['rid'] and proxies[x['pi']]['ci'] != P['ci']]
                if others:
                    ctx.stat('proxy-connections:cancel-of-an-id-also-held-on-another-connection')
                try:
                    P['ro'].cancelSignalNotification(s_['rid'])
                except Exception as e:
                    # the statement says nothing about a cancel that raises: the subscription is not judged further
                    ctx.stat('proxy-connections:cancel-raised-%s' % type(e).__name__)
                    answer(P['ci'])
                    s_['state'] = 'unjudged'
                    continue
                members, good = answer(P['ci'])
                lines.append('mpcancel %d %d' % (s_['pi'], s_['rid']))
                impl.append('del %d' % s_['rid'] if members == ['RemoveMatch'] else
                            ('noop' if not members else 'sent %s' % ','.join(str(x) for x in members)))
                if s_['state'] == 'live':
                    # cancelSignalNotification returned and every request it wrote is acknowledged: the subscription is
                    # removed now, whether the implementation removes at once or on the acknowledgement; a daemon that
                    # refused the removal leaves the matter open
                    s_['state'] = 'removed' if good else 'unjudged'
                    if members != ['RemoveMatch']:
                        ctx.stat('proxy-connections:cancel-sent-no-removematch')     # observation, not a demand
                else:
                    ctx.stat('proxy-connections:cancel-again')
            else:
                spec = op[1]
                mv = view(build_message(spec))
                raw = build_message(spec, parse=False).rawMessage
                for s_ in subs:
                    del s_['got'][:]
                fwd = []
                for K in conns:
                    f = K['daemon'].forwards(mv) is not False
                    fwd.append(f)
                    if f:
                        K['c'].dataReceived(raw)
                ctx.stat('proxy-connections:signal-forwarded-to-%d-of-%d' % (sum(fwd), len(fwd)))
                for s_ in subs:
                    if s_['state'] == 'unjudged':
                        continue
                    P = proxies[s_['pi']]
                    calls = [list(x) for x in s_['got']]
                    ctx.case('proxy-connections', sample=None)
                    ctx.impl_trace()
                    if s_['rule'] is not None:
                        lines.append('match %s %s' % (enc_rule({'mtype': s_['rule'].get('type'), 'path': s_['rule'].get('path'),
                                                                 'member': s_['rule'].get('member'),
                                                                 'interface': s_['rule'].get('interface')}), enc_msg(mv)))
                        lines.append('gate %s %s %s' % (enc_opt(MP_DECL[s_['name']]), enc_opt(spec['signature']),
                                                        enc_body(mv['body'])))
                        impl.append('-')
                        impl.append('-')
                        checks.append((len(lines) - 2, calls, s_['state']))
                    if s_['state'] == 'removed':
                        if calls:
                            ctx.violation('removed-rule-invoked',
                                          'subscription %s of proxy #%d (connection %d, %s, rule id %s): '
                                          'cancelSignalNotification(%s) on that proxy returned and every request it wrote '
                                          'was acknowledged, and the callback is still called'
                                          % (s_['name'], s_['pi'], P['ci'], P['path'], s_['rid'], s_['rid']),
                                          inp=sc, observed=calls, expected=[])
                            return lines, impl, checks
                        ctx.stat('proxy-connections:cancelled-silent')
                        continue
                    decl = MP_DECL[s_['name']]
                    addressed = (spec['path'] == P['path'] and spec['member'] == s_['name'] and spec['interface'] == 'a.b')
                    want = addressed and (spec['signature'] or '') == (decl or '')
                    ctx.stat('proxy-connections:%s' % ('deliver' if want else ('wrong-signature' if addressed else 'other-signal')))
                    if bool(calls) != want or len(calls) > 1:
                        if not addressed:
                            key = 'proxy-wrong-signal-delivered'
                        elif want and not calls:
                            key = 'proxy-matching-signal-not-delivered' if fwd[P['ci']] else \
                                'proxy-live-subscription-not-held-by-daemon'
                        elif len(calls) > 1:
                            key = 'invoked-twice'
                        else:
                            key = 'proxy-signature-gate'
                        ctx.violation(key, 'subscription %s(%r) of proxy #%d (connection %d, %s, rule id %s): callback %s for a '
                                      'signal %s.%s on %s with signature %r (forwarded to that connection by a '
                                      'specification-conforming daemon: %s)'
                                      % (s_['name'], decl, s_['pi'], P['ci'], P['path'], s_['rid'],
                                         'called %d times' % len(calls) if calls else 'not called', spec['interface'],
                                         spec['member'], spec['path'], spec['signature'], fwd[P['ci']]),
                                      inp=sc, observed=calls, expected='called once with the body' if want else 'not called')
                        return lines, impl, checks
                    elif calls and calls[0] != list(spec['body'] or []):
                        ctx.violation('proxy-arguments-differ', 'the callback did not receive the signal arguments', inp=sc,
                                      observed=calls[0], expected=spec['body'])
                        return lines, impl, checks
        return lines, impl, checks
    finally:
        restore_log(router, saved)


def stream_multi_proxy(ctx, sc, batch=None):
    lines, impl, checks = run_multi_proxy(ctx, sc)
    ctx.case('proxy-connections', sample=sc)
    if batch is not None:
        batch.append((sc, lines, impl, checks))
    else:
        compare_multi_proxy(ctx, [(sc, lines, impl, checks)])


def compare_multi_proxy(ctx, batch):
    """Correspondence of `proxy-connections` scenarios with the model (ProxyTable, Rule.match, the gate), one driver
    run for the whole batch (every scenario starts with `mpreset`; `match` / `gate` lines carry no state)."""
    out_all = ctx.model([ln for _, lines, _, _ in batch for ln in lines])
    if out_all is None:
        return
    off = 0
    for sc, lines, impl, checks in batch:
        out = out_all[off:off + len(lines)]
        off += len(lines)
        bad = False
        for i, ln in enumerate(lines):
            if ln.split(' ')[0] in ('mpreset', 'mpsub', 'mpcancel') and out[i] != impl[i]:
                ctx.disagree('proxy-connections', sc, {'line': ln, 'out': out[i]}, impl[i], detail='cancelSignalNotification')
                bad = True
                break
        if bad:
            continue
        for li, calls, state in checks:
            model = 'none' if state == 'removed' else (out[li + 1] if out[li] == 'call' else 'none')
            got = 'none' if not calls else 'call ' + enc_body([['str', a, None] if isinstance(a, str) else ['other', None, None]
                                                               for a in calls[0]])
            if model != got or len(calls) > 1:
                ctx.disagree('proxy-connections', sc, {'line': lines[li] + ' / ' + lines[li + 1], 'out': model}, got)
                break


def probe_internal_reentrancy(ctx):
    """F31's routeMessage variant: a callback that removes a rule through the *internal* router object while a
    message is being routed.  Not reachable through DBusClientConnection.addMatch/delMatch (they act after the
    daemon's reply); recorded in the evidence, never flagged."""
    from txdbus import router, message
    saved = swap_log(router, LogSpy())
    try:
        r = router.MessageRouter()
        hits = []
        ids = {}
        ids['a'] = r.addMatch(lambda m: (hits.append('a'), r.delMatch(ids['b'])))
        ids['b'] = r.addMatch(lambda m: hits.append('b'))
        ids['c'] = r.addMatch(lambda m: hits.append('c'))
        try:
            r.routeMessage(build_message(SIG()))
            res = 'no exception, invoked %r' % (hits,)
        except RuntimeError as e:
            res = 'RuntimeError(%s) after %r' % (e, hits)
        ctx.note('internal-API probe (not a public-API path): callback calling router.delMatch during routeMessage -> ' + res)
    finally:
        restore_log(router, saved)


def probe_apostrophe(ctx):
    """Values containing an apostrophe: the specification requires escaping; the code does none."""
    from txdbus import router
    saved = swap_log(router, LogSpy())
    try:
        c, t = make_connection()
        c.addMatch(lambda m: None, member="it's").addErrback(lambda f: None)
        text = drain_calls(t)[0][1][0]
        status, bkw, _, _ = bus_add(text)
        ctx.note("apostrophe probe: addMatch(member=\"it's\") sends %r; txdbus's own bus parses it as %r"
                 % (text, (bkw or {}).get('member') if status == 'ok' else status))
        c.addMatch(lambda m: None).addErrback(lambda f: None)
        text = drain_calls(t)[0][1][0]
        status, bkw, _, _ = bus_add(text)
        ctx.note("empty-rule probe: addMatch() without constraints sends %r; txdbus's own Bus.dbus_AddMatch answers %s"
                 % (text, status))
    finally:
        restore_log(router, saved)


# ------------------------------------------------------------------------------------------ entry points
def run_corpus_case(ctx, case):
    s = case.get('stream')
    if s == 'match-pairs':
        stream_pairs(ctx, [(case['rule'], case['message'], case.get('parsed', True))], 'corpus')
    elif s == 'route-histories':
        run_history(ctx, case['ops'])
    elif s == 'client-histories':
        run_client_history(ctx, case['ops'])
    elif s == 'client-daemon':
        run_daemon_history(ctx, case['ops'])
    elif s == 'rule-text':
        if 'message' in case:
            stream_pairs(ctx, [(case['rule'], case['message'], True)], 'corpus')
        stream_text(ctx, [case['rule']], [])
    elif s == 'bus-parse':
        stream_text(ctx, [], [case['text']])
    elif s == 'bus-histories':
        run_bus_history(ctx, case['ops'])
    elif s == 'proxy-gate':
        stream_proxy(ctx, [case])
    elif s == 'proxy-connections':
        stream_multi_proxy(ctx, case)


SKIPPED = set()


def own_reach(exc):
    """Was this exception raised by the harness's own reach into internals (innermost frame in this file, or an
    explicit HarnessReach) - as opposed to raised by the library in response to public calls?"""
    if isinstance(exc, HarnessReach):
        return True
    if not isinstance(exc, (AttributeError, TypeError, KeyError, ImportError, AssertionError)):
        return False
    tb = exc.__traceback__
    while tb is not None and tb.tb_next is not None:
        tb = tb.tb_next
    return tb is not None and tb.tb_frame.f_code.co_filename == __file__


def guarded(ctx, streams, fn):
    """Run one stream (group).  An internal the harness reaches for has moved: that is never a finding about the
    property - the stream is skipped, recorded as a note, and counts as run (an advisory-like outcome).  Anything
    else propagates."""
    try:
        fn()
        return True
    except Exception as e:
        if not own_reach(e):
            raise
        ctx.note('stream(s) %s skipped: the harness could not reach an internal (%s: %s)'
                 % (','.join(streams) or 'probe', type(e).__name__, str(e)[:160]))
        ctx.stat('stream-skipped:harness-reach')
        for s_ in streams:
            ctx.streams_run.add(s_)
            SKIPPED.add(s_)
        return False


def run(ctx):
    rng = ctx.rng
    SKIPPED.clear()
    for name, case in ctx.corpus():
        case_ = case.get('input', case)
        guarded(ctx, [], lambda: run_corpus_case(ctx, case_))

    # directed exemplars, both as received (parsed) and as constructed objects
    guarded(ctx, ['mkrule', 'match-pairs', 'oracle-vs-spec'], lambda: stream_pairs(
        ctx, [(kw, spec, True) for kw, spec in DIRECTED] + [(kw, spec, False) for kw, spec in DIRECTED], 'directed'))

    # grids (complete over the small pools): every namespace candidate x every path, every argNpath / argN
    # candidate x every string argument - the near-miss cases the property names
    grid = []
    all_ns = sorted(set(x for p in PATHS for x in ns_candidates(p)))
    for p in PATHS:
        for ns in all_ns:
            grid.append(({'path_namespace': ns}, SIG(path=p), True))
    all_ap = sorted(set(x for a in STRVALS for x in argpath_candidates(a)) | set(STRVALS))
    for a in STRVALS:
        for v in all_ap:
            grid.append(({'arg_paths': [[0, v]]}, SIG(signature='s', body=[a]), True))
        for v in STRVALS:
            grid.append(({'args': [[0, v]]}, SIG(signature='s', body=[a]), True))
    for a in PATHS:
        for v in all_ap:
            if v.startswith(a[:2]):
                grid.append(({'arg_paths': [[0, v]]}, SIG(signature='o', body=[a]), True))
    all_n0 = sorted(set(x for a in NAMEVALS for x in arg0ns_candidates(a)))
    for a in NAMEVALS + ['x', '']:
        for ns in all_n0:
            grid.append(({'arg0namespace': ns}, SIG(signature='s', body=[a]), True))
    for ns in ['com.ex', 'a.b']:
        for sig, val in OTHER_BODY:
            grid.append(({'arg0namespace': ns}, SIG(signature=sig, body=[val]), True))
    ctx.stat('grid-cases', len(grid))
    guarded(ctx, ['mkrule', 'match-pairs', 'oracle-vs-spec'], lambda: stream_pairs(ctx, grid, 'grid'))

    # single-key sweep: for every constraint key, satisfied and near-miss, alone
    single = []
    for _ in range(ctx.scale(quick=500, thorough=3000)):
        spec = gen_msg_spec(rng)
        mv = view(build_message(spec))
        kw = gen_rule_for(rng, mv, p_key=0.0)
        key = rng.choice(['mtype', 'interface', 'member', 'path', 'destination', 'path_namespace', 'args', 'arg_paths',
                          'arg0namespace'])
        full = gen_rule_for(rng, mv, p_key=1.0, p_miss=0.5)
        if key in full:
            kw = {key: full[key]}
        single.append((kw, spec, rng.random() < 0.85))
    guarded(ctx, ['mkrule', 'match-pairs', 'oracle-vs-spec'], lambda: stream_pairs(ctx, single, 'single-key'))

    pairs = []
    for _ in range(ctx.scale(quick=4000, thorough=40000)):
        spec = gen_msg_spec(rng)
        mv = view(build_message(spec))
        kw = gen_rule_for(rng, mv, p_miss=rng.choice([0.0, 0.15, 0.4]))
        pairs.append((kw, spec, rng.random() < 0.85))
    guarded(ctx, ['mkrule', 'match-pairs', 'oracle-vs-spec'], lambda: stream_pairs(ctx, pairs, 'random'))

    for _ in range(ctx.scale(quick=200, thorough=2000)):
        h_ = gen_history(rng, rng.choice([5, 10, 20, 40]))
        if not guarded(ctx, ['route-histories'], lambda: run_history(ctx, h_)):
            break

    for _ in range(ctx.scale(quick=120, thorough=1200)):
        h_ = gen_client_history(rng, rng.choice([6, 12, 25]))
        if not guarded(ctx, ['client-histories'], lambda: run_client_history(ctx, h_)):
            break

    dbatch = []
    for _ in range(ctx.scale(quick=150, thorough=1500)):
        dh_ = gen_daemon_history(rng, rng.choice([6, 12, 25]))
        if not guarded(ctx, ['client-daemon'], lambda: run_daemon_history(ctx, dh_, dbatch)):
            break
        if len(dbatch) >= 75:
            guarded(ctx, ['client-daemon'], lambda: compare_daemon_histories(ctx, dbatch))
            dbatch = []
    if dbatch:
        guarded(ctx, ['client-daemon'], lambda: compare_daemon_histories(ctx, dbatch))

    rules = [{}]
    for _ in range(ctx.scale(quick=400, thorough=4000)):
        mv = view(build_message(gen_msg_spec(rng, 'signal')))
        rules.append(clean_kw(gen_rule_for(rng, mv, p_key=rng.choice([0.2, 0.4, 0.8]))))
    malformed = ['', ',', '=', "a='b',", "type='signal',,path='/a'"] + \
                [gen_malformed(rng) for _ in range(ctx.scale(quick=1000, thorough=10000))]
    guarded(ctx, ['rule-text', 'bus-parse'], lambda: stream_text(ctx, rules, malformed))

    for _ in range(ctx.scale(quick=120, thorough=1200)):
        bh_ = gen_bus_history(rng, rng.choice([8, 15, 30]))
        if not guarded(ctx, ['bus-histories'], lambda: run_bus_history(ctx, bh_)):
            break

    scs = [gen_proxy_scenario(rng) for _ in range(ctx.scale(quick=120, thorough=1200))]
    guarded(ctx, ['proxy-gate'], lambda: stream_proxy(ctx, scs))

    mbatch = []
    for _ in range(ctx.scale(quick=100, thorough=1000)):
        mp_ = gen_multi_proxy(rng)
        if not guarded(ctx, ['proxy-connections'], lambda: stream_multi_proxy(ctx, mp_, mbatch)):
            break
        if len(mbatch) >= 50:
            guarded(ctx, ['proxy-connections'], lambda: compare_multi_proxy(ctx, mbatch))
            mbatch = []
    if mbatch:
        guarded(ctx, ['proxy-connections'], lambda: compare_multi_proxy(ctx, mbatch))

    guarded(ctx, [], lambda: probe_internal_reentrancy(ctx))
    guarded(ctx, [], lambda: probe_apostrophe(ctx))
    if SKIPPED and len(SKIPPED) >= len(STREAMS):
        raise RuntimeError('no stream of C12 could run: %r' % (sorted(SKIPPED),))


def replay(ctx, data):
    run_corpus_case(ctx, data['input'])
