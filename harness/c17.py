"""C17 - Remote property access honours declared type and access mode.
Correspondence + oracle harness.

A case = (class chain built with type(): per class a `dbusInterfaces` list and `DBusProperty` attributes,
number of instances, history).  History operations: local assignment `obj.attr = v`, `exportObject`, and
remote Get / Set / GetAll sent as marshalled-and-parsed MethodCallMessages for
org.freedesktop.DBus.Properties through a real `DBusObjectHandler.handleMethodCallMessage` whose connection
is a recording fake.  Observed per operation: everything handed to `sendMessage` - method returns (the
variant signature and value are decoded from the raw body bytes by the harness's own decoder), error
replies, PropertiesChanged signals - printed in the vocabulary of the Lean driver.

Beyond the three correspondence streams two ORACLE-ONLY streams run (no model): `lazy-binding` (no warm-up of the
class caches: assignments happen before any walk, the "assign in __init__, then export" order) and
`sibling-classes` (two subclasses of a common base that declares the DBusProperty attributes).

Class families (streams `class-family`, `class-tree`): the classes of ONE inheritance family (base, middle,
derived; siblings) are built once per case and objects of several of them live together; the history creates them
(`new`) and uses them in every order (base first then derived, derived first then base), including lookups that
are correct errors on one class and must succeed on another.  One oracle per instance, reading the declarations
of the instance's own class chain.  One-chain families are also compared with the Lean family model
(Obj/PropsFamily.lean: class caches shared and built by whichever instance walks first).

Two handlers (stream `two-handlers`, oracle only; notes/STATE_AUDIT.md G6): TWO DBusObjectHandlers, each with its own
recording connection, in one scenario; `['via', h, op]` sends an export / unexport / remote call through handler h.
Objects are exported on one handler, on both in either order, twice, unexported from the first / the last,
re-exported, moved, a second export fails, or never exported.  Judged: a reply leaves on the connection the call
arrived on; an assignment to an emitting property of an object some handler holds emits at least one
PropertiesChanged, at most one per connection, and nothing else; whatever an assignment emits leaves on a connection
the object WAS exported on (none at all for an object never exported).  Not judged (the statement does not say): which of the handlers that held the
object gets the signal, and what an object unexported everywhere does.

Two independent judgements:
  S3  the Lean model (lean/TxdbusModel/Obj/Props.lean through drv_c17) prints the same lines;
  S4  `Oracle` below, written from the property statement, keeps its own (interface, property) -> value
      map from the *inputs* and the observed success of Set, and judges every reply and signal of the
      implementation alone.
"""
import os
import re
import struct

STREAMS = ['decl-matrix', 'collision-inheritance', 'random-histories', 'class-family']
THEOREMS = ['keyPair_injective', 'keyConcat_collides', 'get_returns_last_write', 'access_matrix',
            'getall_exact', 'changed_signal', 'reachable_state_refines_spec',
            'original_violates_get_returns_last_write', 'original_getall_misses_base_class',
            'original_getall_unknown_interface_empty', 'original_set_wrong_type_then_get_fails',
            'conforms_eq_hasType', 'accessTable_eq', 'emitsTable_eq', 'classMap_facts', 'repaired_sound',
            'original_not_sound', 'family_object_independent', 'family_get_returns_last_write',
            'unstable_family_order_matters']
TRUSTED_BASE = [
    'Python class machinery mirrored by hand in Obj/Props.lean and validated by the streams: MRO of a '
    'single-inheritance chain, class __dict__ order, data-descriptor lookup by attribute name, dict insertion '
    'order and overwrite, truthiness of the interface-name argument',
    'value typing mirrored on a finite universe (None, int, bool, str, float as bit pattern, list of str): '
    'int()/str() of those, marshal.sigFromPy, struct.pack range checks, validateObjectPath, ascii/NUL tests',
    "the harness's own little-endian decoder of reply bodies (v, a{sv}, sa{sv}as over the basic types and as)",
    'message headers are read back with txdbus.message.parseMessage (C03)',
]
ASSUMPTIONS = [
    'model and theorems: one single-inheritance chain of DBusObject subclasses; instances of the most derived '
    'class (Obj/Props.lean) or of ANY classes of the chain together (Obj/PropsFamily.lean, theorems under `stable`: '
    'every class binds its own DBusProperty objects and every subclass binds them to the same declaration); '
    "every DBusProperty names (or resolves to) an interface of the object that declares its property "
    'name; declared signatures among the 12 basic types, as, v (other container signatures are run through the '
    'shared codec model and compared, no theorem); sibling subclasses are judged by the oracle only',
    'class families whose shared DBusProperty objects mean different declarations for different classes of the '
    'family (not `stable`) are generated on purpose at a low rate, compared with the model, and any oracle failure '
    'on them is reported under the known finding sibling-classes-share-descriptor',
    'in the correspondence streams the per-class interface caches are built before the first assignment (the '
    "harness calls getAllProperties('org.freedesktop.DBus.Properties') on the new instance, the walk exportObject "
    'itself does); the lazy binding window of DBusProperty.__get__/__set__ is exercised by the oracle-only stream '
    'lazy-binding and not modelled',
    'an unnamed DBusProperty whose name is listed by several interfaces of the object is not judged (which '
    'interface it means is not fixed by the statement)',
    "a local value conforms to a declared basic type if its plain value is of that type: Byte(7) conforms to 'u', "
    "ObjectPath('/a') to 's'; an int does not conform to 'd' (DESIGN C17 (iii))",
    'values assigned locally conform to the declared type (DESIGN C17 (iii)); non-conforming local values '
    'are generated to exercise the model but are not judged by the oracle',
    "Get/Set/GetAll with the empty interface name ('' = any interface) are compared with the model and not judged",
    "a property declared readable=False, writeable=False (normalised to access 'read') is not judged for visibility",
    "signature 'h' (unix fd) properties are not generated",
    'no user interface declares a signal called PropertiesChanged; calls arrive one at a time',
    'several DBusObjectHandlers: the statement fixes how many PropertiesChanged an assignment emits, not on which of '
    "the connections the object is or was exported on; the oracle demands at least one signal, at most one per "
    'connection, only on connections whose handler held the object at some time (none for an object never exported); an object unexported from every '
    'handler is not judged; handlers / unexport are not in the Lean model (oracle-only stream two-handlers)',
]
RULE = ('a case is one (class chain, instances, history); distinct = distinct canonical JSON of the case; '
        'non-trivial = the history contains at least one remote call answered with a method return and at '
        'least one assignment to a declared property')

PROPS = 'org.freedesktop.DBus.Properties'
BASIC = 'ybnqiuxtdsog'
INT_RANGE = {'y': (0, 255), 'n': (-2**15, 2**15 - 1), 'q': (0, 2**16 - 1), 'i': (-2**31, 2**31 - 1),
             'u': (0, 2**32 - 1), 'x': (-2**63, 2**63 - 1), 't': (0, 2**64 - 1)}
CONTAINER_SIGS = ['ai', 'av', 'a{sv}', '(is)', 'aas', 'ay', 'a{ss}']
SIGS = list(BASIC) + ['as', 'v'] + CONTAINER_SIGS
IFACE_POOL = ['org.a', 'org.ab', 'org.abc', 'org.b', 'com.x.Y']
PNAME_POOL = ['bc', 'c', 'b', 'abc', 'P', 'Name', 'q_1']


# =========================================================================== values
def dbl_bits(f):
    return struct.unpack('<Q', struct.pack('<d', f))[0]


def bits_dbl(b):
    return struct.unpack('<d', struct.pack('<Q', b))[0]


def wrapper_class(code):
    from txdbus import marshal
    return {'y': marshal.Byte, 'b': marshal.Boolean, 'n': marshal.Int16, 'q': marshal.UInt16,
            'i': marshal.Int32, 'u': marshal.UInt32, 'x': marshal.Int64, 't': marshal.UInt64,
            'o': marshal.ObjectPath, 'g': marshal.Signature}[code]


def to_py(v):
    """tagged JSON value -> Python object"""
    t = v[0]
    if t == 'N':
        return None
    if t == 'I':
        return int(v[1])
    if t == 'B':
        return bool(v[1])
    if t == 'S':
        return v[1]
    if t == 'D':
        return bits_dbl(int(v[1]))
    if t == 'L':
        return list(v[1])
    if t == 'W':                       # instance of a marshal wrapper class
        return wrapper_class(v[1])(v[2])
    if t == 'X':
        return [to_py(e) for e in v[1]]
    if t == 'T':
        return tuple(to_py(e) for e in v[1])
    if t == 'K':
        return {k: to_py(e) for k, e in v[1]}
    if t == 'Y':
        return [list(e) for e in v[1]]
    raise ValueError(v)


def _scalar(x):
    return isinstance(x, (bool, int, float, str)) and not hasattr(x, 'dbusSignature')


def from_py(x):
    if x is None:
        return ['N']
    if hasattr(x, 'dbusSignature') and isinstance(x, int):
        return ['W', x.dbusSignature, int(x)]
    if hasattr(x, 'dbusSignature') and isinstance(x, str):
        return ['W', x.dbusSignature, str(x)]
    if isinstance(x, bool):
        return ['B', bool(x)]
    if isinstance(x, int):
        return ['I', int(x)]
    if isinstance(x, float):
        return ['D', dbl_bits(x)]
    if isinstance(x, str):
        return ['S', str(x)]
    if isinstance(x, list) and all(isinstance(e, str) for e in x):
        return ['L', [str(e) for e in x]]
    if isinstance(x, list) and all(_scalar(e) for e in x):
        return ['X', [from_py(e) for e in x]]
    if isinstance(x, list) and all(isinstance(e, list) and all(isinstance(f, str) for f in e) for e in x):
        return ['Y', [[str(f) for f in e] for e in x]]
    if isinstance(x, tuple) and all(_scalar(e) for e in x):
        return ['T', [from_py(e) for e in x]]
    if isinstance(x, dict) and all(isinstance(k, str) and _scalar(e) for k, e in x.items()):
        return ['K', [[k, from_py(e)] for k, e in x.items()]]
    return ['?', repr(x)]


def plain(v):
    """the value a peer decodes: wrapper instances lose their class (Boolean -> bool), tuples arrive as lists"""
    if v[0] == 'W':
        if isinstance(v[2], str):
            return ['S', v[2]]
        return ['B', v[2] != 0] if v[1] == 'b' else ['I', v[2]]
    if v[0] == 'T':
        return from_py([to_py(e) for e in v[1]])
    return v


def hx(s):
    return ''.join('%06x' % ord(c) for c in s) or '-'


def tok(v):
    t = v[0]
    if t == 'N':
        return 'N'
    if t == 'I':
        return 'I%d' % v[1]
    if t == 'B':
        return 'B1' if v[1] else 'B0'
    if t == 'S':
        return 'S' + hx(v[1])
    if t == 'D':
        return 'D%d' % v[1]
    if t == 'L':
        return 'L:' + ','.join(hx(e) for e in v[1])
    if t == 'W':
        return 'W%s%s' % (v[1], tok(['S', v[2]] if isinstance(v[2], str) else ['I', v[2]]))
    if t == 'X':
        return 'X:' + ','.join(tok(e) for e in v[1])
    if t == 'T':
        return 'T:' + ','.join(tok(e) for e in v[1])
    if t == 'K':
        return 'K:' + ','.join('%s=%s' % (hx(k), tok(e)) for k, e in v[1])
    if t == 'Y':
        return 'Y:' + ';'.join(','.join(hx(f) for f in e) if e else '_' for e in v[1])
    return '?' + hx(v[1])


def valid_path(s):
    """DBus object path grammar: '/' or '/'-separated non-empty elements of [A-Za-z0-9_]"""
    if s == '/':
        return True
    if not s.startswith('/'):
        return False
    ok = 'abcdefghijklmnopqrstuvwxyzABCDEFGHIJKLMNOPQRSTUVWXYZ0123456789_'
    return all(e != '' and all(c in ok for c in e) for e in s[1:].split('/'))


def _one_type(s, k):
    """index after one complete type starting at s[k], or -1"""
    if k >= len(s):
        return -1
    c = s[k]
    if c in 'ybnqiuxtdsogvh':
        return k + 1
    if c == 'a':
        if k + 1 < len(s) and s[k + 1] == '{':
            if k + 2 >= len(s) or s[k + 2] not in 'ybnqiuxtdsogh':
                return -1
            e = _one_type(s, k + 3)
            return e + 1 if e != -1 and e < len(s) and s[e] == '}' else -1
        return _one_type(s, k + 1)
    if c == '(':
        k += 1
        if k < len(s) and s[k] == ')':
            return -1
        while k < len(s) and s[k] != ')':
            k = _one_type(s, k)
            if k == -1:
                return -1
        return k + 1 if k < len(s) else -1
    return -1


def is_signature(s):
    """DBus signature grammar: zero or more complete types"""
    k = 0
    while k < len(s):
        k = _one_type(s, k)
        if k == -1:
            return False
    return True


def split_types(sig):
    out = []
    k = 0
    while k < len(sig):
        e = _one_type(sig, k)
        if e == -1:
            return None
        out.append(sig[k:e])
        k = e
    return out


def py_has_type(sig, x):
    """the Python value x (as a peer would have decoded it, or a valid wrapper instance) is a value of the
    single complete type `sig` (DBus specification)"""
    if hasattr(x, 'dbusSignature'):
        own = x.dbusSignature
        base = int(x) if isinstance(x, int) else str(x)
        if own == 'b':
            base = bool(x)
        return own in BASIC and py_has_type(own, base) and py_has_type(sig, base)
    if sig in INT_RANGE:
        return isinstance(x, int) and not isinstance(x, bool) and INT_RANGE[sig][0] <= x <= INT_RANGE[sig][1]
    if sig == 'b':
        return isinstance(x, bool)
    if sig == 'd':
        return isinstance(x, float)
    if sig == 's':
        return isinstance(x, str) and '\0' not in x
    if sig == 'o':
        return isinstance(x, str) and valid_path(x)
    if sig == 'g':
        return isinstance(x, str) and len(x) <= 255 and is_signature(x)
    if sig == 'v':
        if isinstance(x, bool) or isinstance(x, float):
            return True
        if isinstance(x, int):
            return -2**63 <= x < 2**64
        if isinstance(x, str):
            return '\0' not in x
        if isinstance(x, (list, tuple)):
            return all(py_has_type('v', e) for e in x)
        if isinstance(x, dict):
            return all(isinstance(k, str) and '\0' not in k and py_has_type('v', e) for k, e in x.items())
        return False
    if sig.startswith('a{') and sig.endswith('}'):
        inner = split_types(sig[2:-1])
        return (isinstance(x, dict) and inner is not None and len(inner) == 2
                and all(py_has_type(inner[0], k) and py_has_type(inner[1], e) for k, e in x.items()))
    if sig.startswith('a'):
        return isinstance(x, list) and all(py_has_type(sig[1:], e) for e in x)
    if sig.startswith('(') and sig.endswith(')'):
        inner = split_types(sig[1:-1])
        return (isinstance(x, (list, tuple)) and inner is not None and len(inner) == len(x)
                and all(py_has_type(t, e) for t, e in zip(inner, x)))
    return False


def has_type(sig, v):
    """the tagged value is a value of the DBus type `sig`"""
    if v[0] in 'N?':
        return False
    return py_has_type(sig, to_py(v))


def variant_ok(v):
    return has_type('v', v)


GOOD = {
    'y': [0, 255, 7], 'n': [-2**15, 2**15 - 1, -5], 'q': [0, 2**16 - 1, 300], 'i': [-2**31, 2**31 - 1, 42],
    'u': [0, 2**32 - 1, 70000], 'x': [-2**63, 2**63 - 1, 2**40], 't': [0, 2**64 - 1, 2**63],
    'b': [True, False], 'd': [0.0, 1.5, -2.25, 1e300, -0.0], 's': ['', 'hello', 'zz', '12', 'a b', '/a'],
    'o': ['/', '/a', '/a/b_1'], 'g': ['', 'i', 'a{sv}', 'as'], 'as': [[], ['a'], ['x', 'yz'], ['', '12']],
    'ai': [[], [1, 2], [-5]], 'av': [[], [1, 'a'], ['x'], [True, 2.5]], 'a{sv}': [{}, {'k': 1}, {'a': 'b', 'c': 2}],
    '(is)': [(1, 'a'), (0, '')], 'aas': [[], [['a'], ['b', 'c']], [[]]], 'ay': [[], [1, 255]],
    'a{ss}': [{}, {'a': 'b'}],
}
JUNK_LOCAL = [None, 'zz', '12', -1, 256, 2**31, 2**64, -2**63 - 1, True, 3, '/a/', 'a\0b', ['a'], [], 1.5,
              'é', 'g' * 256, [1, 'a'], {'k': 1}, (1, 'a'), [['a']], [300]]
JUNK_WRAPPED = [['W', 'y', 300], ['W', 'o', 'no path'], ['W', 'q', -1], ['W', 'g', 'a'], ['W', 'b', 1]]
WIRE_JUNK = ['zz', '12', -1, 256, 2**31, 2**63, 2**40, True, False, 3, 0, '/a/', '//', '/a b', 'a', ['a'], [],
             1.5, 0.0, 'é', 'g' * 256, '/ok/path', '', [1, 'a'], {'k': 1}, (1, 'a'), [['a']], [300], {}]


def good_value(rng, sig):
    """a value of the declared type; sometimes an instance of a wrapper class of ANOTHER type whose plain value
    fits (Byte(7) for a 'u' property, ObjectPath('/a') for an 's' property)"""
    if sig == 'v':
        s2 = rng.choice([s for s in GOOD])
        if rng.random() < 0.1 and s2 in 'ynqiuxtog':
            return ['W', s2, rng.choice(GOOD[s2])]
        return from_py(rng.choice(GOOD[s2]))
    if sig in INT_RANGE and rng.random() < 0.2:
        for _ in range(8):
            c = rng.choice('ynqiuxt')
            n = rng.choice(GOOD[c] + GOOD[sig])
            if INT_RANGE[c][0] <= n <= INT_RANGE[c][1] and INT_RANGE[sig][0] <= n <= INT_RANGE[sig][1]:
                return ['W', c, n]
    if sig == 's' and rng.random() < 0.2:
        return rng.choice([['W', 'o', '/a'], ['W', 'o', '/'], ['W', 'g', 'i'], ['W', 'g', '']])
    if sig == 'o' and rng.random() < 0.1:
        return ['W', 'o', rng.choice(GOOD['o'])]
    return from_py(rng.choice(GOOD[sig]))


def wire_type_for(rng, v, prefer=None):
    """a DBus type in which the tagged value can be sent inside a variant (None: cannot be sent)"""
    t = v[0]
    if t == 'I':
        fits = [c for c in 'ynqiuxt' if INT_RANGE[c][0] <= v[1] <= INT_RANGE[c][1]]
        if not fits:
            return None
        if prefer in fits:
            return prefer
        return rng.choice(fits)
    if t == 'B':
        return 'b'
    if t == 'D':
        return 'd'
    if t == 'S':
        if '\0' in v[1]:
            return None
        opts = ['s']
        if valid_path(v[1]):
            opts.append('o')
        if all(ord(c) < 128 for c in v[1]) and len(v[1]) <= 255:
            opts.append('g')
        if prefer in opts:
            return prefer
        return rng.choice(opts) if rng.random() < 0.3 else 's'
    if t == 'L':
        return 'as' if all('\0' not in e for e in v[1]) else None
    if t in 'XTKY':
        return 'auto' if variant_ok(v) else None     # sent with the type txdbus infers for the Python value
    return None


# =========================================================================== own wire decoder (little endian)
class Dec:
    def __init__(self, data):
        self.d = data
        self.o = 0

    def align(self, n):
        self.o += (-self.o) % n

    def u(self, fmt, n):
        self.align(n)
        x = struct.unpack_from('<' + fmt, self.d, self.o)[0]
        self.o += n
        return x

    def string(self):
        n = self.u('I', 4)
        s = self.d[self.o:self.o + n].decode('utf-8')
        self.o += n + 1
        return s

    def signature(self):
        n = self.d[self.o]
        s = self.d[self.o + 1:self.o + 1 + n].decode('ascii')
        self.o += n + 2
        return s

    def py(self, sig):
        """one complete type -> Python object the way a peer sees it (struct -> list, a{..} -> dict, variant ->
        its inner value, double -> float)"""
        c = sig[0]
        if c == 'y':
            return self.u('B', 1)
        if c == 'b':
            return self.u('I', 4) != 0
        if c == 'n':
            return self.u('h', 2)
        if c == 'q':
            return self.u('H', 2)
        if c == 'i':
            return self.u('i', 4)
        if c == 'u':
            return self.u('I', 4)
        if c == 'x':
            return self.u('q', 8)
        if c == 't':
            return self.u('Q', 8)
        if c == 'd':
            return bits_dbl(self.u('Q', 8))
        if c in 'so':
            return self.string()
        if c == 'g':
            return self.signature()
        if c == 'v':
            return self.py(self.signature())
        if c == 'a':
            n = self.u('I', 4)
            el = sig[1:]
            self.align(8 if el[0] in '({xtd' else 4 if el[0] in 'biusoa' else 2 if el[0] in 'nq' else 1)
            end = self.o + n
            if el[0] == '{':
                kt, vt = split_types(el[1:-1])
                d = {}
                while self.o < end:
                    self.align(8)
                    k = self.py(kt)
                    d[k] = self.py(vt)
                return d
            out = []
            while self.o < end:
                out.append(self.py(el))
            return out
        if c == '(':
            self.align(8)
            return [self.py(t) for t in split_types(sig[1:-1])]
        raise ValueError('decoder: unsupported signature %r' % sig)

    def value(self, sig):
        """top level: 'v' -> ['V', sig, tagged]; 'a{sv}' -> ['M', [(key, ['V', sig, tagged])]]; else tagged"""
        if sig == 'v':
            s = self.signature()
            return ['V', s, from_py(self.py(s))]
        if sig == 'a{sv}':
            n = self.u('I', 4)
            self.align(8)
            end = self.o + n
            out = []
            while self.o < end:
                self.align(8)
                k = self.string()
                out.append((k, self.value('v')))
            return ['M', out]
        return from_py(self.py(sig))


def body_bytes(raw):
    if raw[0:1] != b'l':
        raise ValueError('big-endian message')
    n = struct.unpack_from('<I', raw, 4)[0]
    return raw[len(raw) - n:] if n else b''


# =========================================================================== the implementation side
class Conn:
    """recording connection number `idx`; every connection of a case appends to one shared `log` as well, so that
    the order of the messages across connections is kept"""

    def __init__(self, idx=0, log=None):
        self.idx = idx
        self.sent = []
        self.log = log if log is not None else []

    def sendMessage(self, m):
        self.sent.append(m)
        self.log.append((self.idx, m))


ERR_TEXT = {'Invalid Property': 'unknownProp', 'Property is not readable': 'notReadable',
            'Property is not Writeable': 'notWritable', 'Invalid Interface': 'unknownIface'}


class Obs:
    """one message seen on the connection, decoded"""

    def __init__(self, m, conn=0):
        from txdbus import message
        self.conn = conn               # index of the connection (= of the DBusObjectHandler) it was sent on
        raw = m.rawMessage
        pm = message.parseMessage(raw, [])
        self.kind = type(pm).__name__
        self.reply_serial = getattr(pm, 'reply_serial', None)
        self.destination = getattr(pm, 'destination', None)
        self.error_name = getattr(pm, 'error_name', None)
        self.path = getattr(pm, 'path', None)
        self.interface = getattr(pm, 'interface', None)
        self.member = getattr(pm, 'member', None)
        self.signature = pm.signature or ''
        self.text = None
        self.value = None
        body = body_bytes(raw)
        try:
            if self.kind == 'ErrorMessage':
                self.text = Dec(body).value('s')[1] if self.signature == 's' else ''
            elif self.kind == 'MethodReturnMessage':
                if self.signature in ('v', 'a{sv}'):
                    self.value = Dec(body).value(self.signature)
                elif self.signature != '':
                    self.value = ['?', self.signature]
            elif self.kind == 'SignalMessage' and self.member == 'PropertiesChanged':
                if self.signature == 'sa{sv}as':
                    d = Dec(body)
                    self.value = [d.value('s')[1], d.value('a{sv}')[1], d.value('as')[1]]
                else:
                    self.value = ['?', self.signature]
        except Exception as e:  # undecodable body: shows up as a disagreement
            self.value = ['?', 'undecodable %s: %r' % (self.signature, e)]


def err_cat(ob):
    n = ob.error_name or ''
    if n == 'org.freedesktop.DBus.Error.UnknownObject':
        return 'unknownObject'
    if n == 'org.txdbus.PythonException.Exception':
        return ERR_TEXT.get(ob.text, 'exception:' + hx(ob.text or ''))
    if n.startswith('org.txdbus.PythonException.'):
        return 'value'
    return 'other:' + hx(n)


def show_obs(ob, objidx):
    """driver vocabulary for one observed message"""
    if ob.kind == 'ErrorMessage':
        return 'err ' + err_cat(ob)
    if ob.kind == 'MethodReturnMessage':
        if ob.signature == '':
            return 'ret'
        v = ob.value
        if v and v[0] == 'V':
            return 'retv %s %s' % (hx(v[1]), tok(v[2]))
        if v and v[0] == 'M':
            return 'retd %d' % len(v[1]) + ''.join(' %s %s %s' % (hx(k), hx(e[1]), tok(e[2])) for k, e in v[1])
        return 'ret? ' + hx(repr(v))
    if ob.kind == 'SignalMessage' and ob.member == 'PropertiesChanged' and ob.interface == PROPS:
        v = ob.value
        o = objidx.get(ob.path, 99)
        if isinstance(v, list) and len(v) == 3 and v[0] != '?' and len(v[1]) == 1 and v[2] == []:
            k, e = v[1][0]
            return 'sig %d %s %s %s %s' % (o, hx(v[0]), hx(k), hx(e[1]), tok(e[2]))
        return 'sig? %d %s' % (o, hx(repr(v)))
    return 'msg? ' + hx('%s %s %s' % (ob.kind, ob.interface, ob.member))


class Impl:
    """builds the classes of a case on the real txdbus and runs operations one at a time"""

    def __init__(self, case, warm=True):
        from txdbus import objects, interface
        self.objects_mod = objects
        self.case = case
        self.decl_lines = []       # what the driver should have answered to the declaration lines
        self.failed = None         # 'typeerror' | 'declerr'
        self.log = []
        self.conn = Conn(0, self.log)
        self.handler = objects.DBusObjectHandler(self.conn)
        # further handlers (each with its own connection): case['nh'] of them in all; operations reach them
        # through ['via', h, op]
        self.handlers = [self.handler] + [objects.DBusObjectHandler(Conn(k, self.log))
                                          for k in range(1, case.get('nh', 1))]
        self.objs = []
        self.serial = 100
        self.warm = warm
        if 'tree' in case:
            self._init_tree(case, objects, interface)
            return
        ifcache = {}
        chain = []
        for ci, c in enumerate(case['classes']):
            self.decl_lines.append('ok')      # class
            ifs = []
            for f in c['ifaces']:
                key = repr(f)
                if key not in ifcache:
                    try:
                        ps = [interface.Property(p[0], p[1], readable=p[2], writeable=p[3],
                                                 emitsOnChange={'t': True, 'f': False, 'i': 'invalidates',
                                                                'c': 'const'}[p[4]]) for p in f['props']]
                    except TypeError:
                        self.decl_lines.append('typeerror')
                        self.failed = 'typeerror'
                        return
                    ifcache[key] = interface.DBusInterface(f['name'], *ps, noRegister=True)
                ifs.append(ifcache[key])
                self.decl_lines.append('ok')
            chain.append((ifs, c['descs']))
            for _ in c['descs']:
                self.decl_lines.append('ok')
        base = objects.DBusObject
        for k in range(len(chain) - 1, -1, -1):
            ifs, descs = chain[k]
            ns = {}
            if ifs:
                ns['dbusInterfaces'] = list(ifs)
            for a, p, i in descs:
                ns[a] = objects.DBusProperty(p, i)
            base = type('C17Level%d' % k, (base,), ns)
        self.cls = base
        self.paths = ['/o%d' % n for n in range(case['nobj'])]
        self.objidx = {p: n for n, p in enumerate(self.paths)}
        classes_of = [self.cls] * case['nobj']
        if 'siblings' in case:
            # case['classes'] is the common base chain; every instance is of its own subclass of it
            classes_of = []
            for n, c in enumerate(case['siblings']):
                ns = {}
                ifs = []
                for f in c['ifaces']:
                    ps = [interface.Property(q[0], q[1], readable=q[2], writeable=q[3],
                                             emitsOnChange={'t': True, 'f': False, 'i': 'invalidates'}[q[4]])
                          for q in f['props']]
                    ifs.append(interface.DBusInterface(f['name'], *ps, noRegister=True))
                if ifs:
                    ns['dbusInterfaces'] = ifs
                for a, pn, i in c['descs']:
                    ns[a] = objects.DBusProperty(pn, i)
                classes_of.append(type('C17Sibling%d' % n, (self.cls,), ns))
        try:
            for n, p in enumerate(self.paths):
                if case.get('ctor'):
                    # explicit construction: the history says when DBusObject.__init__ runs ('init' op); property
                    # assignments before it are what a subclass __init__ does before chaining up
                    o = classes_of[n].__new__(classes_of[n])
                    if warm:
                        # (the interface caches live on the classes: a throw-away instance builds them)
                        classes_of[n]('/probe').getAllProperties(PROPS)
                else:
                    o = classes_of[n](p)
                    if warm:
                        # the walk exportObject does for the last interface of getInterfaces(): builds every class cache
                        o.getAllProperties(PROPS)
                self.objs.append(o)
            self.decl_lines.append('ok')
        except (AttributeError, KeyError):
            self.decl_lines.append('declerr')
            self.failed = 'declerr'

    def _init_tree(self, case, objects, interface):
        """a class FAMILY: case['tree'] = class nodes (parent index or -1 = DBusObject; parents first),
        case['inst'][o] = node of instance o.  The classes are built once; the instances are created by the 'new'
        operations of the history, so that objects of several classes of the family live together and the class-level
        state (interface caches, bound descriptors, anything else kept on a class) is shared by the whole history."""
        ifcache = {}
        self.node_cls = []
        for k, c in enumerate(case['tree']):
            ifs = []
            for f in c['ifaces']:
                key = repr(f)            # one definition = one DBusInterface object
                if key not in ifcache:
                    ps = [interface.Property(p[0], p[1], readable=p[2], writeable=p[3],
                                             emitsOnChange={'t': True, 'f': False, 'i': 'invalidates'}[p[4]])
                          for p in f['props']]
                    ifcache[key] = interface.DBusInterface(f['name'], *ps, noRegister=True)
                ifs.append(ifcache[key])
            ns = {}
            if ifs:
                ns['dbusInterfaces'] = list(ifs)
            for a, p, i in c['descs']:
                ns[a] = objects.DBusProperty(p, i)
            parent = objects.DBusObject if c['parent'] < 0 else self.node_cls[c['parent']]
            self.node_cls.append(type('C17Node%d' % k, (parent,), ns))
        self.paths = ['/o%d' % n for n in range(case['nobj'])]
        self.objidx = {p: n for n, p in enumerate(self.paths)}
        self.objs = [None] * case['nobj']
        self.inst_cls = [self.node_cls[n] for n in case['inst']]

    def _take(self, n0):
        out = [Obs(m, c) for c, m in self.log[n0:]]
        return out

    def run_op(self, op):
        """-> (line in driver vocabulary, list of Obs, raised?)"""
        from txdbus import message, marshal
        n0 = len(self.log)
        handler = self.handler
        if op[0] == 'via':
            handler = self.handlers[op[1]]
            op = op[2]
        kind = op[0]
        if kind == 'new':
            # (class families only) instance op[1] of its class comes into being
            cls = self.inst_cls[op[1]]
            try:
                if self.case.get('ctor'):
                    o = cls.__new__(cls)
                    if self.warm:
                        cls('/probe').getAllProperties(PROPS)
                else:
                    o = cls(self.paths[op[1]])
                    if self.warm:
                        o.getAllProperties(PROPS)
            except (AttributeError, KeyError):
                return 'raised', [], True
            self.objs[op[1]] = o
            return 'done', [], False
        if kind == 'init':
            self.objects_mod.DBusObject.__init__(self.objs[op[1]], self.paths[op[1]])
            return None, [], False
        if kind == 'export':
            exc = False
            try:
                handler.exportObject(self.objs[op[1]])
            except Exception:
                exc = True
            # third component (for the oracle): the object is NOT reachable afterwards
            # third component (for the oracle): the call did not return (exportObject is atomic since b7608b0: the
            # oracle follows the operations performed, not the implementation's own `exports` table)
            return ('raised' if exc else 'done'), [], exc
        if kind == 'unexport':
            exc = False
            try:
                handler.unexportObject(self.paths[op[1]])
            except Exception:
                exc = True
            # third component (for the oracle): the call did not return
            return ('raised' if exc else 'done'), [], exc
        if kind == 'assign':
            raised = False
            try:
                setattr(self.objs[op[1]], op[2], to_py(op[3]))
            except Exception:
                raised = True
            obs = self._take(n0)
            if raised:
                return 'raised', obs, True
            return ' | '.join([show_obs(o, self.objidx) for o in obs] + ['done']), obs, False
        path = self.paths[op[1]]
        if kind == 'get':
            member, sig, body = 'Get', 'ss', [op[2], op[3]]
        elif kind == 'set':
            v = to_py(op[4])
            if op[5] in 'ybnqiuxtog':
                v = wrapper_class(op[5])(v)
            member, sig, body = 'Set', 'ssv', [op[2], op[3], v]
        else:
            member, sig, body = 'GetAll', 's', [op[2]]
        self.serial += 1
        mc = message.MethodCallMessage(path, member, interface=PROPS, destination=':1.5', signature=sig, body=body)
        mc.serial = self.serial
        pm = message.parseMessage(mc.rawMessage, [])
        pm.sender = ':1.9'
        try:
            handler.handleMethodCallMessage(pm)
        except Exception as e:
            obs = self._take(n0)
            return 'crash ' + hx(type(e).__name__), obs, True
        obs = self._take(n0)
        return ' | '.join(show_obs(o, self.objidx) for o in obs), obs, False


# =========================================================================== encoding for the driver
def enc_val(v):
    return tok(v)


def enc_case(case):
    lines = ['reset']
    for c in case['classes']:
        lines.append('class')
        for f in c['ifaces']:
            lines.append('iface %s' % hx(f['name']) + ''.join(
                ' %s %s %d %d %s' % (hx(p[0]), hx(p[1]), 1 if p[2] else 0, 1 if p[3] else 0, p[4]) for p in f['props']))
        for a, p, i in c['descs']:
            lines.append('desc %s %s %s' % (hx(a), hx(p), '~' if i is None else hx(i)))
    lines.append('bind')
    nd = len(lines)
    for op in case['ops']:
        k = op[0]
        if k == 'init':
            continue                       # construction is not an operation of the model
        if k == 'export':
            lines.append('export %d' % op[1])
        elif k == 'assign':
            lines.append('assign %d %s %s' % (op[1], hx(op[2]), enc_val(op[3])))
        elif k == 'get':
            lines.append('get %d %s %s' % (op[1], hx(op[2]), hx(op[3])))
        elif k == 'set':
            # the model gets what the object receives (a tuple travels as a struct and arrives as a list)
            lines.append('set %d %s %s %s' % (op[1], hx(op[2]), hx(op[3]), enc_val(plain(op[4]))))
        elif k == 'getall':
            lines.append('getall %d %s' % (op[1], hx(op[2])))
        else:
            raise ValueError(op)
    return lines, nd


# =========================================================================== the oracle (property statement)
class Oracle:
    """Written from the statement.  Declared properties = the DBusProperty attributes of the chain, each
    belonging to the interface it names (or, unnamed, the first interface of the object - most derived class
    first - that lists its property name), with type / readable / writeable / emits-change as declared on
    that interface.  Judges only cases whose declarations are unambiguous (`self.judged`)."""

    def __init__(self, case):
        self.case = case
        self.viol = []           # (key, what, opindex, observed, expected)
        ifaces = []              # in getInterfaces order: (name, {pname: (sig, r, w, e)})
        for c in case['classes']:
            for f in c['ifaces']:
                d = {}
                for p in f['props']:
                    d[p[0]] = (p[1], p[2], p[3], p[4])
                ifaces.append((f['name'], d))
        self.known_ifaces = set(n for n, _ in ifaces) | {PROPS}
        self.props = {}          # (iface, pname) -> dict(sig, r, w, e, levels=[class index...], attrs=set)
        self.attr = {}           # attr -> (iface, pname)
        self.judged = True
        for ci, c in enumerate(case['classes']):
            seen_attr = set()
            for a, p, i in c['descs']:
                if i is None:
                    cands = sorted(set(n for n, d in ifaces if p in d))
                    if len(cands) != 1:
                        # no interface, or several: which one an unnamed DBusProperty means is not fixed by
                        # the statement - such declarations are compared with the model only
                        self.judged = False
                        continue
                    i = cands[0]
                defs = [d for n, d in ifaces if n == i]
                if not defs or p not in defs[0] or any(d.get(p) != defs[0][p] for d in defs):
                    self.judged = False      # interface missing / defined twice differently: ambiguous
                    continue
                if a in seen_attr:
                    self.judged = False
                seen_attr.add(a)
                if a in self.attr and self.attr[a] != (i, p):
                    self.judged = False      # an attribute shadowed by a different property
                self.attr.setdefault(a, (i, p))
                sig, r, w, e = defs[0][p]
                ent = self.props.setdefault((i, p), dict(sig=sig, r=r, w=w, e=e, levels=[], attrs=set()))
                ent['levels'].append(ci)
                ent['attrs'].add(a)
        # per (obj, iface, pname): None = never assigned; ('v', tagged, judge) ; ('?',) unknown
        self.val = {}
        self.wseq = {}
        self.seq = 0
        self.seen = {}           # observations that are not judged (statistics)
        self.on = {}             # o -> handlers that hold the object now
        self.ever = {}           # o -> handlers that ever held it (exportObject returned)

    def flag(self, key, what, idx, observed, expected):
        self.viol.append((key, what, idx, observed, expected))

    # ---- helpers
    def collide_partner(self, o, i, p, got=None, failed=None):
        """another declared property whose interface+name concatenation equals i+p, written on the same instance
        after the last write to (i, p), AND whose value explains what was seen: a wrong value `got` is the partner's
        value; a failed Get / GetAll (`failed` = the error reply) is one that is not a lookup / access error while the
        partner holds a value that is not of (i, p)'s declared type.  Only then is the failure reported under the
        collision key (the statement keeps (interface, property) pairs apart); any other failure keeps its own key."""
        mine = self.wseq.get((o, i, p), -1)
        for (i2, p2) in sorted(self.props):
            if (i2, p2) != (i, p) and i2 + p2 == i + p and self.wseq.get((o, i2, p2), -1) > mine:
                st2 = self.val.get((o, i2, p2))
                if st2 is None or st2[0] != 'v':
                    continue
                if got is not None and got == st2[1]:
                    return (i2, p2)
                if failed is not None and err_cat(failed) not in ('unknownProp', 'unknownIface', 'notReadable',
                                                                  'unknownObject') \
                        and not has_type(self.props[(i, p)]['sig'], st2[1]):
                    return (i2, p2)
        return None

    def wrote(self, o, i, p, state):
        self.seq += 1
        self.wseq[(o, i, p)] = self.seq
        self.val[(o, i, p)] = state

    def check_variant(self, idx, o, i, p, ent, st, var, ctxname):
        """var = ['V', sig, tagged] returned for a readable property whose last write is st"""
        want = st[1]
        got_sig, got = var[1], var[2]
        if got != want:
            cp = self.collide_partner(o, i, p, got)
            if cp:
                self.flag('property-storage-key-collision',
                          '%s of (%s, %s) does not return its last value; (%s, %s) is declared too and interface+name '
                          'is %r for both' % (ctxname, i, p, cp[0], cp[1], i + p), idx, tok(got), tok(want))
            elif st[2] == 'remote-wrongtype':
                self.flag('set-wrong-type-accepted',
                          'Set stored a value that is not of the declared type %r and answered success; %s does not '
                          'return it' % (ent['sig'], ctxname), idx, tok(got), tok(want))
            else:
                self.flag('get-not-last-write', '%s of (%s, %s) does not return the value last written'
                          % (ctxname, i, p), idx, tok(got), tok(want))
            return
        if ent['sig'] in BASIC and got_sig != ent['sig']:
            if st[2] == 'remote-wrongtype':
                self.flag('set-wrong-type-accepted',
                          'Set stored a value not of the declared type %r and answered success; %s returns a variant '
                          'of type %r' % (ent['sig'], ctxname, got_sig), idx, got_sig, ent['sig'])
            else:
                self.flag('get-variant-type', '%s of (%s, %s) declared %r returns a variant of type %r'
                          % (ctxname, i, p, ent['sig'], got_sig), idx, got_sig, ent['sig'])

    def expect_signals(self, idx, o, obs, want):
        """want: None or (iface, pname, tagged)"""
        sigs = [x for x in obs if x.kind == 'SignalMessage']
        ever = self.ever.get(o, set())
        if any(x.conn not in ever for x in sigs):
            # whatever an assignment emits leaves on a connection the object was exported on
            self.flag('changed-signal-wrong-connection', 'a signal caused by an assignment to object %d is sent on a '
                      'connection the object was never exported on' % o, idx,
                      sorted(set(x.conn for x in sigs)), sorted(ever))
            return
        if want is None:
            if sigs:
                self.flag('changed-signal-unexpected', 'a signal is emitted by an assignment that must emit none',
                          idx, len(sigs), 0)
            return
        i, p, v = want
        good = [x for x in sigs if x.member == 'PropertiesChanged' and x.interface == PROPS
                and x.path == '/o%d' % o and isinstance(x.value, list) and len(x.value) == 3 and x.value[0] == i
                and isinstance(x.value[1], list) and len(x.value[1]) == 1 and x.value[1][0][0] == p
                and py_equal(x.value[1][0][1][2], v) and x.value[2] == []]
        for x in good:
            k = ('PropertiesChanged sent on a handler that holds the object' if x.conn in self.on.get(o, ())
                 else 'PropertiesChanged sent on a handler that no longer holds the object (where is not judged)')
            self.seen[k] = self.seen.get(k, 0) + 1
        # "one PropertiesChanged signal": one per connection at most (an implementation may notify every connection
        # the object is exported on, or only one of them - the statement does not choose), at least one in all, and
        # nothing else
        conns = [x.conn for x in sigs]
        if not sigs or len(good) != len(sigs) or len(set(conns)) != len(conns):
            self.flag('changed-signal-missing' if not sigs else 'changed-signal-wrong',
                      'assigning (%s, %s), declared to emit change notifications, must emit one '
                      'PropertiesChanged(%s, {%s: value}, []) (at most one per connection, nothing else)'
                      % (i, p, i, p), idx, [(x.conn, x.member, x.value) for x in sigs], [i, p, tok(v)])

    # ---- one operation
    def step(self, idx, op, obs, raised):
        if not self.judged:
            return
        h = 0
        if op[0] == 'via':            # the operation goes through handler op[1]
            h, op = op[1], op[2]
        kind = op[0]
        o = op[1]
        if kind == 'export':
            if not raised:            # exportObject returned: handler h holds the object now
                self.on.setdefault(o, set()).add(h)
                self.ever.setdefault(o, set()).add(h)
            return
        if kind == 'unexport':
            if not raised:            # unexportObject returned: handler h does not hold it any more
                self.on.get(o, set()).discard(h)
            return
        if kind == 'assign':
            ip = self.attr.get(op[2])
            if ip is None:
                return
            i, p = ip
            ent = self.props[ip]
            v = op[3]
            if not has_type(ent['sig'], v):
                self.wrote(o, i, p, ('?',))        # DESIGN C17 (iii): outside the claim
                return
            v = plain(v)
            self.wrote(o, i, p, ('v', v, 'local'))
            live = bool(self.on.get(o))
            if not self.ever.get(o):
                # never exported: the object has no connection, nothing can be emitted anywhere
                if any(x.kind == 'SignalMessage' for x in obs):
                    self.flag('changed-signal-wrong-connection', 'assigning a property of object %d, which was never '
                              'exported, sends a signal' % o, idx,
                              sorted(set(x.conn for x in obs if x.kind == 'SignalMessage')), [])
            if raised and not live:
                self.wrote(o, i, p, ('?',))        # what a raising statement left behind is not specified
                return
            # (an object unexported from every handler: whether and where it still emits is not in the statement)
            if live:
                if raised:
                    self.flag('assign-raises', 'assigning a value of the declared type raises', idx, 'raised', 'stored')
                    self.val[(o, i, p)] = ('?',)
                    return
                self.expect_signals(idx, o, obs, (i, p, v) if ent['e'] == 't' else None)
            return
        if h not in self.on.get(o, ()):
            return
        replies = [x for x in obs if x.kind in ('MethodReturnMessage', 'ErrorMessage')]
        if len(replies) != 1:
            self.flag('reply-count', 'a Properties call must be answered exactly once', idx, len(replies), 1)
            return
        rep = replies[0]
        if rep.conn != h:
            self.flag('reply-wrong-connection', 'the reply to a Properties call leaves on another connection than '
                      'the one the call arrived on', idx, rep.conn, h)
            return
        ok = rep.kind == 'MethodReturnMessage'
        iface = op[2]
        if kind == 'set':
            p = op[3]
            v = plain(op[4])          # what the object receives (a tuple arrives as a list)
            if iface == '':
                # any interface: not judged; some property called p may have changed
                for (o2, i2, p2) in [(o, k[0], k[1]) for k in self.props if k[1] == p]:
                    self.wrote(o2, i2, p2, ('?',))
                return
            ent = self.props.get((iface, p))
            if ent is None:
                if ok:
                    self.flag('set-unknown-succeeds', 'Set of an undeclared (interface, property) answers success',
                              idx, 'return', 'error')
                self.expect_signals(idx, o, obs, None)
                return
            if not ent['w']:
                if ok:
                    self.flag('set-readonly-succeeds', 'Set of a property that is not writeable answers success',
                              idx, 'return', 'error')
                    self.wrote(o, iface, p, ('?',))
                self.expect_signals(idx, o, obs, None)
                return
            typed = has_type(ent['sig'], v)
            if ok:
                self.wrote(o, iface, p, ('v', v, 'remote' if typed else 'remote-wrongtype'))
                if typed:
                    self.expect_signals(idx, o, obs, (iface, p, v) if ent['e'] == 't' else None)
            else:
                if typed:
                    self.flag('set-writable-rejected', 'Set of a writeable property with a value of the declared type '
                              'answers an error', idx, rep.error_name, 'return')
                self.expect_signals(idx, o, obs, None)
            return
        if kind == 'get':
            p = op[3]
            if iface == '':
                return
            ent = self.props.get((iface, p))
            if ent is None:
                if ok:
                    self.flag('get-unknown-answers', 'Get of an undeclared (interface, property) answers a value',
                              idx, 'return', 'error')
                return
            if not ent['r']:
                if ok and ent['w']:
                    self.flag('get-reveals-unreadable', 'Get reveals a property that is not readable', idx,
                              'return', 'error')
                return
            st = self.val.get((o, iface, p))
            if st is None or st[0] != 'v':
                return
            if not ok:
                cp = self.collide_partner(o, iface, p, failed=rep)
                if cp:
                    self.flag('property-storage-key-collision',
                              'Get of (%s, %s) fails; (%s, %s) is declared too and interface+name is %r for both'
                              % (iface, p, cp[0], cp[1], iface + p), idx, rep.error_name, tok(st[1]))
                elif st[2] == 'remote-wrongtype':
                    self.flag('set-wrong-type-accepted',
                              'Set stored a value not of the declared type %r and answered success; Get then fails'
                              % ent['sig'], idx, rep.error_name, tok(st[1]))
                else:
                    self.flag('get-readable-fails', 'Get of a readable, assigned property answers an error', idx,
                              rep.error_name, tok(st[1]))
                return
            var = rep.value
            if not (isinstance(var, list) and var and var[0] == 'V'):
                self.flag('get-reply-shape', 'Get must return one variant', idx, rep.signature, 'v')
                return
            self.check_variant(idx, o, iface, p, ent, st, var, 'Get')
            return
        if kind == 'getall':
            if iface == '':
                return
            if iface not in self.known_ifaces:
                if ok:
                    empty = isinstance(rep.value, list) and rep.value[0] == 'M' and not rep.value[1]
                    self.flag('getall-unknown-interface-empty-dict' if empty else 'getall-unknown-interface-answers',
                              'GetAll of an interface the object does not have answers %s instead of an error'
                              % ('an empty dictionary' if empty else 'a dictionary'), idx, 'return', 'error')
                return
            mine = {k[1]: e for k, e in self.props.items() if k[0] == iface}
            must = set(p for p, e in mine.items() if e['r'])
            may = set(p for p, e in mine.items() if not e['r'] and not e['w'])
            states = {p: self.val.get((o, iface, p)) for p in must}
            all_known = all(s is not None and s[0] == 'v' and s[2] != 'remote-wrongtype' for s in states.values())
            if not ok:
                if may:
                    pass                  # a property declared neither readable nor writeable: not judged
                elif any(self.collide_partner(o, iface, p, failed=rep) for p in must):
                    if all_known:
                        self.flag('property-storage-key-collision', 'GetAll(%s) fails; a property of it shares '
                                  'interface+name with another declared property' % iface, idx, rep.error_name,
                                  sorted(must))
                elif all_known:
                    self.flag('getall-fails', 'GetAll of a known interface whose readable properties all hold values '
                              'of their declared types answers an error', idx, rep.error_name, sorted(must))
                elif any(s is not None and s[0] == 'v' and s[2] == 'remote-wrongtype' for s in states.values()) and \
                        all(s is not None and s[0] == 'v' for s in states.values()):
                    self.flag('set-wrong-type-accepted', 'Set stored a value not of the declared type and answered '
                              'success; GetAll then fails', idx, rep.error_name, sorted(must))
                return
            d = rep.value
            if not (isinstance(d, list) and d and d[0] == 'M'):
                self.flag('getall-reply-shape', 'GetAll must return a{sv}', idx, rep.signature, 'a{sv}')
                return
            keys = [k for k, _ in d[1]]
            got = set(keys)
            if len(keys) != len(got):
                self.flag('getall-duplicate-key', 'GetAll lists a property twice', idx, keys, sorted(must))
            missing = must - got
            extra = got - must - may
            if missing:
                first = min(min(e['levels']) for e in mine.values())
                deeper = [p for p in missing if min(mine[p]['levels']) > first]
                if deeper:
                    self.flag('getall-misses-base-class-properties',
                              'GetAll(%s) omits readable properties declared by a base class for the same interface: %s'
                              % (iface, sorted(deeper)), idx, sorted(got), sorted(must))
                else:
                    self.flag('getall-missing-property', 'GetAll(%s) omits readable properties %s'
                              % (iface, sorted(missing)), idx, sorted(got), sorted(must))
            if extra:
                unread = [p for p in extra if p in mine]
                self.flag('getall-reveals-unreadable' if unread else 'getall-extra-property',
                          'GetAll(%s) lists %s' % (iface, sorted(extra)), idx, sorted(got), sorted(must))
            for k, var in d[1]:
                if k in must:
                    st = states[k]
                    if st is not None and st[0] == 'v':
                        self.check_variant(idx, o, iface, k, mine[k], st, var, 'GetAll')
            return


def py_equal(a, b):
    """tagged values equal as Python values of the same kind (the signal carries the raw value)"""
    return a == b


# =========================================================================== running one case
def run_case(case, model_lines=None):
    """-> dict(impl=[lines], first_diff=index|None, viol=[...], nontrivial=bool, stats={})"""
    lines, nd = enc_case(case)
    impl = Impl(case)
    out = ['ok'] + impl.decl_lines
    stats = {}
    orc = Oracle(case)
    got_return = False
    got_assign = False
    if impl.failed is None:
        for idx, op in enumerate(case['ops']):
            line, obs, raised = impl.run_op(op)
            if line is None:
                stats['init'] = stats.get('init', 0) + 1
                continue
            out.append(line)
            orc.step(idx, op, obs, raised)
            k = op[0] + (':' + line.split(' ')[0] if op[0] != 'export' else '')
            if line.startswith('err '):
                k = op[0] + ':' + line
            stats[k] = stats.get(k, 0) + 1
            if line.startswith('ret') or ' | ret' in line:
                got_return = True
            if op[0] == 'assign' and not raised and op[2] in orc.attr:
                got_assign = True
    else:
        stats['decl:' + impl.failed] = 1
        if impl.failed == 'typeerror':
            lines = lines[:len(out)]
        else:
            lines = lines[:nd]
    res = dict(lines=lines, impl=out, viol=orc.viol, judged=orc.judged, nontrivial=got_return and got_assign,
               stats=stats, first_diff=None)
    if model_lines is not None:
        for k in range(max(len(out), len(model_lines))):
            a = out[k] if k < len(out) else None
            b = model_lines[k] if k < len(model_lines) else None
            if a != b:
                res['first_diff'] = k
                break
    return res


def run_oracle_only(case, warm):
    """no model: the implementation and the oracle(s); for a sibling case one oracle per instance, each seeing
    the chain [its own subclass] + base chain"""
    impl = Impl(case, warm=warm)
    if impl.failed is not None:
        return dict(viol=[], judged=False, nontrivial=False, stats={'decl:' + impl.failed: 1})
    if 'siblings' in case:
        orcs = [Oracle(dict(case, classes=[sib] + case['classes'])) for sib in case['siblings']]
    else:
        orcs = [Oracle(case)] * case['nobj']
    stats = {}
    ret = asg = False
    for idx, op in enumerate(case['ops']):
        line, obs, raised = impl.run_op(op)
        if line is None:
            continue
        orcs[op[1]].step(idx, op, obs, raised)
        k = op[0] + ':' + coarse(line).split(' | ')[-1].split(' ')[0]
        stats[k] = stats.get(k, 0) + 1
        ret = ret or line.startswith('ret') or ' | ret' in line
        asg = asg or op[0] == 'assign'
    viol = []
    for oc in dict((id(x), x) for x in orcs).values():
        viol.extend(oc.viol)
    return dict(viol=viol, judged=all(oc.judged for oc in orcs), nontrivial=ret and asg, stats=stats)


# =========================================================================== generators
def gen_iface(rng, name, pnames, sigs=None, rich=False):
    props = []
    for p in pnames:
        sig = rng.choice(sigs or SIGS)
        r, w = rng.choice([(True, False), (True, True), (True, True), (False, True), (False, False)]
                          if rich else [(True, False), (True, True), (True, True), (False, True)])
        e = rng.choice(['t', 't', 'f', 'i'])
        props.append([p, sig, r, w, e])
    return {'name': name, 'props': props}


def gen_decl_random(rng):
    depth = rng.choice([1, 2, 2, 3])
    nif = rng.choice([1, 2, 2, 3])
    names = rng.sample(IFACE_POOL, nif)
    ifs = []
    for n in names:
        k = rng.choice([0, 1, 2, 2, 3, 4]) if rng.random() < 0.15 else rng.choice([1, 2, 2, 3])
        ifs.append(gen_iface(rng, n, rng.sample(PNAME_POOL, k), rich=rng.random() < 0.3))
    classes = [{'ifaces': [], 'descs': []} for _ in range(depth)]
    for f in ifs:
        lv = rng.randrange(depth)
        classes[lv]['ifaces'].append(f)
        if rng.random() < 0.12:
            classes[rng.randrange(depth)]['ifaces'].append(f)
    n = 0
    for f in ifs:
        for p in f['props']:
            if rng.random() < 0.08:
                continue                  # listed on the interface, no descriptor: an unknown property
            lv = rng.randrange(depth)
            a = 'p%d' % n
            n += 1
            unique = sum(1 for g in ifs for q in g['props'] if q[0] == p[0]) == 1
            named = rng.random() < (0.6 if unique else 0.93)
            classes[lv]['descs'].append([a, p[0], f['name'] if named else None])
            r = rng.random()
            if r < 0.08 and depth > 1:
                # overridden in another class: same attribute, same property
                lv2 = rng.choice([x for x in range(depth) if x != lv])
                classes[lv2]['descs'].append([a, p[0], f['name']])
            elif r < 0.12:
                # a second attribute for the same property
                classes[rng.randrange(depth)]['descs'].append(['p%d' % n, p[0], f['name']])
                n += 1
            elif r < 0.14 and depth > 1 and n > 1:
                # an attribute shadowed by a different property (declaration not judged)
                lv2 = rng.choice([x for x in range(depth) if x != lv])
                q = rng.choice(f['props'])
                classes[lv2]['descs'].append([a, q[0], f['name']])
    if rng.random() < 0.03:
        classes[rng.randrange(depth)]['descs'].append(['px', 'nowhere', None if rng.random() < 0.5 else names[0]])
    if rng.random() < 0.02:
        f = rng.choice(ifs)
        if f['props']:
            f['props'][0][4] = 'c'
    for c in classes:
        rng.shuffle(c['descs'])
    return classes


def gen_decl_collision(rng):
    """colliding concatenations and the same interface declared at several levels"""
    depth = rng.choice([1, 2, 3])
    sig = rng.choice(SIGS)
    pairs = rng.choice([
        [('org.a', 'bc'), ('org.ab', 'c')],
        [('org.a', 'bc'), ('org.ab', 'c'), ('org.abc', 'P')],
        [('org.a', 'bc'), ('org.ab', 'c'), ('org.a', 'b'), ('org.ab', 'bc')],
        [('org.a', 'abc'), ('org.aa', 'bc'), ('org.aab', 'c')],
        [('org.a', 'P'), ('org.ab', 'P'), ('org.a', 'Name'), ('org.ab', 'c'), ('org.a', 'bc')],
    ])
    same_type = rng.random() < 0.6
    by_if = {}
    for i, p in pairs:
        by_if.setdefault(i, []).append(p)
    ifs = []
    for i, ps in by_if.items():
        f = gen_iface(rng, i, ps, sigs=[sig] if same_type else None)
        for p in f['props']:
            if rng.random() < 0.7:
                p[2], p[3] = True, True
        ifs.append(f)
    classes = [{'ifaces': [], 'descs': []} for _ in range(depth)]
    for f in ifs:
        classes[rng.randrange(depth)]['ifaces'].append(f)
    n = 0
    for f in ifs:
        for p in f['props']:
            unique = sum(1 for g in ifs for q in g['props'] if q[0] == p[0]) == 1
            named = rng.random() < (0.7 if unique else 0.95)
            classes[rng.randrange(depth)]['descs'].append(['p%d' % n, p[0], f['name'] if named else None])
            n += 1
    return classes


def decl_props(classes):
    """[(attr, iface-or-None, pname)] and {iface: {pname: prop}} for the op generator (not the oracle)"""
    out = []
    for c in classes:
        for a, p, i in c['descs']:
            out.append((a, i, p))
    return out


def resolve(classes, i, p):
    allifs = [f for c in classes for f in c['ifaces']]
    if i is None:
        for f in allifs:
            if any(q[0] == p for q in f['props']):
                i = f['name']
                break
    for f in allifs:
        if f['name'] == i:
            for q in f['props']:
                if q[0] == p:
                    return i, q
    return i, None


def gen_ops(rng, classes, nobj, nops, wrong=0.2):
    descs = decl_props(classes)
    info = []
    for a, i, p in descs:
        i2, q = resolve(classes, i, p)
        if q is not None:
            info.append((a, i2, p, q))
    ifnames = sorted(set(f['name'] for c in classes for f in c['ifaces']))
    # str(float) is not modelled: when one attribute name serves a float-holding and a str-cast property
    # (an attribute shadowed by another property), the case gets no float values at all
    asigs = {}
    for a, i, p, q in info:
        asigs.setdefault(a, set()).add(q[1])
    nofloat = any(v & set('og') and v & ({'d', 'v'} | set(CONTAINER_SIGS)) for v in asigs.values())

    def keep(v):
        # str(float) / str(container) are not modelled
        return not (nofloat and v[0] in 'DXTKY')
    ops = []
    exported = set()
    # initial assignments
    for o in range(nobj):
        full = rng.random() < 0.85      # (a partly assigned object usually cannot be exported at all)
        # construction style: each property is assigned before DBusObject.__init__ runs (a subclass __init__
        # that sets its properties first), after it, or in both places (the later assignment counts)
        style = rng.choice(['after', 'after', 'before', 'mixed', 'mixed'])
        post = []
        for a, i, p, q in info:
            if full or rng.random() < 0.5:
                v = good_value(rng, q[1])
                if not keep(v):
                    continue
                where = {'after': 'a', 'before': 'b'}.get(style) or rng.choice('abx')
                if where in 'bx':
                    ops.append(['assign', o, a, v])
                if where == 'x':
                    v = good_value(rng, q[1])
                    if not keep(v):
                        continue
                if where in 'ax':
                    post.append(['assign', o, a, v])
        ops.append(['init', o])
        ops.extend(post)
        if rng.random() < 0.9 or o == 0:
            ops.append(['export', o])
            exported.add(o)
    if not info:
        info = []
    for _ in range(nops):
        o = rng.randrange(nobj)
        r = rng.random()
        if o not in exported and rng.random() < 0.5:
            ops.append(['export', o])
            exported.add(o)
            continue
        if rng.random() < 0.04:
            ops.append(['export', o])       # a second attempt (after a failed one), or a re-export
            continue
        bad = rng.random() < wrong
        if info:
            a, i, p, q = rng.choice(info)
        else:
            a, i, p, q = 'p0', 'org.a', 'bc', ['bc', 'i', True, True, 't']
        if bad:
            z = rng.random()
            if z < 0.25:
                i = rng.choice(['org.zzz', 'org.a', 'org.ab', 'org.abc', PROPS, 'org'])
            elif z < 0.5:
                p = rng.choice(['nope', 'bc', 'c', 'abc', 'b'])
            elif z < 0.65:
                i = ''
            elif z < 0.8 and len(info) > 1:
                p = rng.choice(info)[2]
            else:
                i, p = rng.choice([('org.ab', 'c'), ('org.a', 'bc'), ('org.abc', ''), ('org', '.abc'), ('org.a', 'b')])
        if r < 0.3:
            if rng.random() < 0.1:
                v = from_py(rng.choice(JUNK_LOCAL)) if rng.random() < 0.8 else rng.choice(JUNK_WRAPPED)
                if v[0] in 'DXTKY' and (q[1] in 'og' or asigs.get(a, set()) & set('og')):
                    v = ['N']             # str(float), str(container) are not modelled
            else:
                v = good_value(rng, q[1])
            if keep(v):
                ops.append(['assign', o, a, v])
        elif r < 0.55:
            ops.append(['get', o, i, p])
        elif r < 0.8:
            if rng.random() < 0.3:
                v = from_py(rng.choice(WIRE_JUNK))
                wt = wire_type_for(rng, v)
            else:
                v = plain(good_value(rng, q[1]))
                wt = wire_type_for(rng, v, prefer=q[1] if rng.random() < 0.85 else None)
            if wt is None or not keep(v):
                continue
            ops.append(['set', o, i, p, v, wt])
        else:
            gi = i
            if not bad and rng.random() < 0.15:
                gi = rng.choice(ifnames + [PROPS, 'org.zzz', ''])
            ops.append(['getall', o, gi])
    return ops


def gen_matrix_cases(rng, full):
    """one property per case: signature x access x emits; fixed history shape"""
    cases = []
    accs = [(True, False), (True, True), (False, True), (False, False)]
    for sig in SIGS:
        for (r, w) in accs:
            for e in ['t', 'f', 'i']:
                if not full and rng.random() > 0.35:
                    continue
                f = {'name': 'org.m', 'props': [['P', sig, r, w, e]]}
                classes = [{'ifaces': [f], 'descs': [['attr', 'P', 'org.m' if rng.random() < 0.5 else None]]}]
                g1, g2, g3 = good_value(rng, sig), good_value(rng, sig), plain(good_value(rng, sig))
                pre = rng.random() < 0.5     # the first assignment happens before DBusObject.__init__ runs
                ops = ([['assign', 0, 'attr', g1], ['init', 0]] if pre else [['init', 0], ['assign', 0, 'attr', g1]])
                ops += [['export', 0], ['get', 0, 'org.m', 'P'], ['getall', 0, 'org.m'],
                       ['assign', 0, 'attr', g2], ['get', 0, 'org.m', 'P']]
                wt = wire_type_for(rng, g3, prefer=sig)
                if wt:
                    ops += [['set', 0, 'org.m', 'P', g3, wt], ['get', 0, 'org.m', 'P'], ['getall', 0, 'org.m']]
                for j in rng.sample(WIRE_JUNK, 6 if not full else len(WIRE_JUNK)):
                    v = from_py(j)
                    wt = wire_type_for(rng, v)
                    if wt:
                        ops += [['set', 0, 'org.m', 'P', v, wt], ['get', 0, 'org.m', 'P']]
                ops += [['get', 0, 'org.m', 'Q'], ['get', 0, 'org.n', 'P'], ['getall', 0, 'org.n'],
                        ['getall', 0, PROPS]]
                wt = wire_type_for(rng, g3)
                if wt:
                    ops.append(['set', 0, 'org.n', 'P', g3, wt])
                cases.append({'classes': classes, 'nobj': 1, 'ctor': True, 'ops': ops})
    # unassigned and emits=const
    for sig in ['i', 's', 'as']:
        f = {'name': 'org.m', 'props': [['P', sig, True, True, 't']]}
        cases.append({'classes': [{'ifaces': [f], 'descs': [['attr', 'P', None]]}], 'nobj': 1,
                      'ops': [['export', 0], ['get', 0, 'org.m', 'P'], ['getall', 0, 'org.m'],
                              ['assign', 0, 'attr', ['N']], ['get', 0, 'org.m', 'P']]})
    f = {'name': 'org.m', 'props': [['P', 'i', True, True, 'c']]}
    cases.append({'classes': [{'ifaces': [f], 'descs': [['attr', 'P', None]]}], 'nobj': 1, 'ops': []})
    return cases


def gen_sibling_case(rng):
    """two subclasses of one base class that declares the DBusProperty attributes; each subclass brings its own
    interfaces.  'divergent': the base's descriptors mean different declarations in the two subclasses."""
    kind = rng.choice(['unnamed-divergent', 'named-divergent', 'same', 'own'])
    s0, s1 = rng.choice(SIGS[:14]), rng.choice(SIGS[:14])
    acc = lambda: rng.choice([(True, True), (True, False), (True, True)])
    r0, w0 = acc()
    r1, w1 = acc()
    e0, e1 = rng.choice('tfi'), rng.choice('tfi')
    if kind == 'unnamed-divergent':
        base = [{'ifaces': [], 'descs': [['x', 'X', None]]}]
        sibs = [{'ifaces': [{'name': 'org.one', 'props': [['X', s0, r0, w0, e0]]}], 'descs': []},
                {'ifaces': [{'name': 'org.two', 'props': [['X', s1, r1, w1, e1]]}], 'descs': []}]
    elif kind == 'named-divergent':
        base = [{'ifaces': [], 'descs': [['x', 'X', 'org.one']]}]
        sibs = [{'ifaces': [{'name': 'org.one', 'props': [['X', s0, r0, w0, e0]]}], 'descs': []},
                {'ifaces': [{'name': 'org.one', 'props': [['X', s1, not r0 or r1, w1, e1]]}], 'descs': []}]
        if sibs[0]['ifaces'][0]['props'] == sibs[1]['ifaces'][0]['props']:
            kind = 'same'
    elif kind == 'same':
        f = {'name': 'org.one', 'props': [['X', s0, r0, w0, e0]]}
        base = [{'ifaces': [], 'descs': [['x', 'X', rng.choice([None, 'org.one'])]]}]
        sibs = [{'ifaces': [f], 'descs': []}, {'ifaces': [f], 'descs': []}]
    else:
        f = {'name': 'org.base', 'props': [['X', s0, r0, w0, e0]]}
        base = [{'ifaces': [f], 'descs': [['x', 'X', rng.choice([None, 'org.base'])]]}]
        sibs = [{'ifaces': [{'name': 'org.one', 'props': [['Y', s1, r1, w1, e1]]}], 'descs': [['y', 'Y', None]]},
                {'ifaces': [{'name': 'org.two', 'props': [['Y', s0, r1, w1, e0]]}], 'descs': [['y', 'Y', 'org.two']]}]
    ops = []
    for o in (0, 1):
        chain = [sibs[o]] + base
        before = rng.random() < 0.4
        if not before:
            ops.append(['init', o])
        for a, i, p in decl_props(chain):
            i2, q = resolve(chain, i, p)
            if q is not None and rng.random() < 0.9:
                ops.append(['assign', o, a, good_value(rng, q[1])])
        if before:
            ops.append(['init', o])
        ops.append(['export', o])
    for _ in range(rng.randrange(4, 14)):
        o = rng.randrange(2)
        chain = [sibs[o]] + base
        info = []
        for a, i, p in decl_props(chain):
            i2, q = resolve(chain, i, p)
            if q is not None:
                info.append((a, i2, p, q))
        if not info:
            continue
        a, i, p, q = rng.choice(info)
        r = rng.random()
        if r < 0.3:
            ops.append(['assign', o, a, good_value(rng, q[1])])
        elif r < 0.6:
            ops.append(['get', o, i, p])
        elif r < 0.8:
            ops.append(['getall', o, i])
        else:
            v = plain(good_value(rng, q[1]))
            wt = wire_type_for(rng, v, prefer=q[1])
            if wt:
                ops.append(['set', o, i, p, v, wt])
    return {'classes': base, 'siblings': sibs, 'nobj': 2, 'ctor': True, 'ops': ops, 'kind': kind}


SIBLING_KEY = 'sibling-classes-share-descriptor'


def run_oracle_stream(ctx, stream, cases, warm, seen):
    for c in cases:
        try:
            res = run_oracle_only(c, warm)
        except Exception as e:   # a crash of the implementation outside any reply path
            res = dict(viol=[('implementation-raises', 'the implementation raised outside a reply: %r' % (e,), -1,
                              type(e).__name__, 'no exception')], judged=True, nontrivial=False, stats={})
        ctx.case(stream, sample=c, nontrivial=res['nontrivial'])
        ctx.impl_trace()
        for k, n in res['stats'].items():
            ctx.stat('%s %s' % (stream, k), n)
        ctx.stat('%s %s' % (stream, 'judged' if res['judged'] else 'not-judged'))
        if 'kind' in c:
            ctx.stat('%s kind=%s' % (stream, c['kind']))
        for key, what, idx, observed, expected in res['viol']:
            if c.get('kind', '').endswith('divergent'):
                what = ('two subclasses share a DBusProperty declared on their common base; the descriptor and the '
                        "base class's interface cache are bound once, with the interfaces of whichever instance "
                        'came first, so the other subclass sees the wrong declaration (%s: %s)' % (key, what))
                key = SIBLING_KEY
            ctx.violation(key, what, inp=c, observed={'op_index': idx, 'observed': observed}, expected=expected)


# =========================================================================== class families
# Objects of SEVERAL classes of one inheritance family (base, middle, derived; siblings) live in one process and are
# used in every order.  The classes are built once per case and never rebuilt between the steps: whatever the
# implementation keeps on a class (interface caches, bound descriptors, any memo) is shared by the whole history.
# The oracle is the ordinary one, one per instance, reading the declarations of the instance's OWN class chain: what
# an object answers depends on its class's MRO and on the values assigned to it, not on which other classes were
# used before.
FAMILY_SHAPES = {'single': [-1], 'chain2': [-1, 0], 'chain3': [-1, 0, 1], 'fork': [-1, 0, 0], 'fork-deep': [-1, 0, 1, 1],
                 'fork-chain': [-1, 0, 1, 0]}
CHAIN_SHAPES = ['chain2', 'chain2', 'chain3']
TREE_SHAPES = ['fork', 'fork', 'fork-deep', 'fork-chain']


def tree_chain_idx(tree, node):
    out = []
    while node >= 0:
        out.append(node)
        node = tree[node]['parent']
    return out


def tree_chain(case, node):
    """the classes of `node`'s MRO below DBusObject, most derived first"""
    return [case['tree'][k] for k in tree_chain_idx(case['tree'], node)]


def tree_subtree(tree, node):
    """`node` and every class derived from it"""
    return [k for k in range(len(tree)) if node in tree_chain_idx(tree, k)]


def tree_as_chain(case):
    """(chain most derived first, level of every instance) when the family is ONE chain, else None"""
    tree = case['tree']
    kids = [0] * len(tree)
    for c in tree:
        if c['parent'] >= 0:
            kids[c['parent']] += 1
    if sum(1 for c in tree if c['parent'] < 0) != 1 or any(k > 1 for k in kids):
        return None
    order = tree_chain_idx(tree, kids.index(0))
    level = {n: j for j, n in enumerate(order)}
    return [tree[n] for n in order], [level[n] for n in case['inst']]


def family_stable(tree):
    """every DBusProperty means the same declaration in the chain of its own class and in the chain of every class
    derived from it (otherwise which instance walks the class caches first decides: the known finding
    sibling-classes-share-descriptor)"""
    for c in range(len(tree)):
        own = [tree[k] for k in tree_chain_idx(tree, c)]
        for a, p, i in tree[c]['descs']:
            ref = resolve(own, i, p)
            if ref[1] is None:
                return False
            for c2 in tree_subtree(tree, c):
                if resolve([tree[k] for k in tree_chain_idx(tree, c2)], i, p) != ref:
                    return False
    return True


def family_info(tree, node):
    chain = [tree[k] for k in tree_chain_idx(tree, node)]
    info = []
    for a, i, p in decl_props(chain):
        i2, q = resolve(chain, i, p)
        if q is not None:
            info.append((a, i2, p, q))
    return info


def gen_family_tree(rng, shape, unstable=False):
    parents = FAMILY_SHAPES[shape]
    n = len(parents)
    tree = [{'parent': p, 'ifaces': [], 'descs': []} for p in parents]
    names = rng.sample(IFACE_POOL, rng.choice([2, 2, 3, 3, 4]))
    ifs = []
    for nm in names:
        f = gen_iface(rng, nm, rng.sample(PNAME_POOL, rng.choice([1, 2, 2, 3])), rich=rng.random() < 0.15)
        for p in f['props']:
            if rng.random() < 0.5:
                p[2], p[3] = True, True
        ifs.append(f)
    owners = []
    for j, f in enumerate(ifs):
        if j == 0:
            k = 0 if rng.random() < 0.8 else rng.randrange(n)      # usually the base class declares something
        elif j == 1:
            k = rng.randrange(1, n) if n > 1 else 0                # a derived class declares something of its own
        else:
            k = rng.randrange(n)
        owners.append(k)
        tree[k]['ifaces'].append(f)
        sub = tree_subtree(tree, k)
        if len(sub) > 1 and rng.random() < 0.1:
            tree[rng.choice(sub[1:])]['ifaces'].append(f)          # listed again by a derived class
    cnt = 0
    for f, k in zip(ifs, owners):
        sub = tree_subtree(tree, k)
        for p in f['props']:
            if rng.random() < 0.06:
                continue                   # listed on the interface, no descriptor: an unknown property
            at = k if rng.random() < 0.6 else rng.choice(sub)
            a = 'p%d' % cnt
            cnt += 1
            unique = sum(1 for g in ifs for q in g['props'] if q[0] == p[0]) == 1
            named = (not unique) or rng.random() < 0.6
            tree[at]['descs'].append([a, p[0], f['name'] if named else None])
            r = rng.random()
            others = [x for x in sub if x != at]
            if r < 0.1 and others:
                tree[rng.choice(others)]['descs'].append([a, p[0], f['name']])      # same attribute, same property
            elif r < 0.14:
                tree[rng.choice(sub)]['descs'].append(['p%d' % cnt, p[0], f['name']])  # a second attribute
                cnt += 1
    if unstable:
        # the base declares an unnamed DBusProperty; a derived class brings an interface listing the same property
        # name EARLIER in its MRO: the binding of the shared descriptor depends on who walks first
        base = {'name': 'org.zz.Base', 'props': [['Xu', rng.choice('is'), True, True, rng.choice('tf')]]}
        tree[0]['ifaces'].append(base)
        tree[0]['descs'].append(['xu', 'Xu', None])
        d = rng.randrange(1, n)
        tree[d]['ifaces'].insert(0, {'name': 'org.aa.First', 'props': [['Xu', rng.choice('is'), True, True, 'f']]})
    for c in tree:
        rng.shuffle(c['descs'])
    return tree


def gen_family_case(rng, shape, unstable=False):
    tree = gen_family_tree(rng, shape, unstable)
    n = len(tree)
    depth = [len(tree_chain_idx(tree, k)) for k in range(n)]
    # instances: a class and a class derived from it at least; then anything
    anc = rng.choice([k for k in range(n) if len(tree_subtree(tree, k)) > 1])
    inst = [anc, rng.choice(tree_subtree(tree, anc)[1:])]
    for _ in range(rng.choice([0, 1, 1, 2])):
        inst.append(rng.randrange(n))
    rng.shuffle(inst)
    nobj = len(inst)
    infos = [family_info(tree, k) for k in range(n)]
    pairs = {}
    for k in range(n):
        for a, i, p, q in infos[k]:
            pairs.setdefault((i, p), q)
    pairs = sorted(pairs.items())
    ifnames = sorted(set(f['name'] for c in tree for f in c['ifaces']))
    ops = []
    created = []

    def create(o, split=None):
        head = [['new', o]]
        post = []
        style = rng.choice(['after', 'after', 'before', 'mixed'])
        full = rng.random() < 0.9
        for a, i, p, q in infos[inst[o]]:
            if full or rng.random() < 0.5:
                v = good_value(rng, q[1])
                where = {'after': 'a', 'before': 'b'}.get(style) or rng.choice('abx')
                if where in 'bx':
                    head.append(['assign', o, a, v])
                if where in 'ax':
                    post.append(['assign', o, a, good_value(rng, q[1]) if where == 'x' else v])
        tail = [['init', o]] + post
        if rng.random() < 0.95:
            tail.append(['export', o])
        created.append(o)
        return head, tail

    def lookup(o, i, p, q, what=None):
        r = rng.random() if what is None else what
        if r < 0.55:
            return ['get', o, i, p]
        if r < 0.85:
            v = plain(good_value(rng, q[1]))
            wt = wire_type_for(rng, v, prefer=q[1] if rng.random() < 0.9 else None)
            if wt is not None:
                return ['set', o, i, p, v, wt]
            return ['get', o, i, p]
        return ['getall', o, i]

    def sweep(objs, some=True):
        if not pairs or not objs:
            return
        sel = rng.sample(pairs, min(len(pairs), rng.choice([1, 2, 3, len(pairs)]))) if some else pairs
        if rng.random() < 0.5:
            todo = [(o, ip, q) for ip, q in sel for o in objs]
        else:
            todo = [(o, ip, q) for o in objs for ip, q in sel]
        for o, (i, p), q in todo[:24]:
            ops.append(lookup(o, i, p, q, None if some else 0.0))

    by_depth = sorted(range(nobj), key=lambda o: (depth[inst[o]], o))
    order = rng.choice([by_depth, by_depth[::-1], rng.sample(range(nobj), nobj)])
    late = [o for o in order if rng.random() < 0.2]
    if len(late) == nobj:
        late = late[1:]
    first = [o for o in order if o not in late]
    if rng.random() < 0.25:
        parts = [create(o) for o in first]
        for h, _ in parts:
            ops.extend(h)
        for _, t in parts:
            ops.extend(t)
    else:
        for o in first:
            h, t = create(o)
            ops.extend(h + t)
    if rng.random() < 0.6:
        so = rng.choice([by_depth, by_depth[::-1], rng.sample(range(nobj), nobj)])
        sweep([o for o in so if o in created])
    for _ in range(rng.randrange(3, 18)):
        if late and rng.random() < 0.25:
            h, t = create(late.pop())
            ops.extend(h + t)
            continue
        o = rng.choice(created)
        own = infos[inst[o]]
        z = rng.random()
        if z < 0.45 and pairs:
            (i, p), q = rng.choice(pairs)            # any pair of the family: maybe one this object does not have
            a = None
        elif own:
            a, i, p, q = rng.choice(own)
        else:
            continue
        if rng.random() < 0.12:
            y = rng.random()
            if y < 0.3:
                i = rng.choice(['org.zzz', PROPS, 'org'] + ifnames)
            elif y < 0.6:
                p = rng.choice(['nope', 'bc', 'c', 'abc', 'b'])
            elif y < 0.75:
                i = ''
            else:
                gi = rng.choice(ifnames + [PROPS, 'org.zzz', ''])
                ops.append(['getall', o, gi])
                continue
        if a is not None and rng.random() < 0.3:
            if rng.random() < 0.06:
                v = from_py(rng.choice(JUNK_LOCAL))
                if v[0] in 'DXTKY' and q[1] in 'og':
                    v = ['N']
            else:
                v = good_value(rng, q[1])
            ops.append(['assign', o, a, v])
        else:
            ops.append(lookup(o, i, p, q))
    for o in late:
        h, t = create(o)
        ops.extend(h + t)
    if rng.random() < 0.7:
        sweep(rng.choice([by_depth, by_depth[::-1], rng.sample(range(nobj), nobj)]), some=rng.random() < 0.5)
    kind = 'stable' if family_stable(tree) else 'unstable'
    return {'tree': tree, 'inst': inst, 'nobj': nobj, 'ctor': True, 'ops': ops, 'shape': shape, 'kind': kind}


HANDLER_PLANS = {
    # what happens to the binding object <-> handler, step by step: E<h> exportObject on handler h, U<h>
    # unexportObject, J a value that cannot be sent is assigned (the next export fails), R it is repaired
    'h0': ['E0'], 'h1': ['E1'], 'h0-h1': ['E0', 'E1'], 'h1-h0': ['E1', 'E0'], 'twice': ['E0', 'E0'],
    'both-unexport-last': ['E0', 'E1', 'U1'], 'both-unexport-first': ['E0', 'E1', 'U0'],
    're-export': ['E0', 'U0', 'E0'], 'moved': ['E0', 'U0', 'E1'], 'twice-unexport': ['E1', 'E1', 'U1'],
    'failed-second': ['E0', 'J', 'E1', 'R'], 'failed-second-then-ok': ['E1', 'J', 'E0', 'R', 'E0'],
    'never': [],
}


def gen_handlers_case(rng):
    """G6 of notes/STATE_AUDIT.md: TWO DBusObjectHandlers (two connections) in one scenario.  Every object follows a
    plan of HANDLER_PLANS (exported on one handler, on both in either order, twice on one, unexported from the first /
    the last, re-exported, moved, a failed second export, never exported); the plans of the objects are interleaved
    and between the steps properties are assigned (where does PropertiesChanged go, how many) and Get / Set / GetAll
    arrive through either handler."""
    shape = rng.choice(['single', 'single', 'chain2', 'chain3', 'fork'])
    tree = gen_family_tree(rng, shape)
    for c in tree:
        for f in c['ifaces']:
            if f['props'] and rng.random() < 0.8:
                f['props'][0][2], f['props'][0][3], f['props'][0][4] = True, True, 't'
    n = len(tree)
    depth = [len(tree_chain_idx(tree, k)) for k in range(n)]
    nobj = rng.choice([2, 2, 3])
    inst = [rng.randrange(n) for _ in range(nobj)]
    if n > 1 and rng.random() < 0.7:
        inst[0], inst[1] = 0, rng.randrange(1, n)          # an object of the base class and one of a class below
        rng.shuffle(inst)
    infos = [family_info(tree, k) for k in range(n)]
    pairs = {}
    for k in range(n):
        for a, i, p, q in infos[k]:
            pairs.setdefault((i, p), q)
    pairs = sorted(pairs.items())
    ops = []
    order = sorted(range(nobj), key=lambda o: (depth[inst[o]], o))
    order = rng.choice([order, order[::-1], rng.sample(range(nobj), nobj)])
    for o in order:
        ops.append(['new', o])
        pre = rng.random() < 0.3
        if not pre:
            ops.append(['init', o])
        for a, i, p, q in infos[inst[o]]:
            ops.append(['assign', o, a, good_value(rng, q[1])])
        if pre:
            ops.append(['init', o])
    plans = {o: rng.choice(sorted(HANDLER_PLANS)) for o in range(nobj)}
    if all(not HANDLER_PLANS[pl] for pl in plans.values()):
        plans[0] = 'h0-h1'
    queue = {o: list(HANDLER_PLANS[plans[o]]) for o in range(nobj)}
    junk = {}

    def probe():
        o = rng.randrange(nobj)
        own = infos[inst[o]]
        r = rng.random()
        if r < 0.45 and own:
            emitting = [x for x in own if x[3][4] == 't']
            a, i, p, q = rng.choice(emitting if emitting and rng.random() < 0.7 else own)
            if (o, a) in junk:
                return
            ops.append(['assign', o, a, good_value(rng, q[1])])
            return
        if rng.random() < 0.2 and pairs:
            (i, p), q = rng.choice(pairs)
        elif own:
            a, i, p, q = rng.choice(own)
        else:
            return
        h = rng.randrange(2)
        z = rng.random()
        if z < 0.45:
            ops.append(['via', h, ['get', o, i, p]])
        elif z < 0.8:
            v = plain(good_value(rng, q[1]))
            wt = wire_type_for(rng, v, prefer=q[1])
            if wt is not None:
                ops.append(['via', h, ['set', o, i, p, v, wt]])
        else:
            ops.append(['via', h, ['getall', o, i]])

    while any(queue.values()):
        o = rng.choice([x for x in queue if queue[x]])
        st = queue[o].pop(0)
        if st[0] == 'E':
            ops.append(['via', int(st[1]), ['export', o]])
        elif st[0] == 'U':
            ops.append(['via', int(st[1]), ['unexport', o]])
        elif st == 'J':
            cands = [x for x in infos[inst[o]] if x[3][2] and x[3][1] not in ('b',)]
            if cands:
                a, i, p, q = rng.choice(cands)
                junk[(o, a)] = q
                ops.append(['assign', o, a, ['N']])
        elif st == 'R':
            for (o2, a), q in sorted(junk.items()):
                if o2 == o:
                    ops.append(['assign', o, a, good_value(rng, q[1])])
                    del junk[(o2, a)]
        for _ in range(rng.choice([0, 1, 1, 2, 3])):
            probe()
    for _ in range(rng.randrange(4, 14)):
        if rng.random() < 0.15:
            ops.append(['via', rng.randrange(2), [rng.choice(['export', 'unexport']), rng.randrange(nobj)]])
        else:
            probe()
    return {'tree': tree, 'inst': inst, 'nobj': nobj, 'nh': 2, 'ctor': True, 'ops': ops, 'shape': shape,
            'kind': 'stable' if family_stable(tree) else 'unstable', 'plans': [plans[o] for o in range(nobj)]}


def enc_family(case):
    """driver lines of a one-chain family: the declarations, `family`, then the history with `new <o> <level>`"""
    classes, levels = tree_as_chain(case)
    lines, nd = enc_case({'classes': classes, 'ops': [op for op in case['ops'] if op[0] != 'new']})
    head = lines[:nd - 1] + ['family']
    # (re-encode the history in order, with the `new` operations)
    body = []
    for op in case['ops']:
        if op[0] == 'new':
            body.append('new %d %d' % (op[1], levels[op[1]]))
        elif op[0] != 'init':
            body.extend(enc_case({'classes': [], 'ops': [op]})[0][2:])
    return head + body, len(head)


def family_order_stats(case):
    """which orders of use the history contains: a lookup of an (interface, property) pair on an object whose class
    does not declare it BEFORE / AFTER the first lookup of that pair on an object whose class does"""
    tree = case['tree']
    has = [set((i, p) for a, i, p, q in family_info(tree, k)) for k in range(len(tree))]
    first_own, first_foreign = {}, {}
    out = set()
    for n, op in enumerate(case['ops']):
        if op[0] in ('get', 'set'):
            ip = (op[2], op[3])
            if not any(ip in h for h in has):
                continue
            if ip in has[case['inst'][op[1]]]:
                if ip in first_foreign and ip not in first_own:
                    out.add('pair asked of a class without it, then of a class with it')
                first_own.setdefault(ip, n)
            else:
                if ip in first_own and ip not in first_foreign:
                    out.add('pair asked of a class with it, then of a class without it')
                first_foreign.setdefault(ip, n)
    news = [op[1] for op in case['ops'] if op[0] == 'new']
    d = [len(tree_chain_idx(tree, case['inst'][o])) for o in news]
    if any(d[j] < d[j + 1] for j in range(len(d) - 1)):
        out.add('base-class object created before derived-class object')
    if any(d[j] > d[j + 1] for j in range(len(d) - 1)):
        out.add('derived-class object created before base-class object')
    return out


def run_family_case(case, warm=True):
    """the implementation and one oracle per instance (declarations = the chain of the instance's own class)"""
    impl = Impl(case, warm=warm)
    orcs = [Oracle(dict(case, classes=tree_chain(case, n))) for n in case['inst']]
    out = []
    stats = {}
    ret = asg = False
    for idx, op in enumerate(case['ops']):
        line, obs, raised = impl.run_op(op)
        if line is None:
            continue
        out.append(line)
        if op[0] == 'new':
            if raised:
                stats['new:raised'] = 1
                break                  # declarations the classes cannot bind: nothing further is defined
            continue
        bop = op[2] if op[0] == 'via' else op
        orcs[bop[1]].step(idx, op, obs, raised)
        k = bop[0] + ':' + coarse(line).split(' | ')[-1].split(' ')[0]
        stats[k] = stats.get(k, 0) + 1
        ret = ret or line.startswith('ret') or ' | ret' in line
        asg = asg or (bop[0] == 'assign' and not raised)
    viol = []
    for oc in orcs:
        viol.extend(oc.viol)
        for k, n in oc.seen.items():
            stats[k] = stats.get(k, 0) + n
    return dict(impl=out, viol=viol, judged=all(oc.judged for oc in orcs), nontrivial=ret and asg, stats=stats)


def shrink_family(case, key, warm, budget=150):
    def has(c):
        try:
            return any(v[0] == key for v in run_family_case(c, warm)['viol'])
        except Exception:
            return False
    cur = case
    n = 0
    changed = True
    while changed and n < budget:
        changed = False
        k = len(cur['ops']) - 1
        while k >= 0 and n < budget:
            cand = dict(cur, ops=cur['ops'][:k] + cur['ops'][k + 1:])
            n += 1
            if has(cand):
                cur = cand
                changed = True
            k -= 1
    return cur


def run_family(ctx, stream, cases, seen, with_model=True):
    """`with_model`: one-chain families are also compared with the Lean model (Obj/PropsFamily.lean)"""
    spans = []
    all_lines = []
    for c in cases:
        if with_model and tree_as_chain(c) is not None and not c.get('unwarmed') and 'nh' not in c:
            lines, nd = enc_family(c)
            spans.append((len(all_lines), len(lines), nd))
            all_lines.extend(lines)
        else:
            spans.append(None)
    out = ctx.model(['cfg repaired'] + all_lines) if all_lines else None
    if out is not None:
        out = out[1:]
    for c, sp in zip(cases, spans):
        warm = not c.get('unwarmed')
        try:
            res = run_family_case(c, warm)
        except Exception as e:   # a crash of the implementation outside any reply path
            res = dict(impl=[], viol=[('implementation-raises', 'the implementation raised outside a reply: %r' % (e,),
                                       -1, type(e).__name__, 'no exception')], judged=True, nontrivial=False, stats={})
            sp = None
        ctx.case(stream, sample=c, nontrivial=res['nontrivial'])
        ctx.impl_trace()
        for k, n in res['stats'].items():
            ctx.stat('%s %s' % (stream, k), n)
        ctx.stat('%s shape=%s' % (stream, c.get('shape', '?')))
        ctx.stat('%s kind=%s' % (stream, c.get('kind', '?')))
        ctx.stat('%s instances=%d classes-with-instances=%d' % (stream, c['nobj'], len(set(c['inst']))))
        ctx.stat('%s %s' % (stream, 'judged' if res['judged'] else 'not-judged'))
        ctx.stat('%s %s' % (stream, 'warmed' if warm else 'not-warmed'))
        for k in sorted(family_order_stats(c)):
            ctx.stat('%s order: %s' % (stream, k))
        for pl in c.get('plans', []):
            ctx.stat('%s plan=%s' % (stream, pl))
        if sp is not None and out is not None:
            a, n, nd = sp
            ml = out[a:a + n]
            want = ['ok'] * nd + res['impl']
            for k in range(len(want)):
                if k >= len(ml) or coarse(ml[k]) != coarse(want[k]):
                    ctx.disagree(stream, c, ml[k] if k < len(ml) else None, want[k],
                                 detail={'line_index': k, 'line': all_lines[a + k]})
                    break
        for key, what, idx, observed, expected in res['viol']:
            cc = c
            if c.get('kind') == 'unstable':
                what = ('a DBusProperty declared without interface name on a base class is bound once, with the '
                        'interfaces of whichever instance walked the class caches first; the classes of the family '
                        'list its property name on different interfaces, so the other class sees the wrong declaration '
                        '(%s: %s)' % (key, what))
                key = SIBLING_KEY
            elif key not in seen:
                seen.add(key)
                cc = shrink_family(c, key, warm)
                for v in run_family_case(cc, warm)['viol']:
                    if v[0] == key:
                        key, what, idx, observed, expected = v
                        break
            ctx.violation(key, what, inp=cc, observed={'op_index': idx, 'observed': observed}, expected=expected)


# =========================================================================== reporting
def shrink(case, key, budget=120):
    """greedy removal of operations (then of the second instance) while the same violation key persists"""
    def has(c):
        try:
            return any(v[0] == key for v in run_case(c)['viol'])
        except Exception:
            return False
    cur = case
    n = 0
    changed = True
    while changed and n < budget:
        changed = False
        k = len(cur['ops']) - 1
        while k >= 0 and n < budget:
            cand = dict(cur, ops=cur['ops'][:k] + cur['ops'][k + 1:])
            n += 1
            if has(cand):
                cur = cand
                changed = True
            k -= 1
    return cur


def report(ctx, stream, case, res, seen_keys):
    ctx.case(stream, sample=case, nontrivial=res['nontrivial'])
    ctx.impl_trace()
    for k, n in res['stats'].items():
        ctx.stat(k, n)
    ctx.stat('classes=%d' % len(case['classes']))
    ctx.stat('instances=%d' % case['nobj'])
    decl = {}
    for ci, c in enumerate(case['classes']):
        for a, p, i in c['descs']:
            i2, q = resolve(case['classes'], i, p)
            if q is not None:
                decl.setdefault((i2, p), []).append(ci)
                ctx.stat('declared sig=%s' % q[1])
                ctx.stat('declared access=%s%s' % ('r' if q[2] else '-', 'w' if q[3] else '-'))
                ctx.stat('declared emits=%s' % q[4])
            if i is None:
                ctx.stat('descriptor without interface name')
    if any(k1 != k2 and k1[0] + k1[1] == k2[0] + k2[1] for k1 in decl for k2 in decl):
        ctx.stat('case declares a colliding pair')
    lv = {}
    for (i, p), cs in decl.items():
        lv.setdefault(i, set()).update(cs)
    if any(len(v) > 1 for v in lv.values()):
        ctx.stat('case declares one interface at several class levels')
    if any(len(cs) > 1 for cs in decl.values()):
        ctx.stat('case declares one property twice (override / second attribute)')
    names = {}
    for (i, p) in decl:
        names.setdefault(p, set()).add(i)
    if any(len(v) > 1 for v in names.values()):
        ctx.stat('case declares one property name on several interfaces')
    ctx.stat('judged' if res['judged'] else 'not-judged(ambiguous declaration)')
    if res['first_diff'] is not None:
        k = res['first_diff']
        ctx.disagree(stream, case, res.get('model_line'), res['impl'][k] if k < len(res['impl']) else None,
                     detail={'line_index': k, 'line': res['lines'][k] if k < len(res['lines']) else None})
    for key, what, idx, observed, expected in res['viol']:
        c = case
        if key not in seen_keys:
            seen_keys.add(key)
            c = shrink(case, key)
            r2 = run_case(c)
            for v in r2['viol']:
                if v[0] == key:
                    key, what, idx, observed, expected = v
                    break
        ctx.violation(key, what, inp=c, observed={'op_index': idx, 'observed': observed},
                      expected=expected)


_ERR_RE = re.compile(r'err [A-Za-z0-9:?]+')


def coarse(line):
    return _ERR_RE.sub('err', line)


def run_batch(ctx, stream, cases, seen_keys):
    all_lines = []
    spans = []
    for c in cases:
        lines, _ = enc_case(c)
        spans.append((len(all_lines), len(lines)))
        all_lines.extend(lines)
    # self-test knob: C17_MODEL_CFG=original compares the PRE-repair model (Cfg.original, the one the witness
    # theorems are about) with the tree under test
    cfg = os.environ.get('C17_MODEL_CFG', 'repaired')
    out = ctx.model(['cfg ' + cfg] + all_lines)
    if out is not None:
        out = out[1:]
    for c, (a, n) in zip(cases, spans):
        ml = out[a:a + n] if out is not None else None
        res = run_case(c, None)
        if ml is not None:
            # the implementation may have stopped at a declaration error: compare the common prefix it defines
            m = ml[:len(res['impl'])]
            for k in range(len(res['impl'])):
                # which error is reported (and its text) is not part of the property: compare "an error reply"
                if k >= len(m) or coarse(m[k]) != coarse(res['impl'][k]):
                    res['first_diff'] = k
                    res['model_line'] = m[k] if k < len(m) else None
                    break
        report(ctx, stream, c, res, seen_keys)


def run(ctx):
    seen = set()
    corpus = [c for _, c in ctx.corpus()]
    corpus = [c.get('input', c) for c in corpus]
    fam = [c for c in corpus if 'tree' in c]
    run_family(ctx, 'two-handlers', [c for c in fam if 'nh' in c], seen, False)
    fam = [c for c in fam if 'nh' not in c]
    run_family(ctx, 'class-family', [c for c in fam if tree_as_chain(c) is not None and not c.get('unwarmed')], seen)
    run_family(ctx, 'class-tree', [c for c in fam if tree_as_chain(c) is None or c.get('unwarmed')], seen, False)
    corpus = [c for c in corpus if 'tree' not in c]
    run_oracle_stream(ctx, 'sibling-classes', [c for c in corpus if 'siblings' in c], True, seen)
    run_oracle_stream(ctx, 'lazy-binding', [c for c in corpus if c.get('unwarmed')], False, seen)
    corpus = [c for c in corpus if 'siblings' not in c and not c.get('unwarmed')]
    if corpus:
        run_batch(ctx, 'collision-inheritance', corpus, seen)
    full = ctx.tier == 'thorough'
    run_batch(ctx, 'decl-matrix', gen_matrix_cases(ctx.rng, full or ctx.widen), seen)
    n = ctx.scale(quick=500, thorough=6000)
    cases = []
    for _ in range(n):
        classes = gen_decl_collision(ctx.rng)
        nobj = ctx.rng.choice([1, 1, 2])
        cases.append({'classes': classes, 'nobj': nobj, 'ctor': True, 'ops': gen_ops(ctx.rng, classes, nobj, ctx.rng.randrange(4, 24))})
    run_batch(ctx, 'collision-inheritance', cases, seen)
    n = ctx.scale(quick=900, thorough=12000)
    cases = []
    for _ in range(n):
        classes = gen_decl_random(ctx.rng)
        nobj = ctx.rng.choice([1, 1, 2])
        cases.append({'classes': classes, 'nobj': nobj, 'ctor': True, 'ops': gen_ops(ctx.rng, classes, nobj, ctx.rng.randrange(3, 30))})
    run_batch(ctx, 'random-histories', cases, seen)
    # ---- oracle-only streams (the model covers neither): assignments before any walk of the class caches
    # (the normal "assign in __init__, then export" order), and sibling subclasses of a common base
    n = ctx.scale(quick=250, thorough=3000)
    cases = []
    for _ in range(n):
        classes = gen_decl_random(ctx.rng) if ctx.rng.random() < 0.6 else gen_decl_collision(ctx.rng)
        nobj = ctx.rng.choice([1, 2])
        cases.append({'classes': classes, 'nobj': nobj, 'unwarmed': True, 'ctor': True,
                      'ops': gen_ops(ctx.rng, classes, nobj, ctx.rng.randrange(3, 16))})
    run_oracle_stream(ctx, 'lazy-binding', cases, False, seen)
    n = ctx.scale(quick=120, thorough=1500)
    run_oracle_stream(ctx, 'sibling-classes', [gen_sibling_case(ctx.rng) for _ in range(n)], True, seen)
    # ---- class families: objects of several classes of one inheritance family alive together, used in every order
    n = ctx.scale(quick=350, thorough=5000)
    cases = [gen_family_case(ctx.rng, ctx.rng.choice(CHAIN_SHAPES), unstable=ctx.rng.random() < 0.04) for _ in range(n)]
    run_family(ctx, 'class-family', cases, seen)
    n = ctx.scale(quick=200, thorough=3000)
    cases = []
    for _ in range(n):
        c = gen_family_case(ctx.rng, ctx.rng.choice(TREE_SHAPES + CHAIN_SHAPES[:1]))
        if ctx.rng.random() < 0.4:
            c['unwarmed'] = True        # no walk of the class caches when an instance is created
        cases.append(c)
    run_family(ctx, 'class-tree', cases, seen, False)
    # ---- two DBusObjectHandlers in one scenario (oracle only): export on both / unexport / re-export / failed export
    n = ctx.scale(quick=250, thorough=3000)
    run_family(ctx, 'two-handlers', [gen_handlers_case(ctx.rng) for _ in range(n)], seen, False)


def replay(ctx, data):
    case = data.get('input', data)
    if 'tree' in case and 'nh' in case:
        run_family(ctx, 'two-handlers', [case], set(), False)
    elif 'tree' in case:
        chain = tree_as_chain(case) is not None and not case.get('unwarmed')
        run_family(ctx, 'class-family' if chain else 'class-tree', [case], set(), chain)
    elif 'siblings' in case:
        run_oracle_stream(ctx, 'sibling-classes', [case], True, set())
    elif case.get('unwarmed'):
        run_oracle_stream(ctx, 'lazy-binding', [case], False, set())
    else:
        run_batch(ctx, 'collision-inheritance', [case], set())
