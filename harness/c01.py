"""C01 - encoding then decoding any conforming value returns the same value.
Correspondence (Lean code model vs txdbus.marshal) + property oracle (implementation only).

Also the shared machinery of the wire-codec harnesses (C02 imports it): running the real
`marshal`/`unmarshal`, canonicalising results and exceptions, the driver line syntax, generators of
malformed inputs.
"""
import struct

from harness import gen_values as gv
from harness import valcodec as vc

STREAMS = ['codec-valid', 'codec-large', 'codec-small-types', 'codec-malformed-values', 'codec-malformed-data',
           'codec-limits', 'codec-mixed-variants', 'codec-deep-variants', 'codec-history']
THEOREMS = ['Spec.decode_encode', 'C01_roundtrip', 'C01_roundtrip_valid', 'C01_roundtrip_conf', 'C01_roundtrip_checked', 'C01_marshal_arity',
            'C01_roundtrip_any_fuel', 'C01_roundtrip_fuel_free', 'C01_roundtrip_valid_fuel_free',
            'C01_roundtrip_noVariant_fuel_free', 'C01_roundtrip_conf_fuel_free', 'C01_roundtrip_checked_fuel_free',
            'C01_roundtrip_no_list', 'C01_roundtrip_no_list_fuel_free', 'C01_roundtrip_initial_list']
TRUSTED_BASE = [
    "CPython struct.pack/unpack_from, codecs utf-8/ascii, dict, zip/generators, int->float conversion: mirrored in "
    "Wire/Code.lean (pack, unpackFrom, utf8*, buildDict, marshalSeq, intToDouble), validated by the streams, not proved",
    'Sig/Split.lean (genCompleteTypes), Wire/Infer.lean (sigFromPy), Wire/PyVal.lean, Valid/Names.lean '
    '(validateObjectPath): models owned by C19 / C18, imported',
    'harness/gen_values.py: which Python values count as "conforming" to a type',
]
ASSUMPTIONS = [
    'descriptors (h): the caller passes the same oobFDs list to unmarshal that marshal filled',
    'dict keys pairwise distinct under Python equality (a Python dict guarantees it)',
    'strings without lone surrogates (not representable in the model; txdbus raises UnicodeEncodeError)',
    "CPython's recursion limit is not modelled: the driver runs `unmarshal` at the fuel Cost.codeFuel = |sig| + (|data| - off) + 1 "
    "of C01_roundtrip_fuel_free, at which the model never answers RecursionError; a RecursionError of the real decoder "
    "(nested variants ~490 deep under the default limit of 1000 frames) is recorded, not compared (stream codec-deep-variants)",
]
RULE = ('type-directed: a signature from the DBus grammar (harness/gen_values.gen_types), spec values with boundary '
        'values favoured (plus a size/depth stream: arrays to 300 elements, strings to 70 000 bytes, signatures to 255, nesting 32+32), '
        'a fixed list of signatures AT the limits of the grammar (32 arrays, 32 structs, 255 characters; top level, in containers, '
        'inferred inside variants), variants / a{sv} values holding containers of members of different classes (every pair '
        'first class x later class, then random mixtures), data of 1..700 nested variants (fixed depths around 300, the former '
        'fixed fuel of the driver, plus random ones; decode only: marshal cannot produce them), '
        'a random Python spelling (list/tuple/dbusOrder object, wrappers, bytearray, dict); every case '
        'is run at both byte orders and offsets 0..15 by the oracle and at 2 (byte order, offset) pairs by the model; '
        'distinct = distinct canonical JSON of (signature, values, offset, byte order); non-trivial = at least one value')

PREFIX = bytes((i * 37 + 11) % 251 + 1 for i in range(8192))
BIG_OFFSETS = [16, 17, 23, 24, 31, 64, 1000, 4099]
INITIAL_FDS = [100, 101]         # a descriptor list that is not empty when marshal() is entered
SUFFIX = b'\xaa\x55\xff'


# ------------------------------------------------------------------------------------------ running the real code
def exc_name(e):
    from txdbus.error import MarshallingError
    if isinstance(e, MarshallingError):
        return 'MarshallingError'
    if isinstance(e, struct.error):
        return 'struct.error'
    if isinstance(e, RecursionError):
        return 'RecursionError'
    if isinstance(e, UnicodeError):
        return 'UnicodeError'
    for cls, name in ((TypeError, 'TypeError'), (IndexError, 'IndexError'), (KeyError, 'KeyError'),
                      (AttributeError, 'AttributeError'), (ValueError, 'ValueError'),
                      (RuntimeError, 'RuntimeError'), (StopIteration, 'StopIteration')):
        if isinstance(e, cls):
            return name
    return 'Exception'


def impl_marshal(sig, values, off, le, fds):
    """-> ('ok', nbytes, bytes, fds after) | ('err', name).  `fds`: None or a list (copied)."""
    from txdbus import marshal as m
    oob = None if fds is None else list(fds)
    try:
        n, chunks = m.marshal(sig, values, off, le, oob)
        return ('ok', n, b''.join(bytes(c) for c in chunks), oob)
    except Exception as e:          # noqa: BLE001 - every exception is an observable outcome
        return ('err', exc_name(e))


def impl_unmarshal(sig, data, off, le, fds):
    from txdbus import marshal as m
    try:
        n, vals = m.unmarshal(sig, data, off, le, fds)
        return ('ok', n, vals)
    except Exception as e:          # noqa: BLE001
        return ('err', exc_name(e))


def fds_line(fds):
    return 'N' if fds is None else vc.to_line(list(fds))


def marshal_line(sig, values, off, le, fds):
    return 'marshal %s %d %s %s %s' % (vc.str_hex(sig), off, 'L' if le else 'B', fds_line(fds), vc.to_line(values))


def unmarshal_line(sig, data, off, le, fds):
    return 'unmarshal %s %d %s %s %s' % (vc.str_hex(sig), off, 'L' if le else 'B', vc.bytes_hex(data), fds_line(fds))


def canon_marshal(r):
    if r[0] == 'err':
        return 'err ' + r[1]
    return 'ok %d %s %s' % (r[1], vc.bytes_hex(r[2]), fds_line(r[3]))


def canon_unmarshal(r):
    if r[0] == 'err':
        return 'err ' + r[1]
    try:
        return 'ok %d %s' % (r[1], vc.to_line(r[2]))
    except ValueError:
        return 'ok %d <unprintable %r>' % (r[1], r[2])


def register():
    vc.register_obj_class(gv.DbusOrderStruct, 0)


def tree(v):
    """Class-exact comparable form of a decoded value; the order of the items of a dict does not matter
    (Python dict equality ignores it)."""
    return _unorder(vc.to_json(v))


def py_equal(a, b):
    """Equality of a decoded value `b` with the expected value `a` as the property words it: Python
    equality (so `True == 1`, `0.0 == -0.0`, a dict is unordered), except that a NaN equals a NaN (the
    statement includes non-finite doubles) and a list is only equal to a list, a dict to a dict.  Bit-exactness of
    doubles (NaN payload, sign of zero) is checked by the byte comparison of C02 and by the correspondence
    streams, and only counted here (`float_bits_differ`)."""
    if isinstance(a, float) and isinstance(b, float):
        return a == b or (a != a and b != b)
    if isinstance(a, list):
        return isinstance(b, list) and len(a) == len(b) and all(py_equal(x, y) for x, y in zip(a, b))
    if isinstance(a, dict):
        if not isinstance(b, dict) or len(a) != len(b):
            return False
        rest = list(b.items())
        for k, v in a.items():
            for i, (k2, v2) in enumerate(rest):
                if py_equal(k, k2) and py_equal(v, v2):
                    del rest[i]
                    break
            else:
                return False
        return True
    if isinstance(a, (list, dict)) != isinstance(b, (list, dict)):
        return False
    try:
        return bool(a == b) and isinstance(b, (bool, int, float, str, type(None))) == isinstance(
            a, (bool, int, float, str, type(None)))
    except Exception:      # noqa: BLE001
        return False


def float_bits_differ(a, b):
    """Number of positions where two Python-equal values hold doubles with different bit patterns."""
    if isinstance(a, float) and isinstance(b, float):
        return int(struct.pack('>d', a) != struct.pack('>d', b))
    if isinstance(a, list) and isinstance(b, list):
        return sum(float_bits_differ(x, y) for x, y in zip(a, b))
    if isinstance(a, dict) and isinstance(b, dict):
        return sum(float_bits_differ(x, y) for x, y in zip(a.values(), b.values()))
    return 0


def _unorder(t):
    import json
    if isinstance(t, dict):
        if 'dict' in t:
            items = [[_unorder(k), _unorder(x)] for k, x in t['dict']]
            return {'dict': sorted(items, key=lambda kv: json.dumps(kv[0], sort_keys=True))}
        return {k: _unorder(x) for k, x in t.items()}
    if isinstance(t, list):
        return [_unorder(x) for x in t]
    return t


# ------------------------------------------------------------------------------------------ oracle
def roundtrip_failure(sig, pvs, expected, fds_expected, off, le, initial_fds=(), notes=None):
    """None if the implementation round-trips this case, else (what, observed).  The statement asks for
    equal values and equal byte counts when decoding with the descriptor list that `marshal` filled; HOW the
    encoder numbers descriptors is not C01's business (only recorded in `notes`)."""
    if initial_fds == 'omit':          # the `oobFDs` keyword left out on both sides (signatures without descriptors)
        r = call_marshal(sig, pvs, off, le, OMIT)
        initial_fds = ()
    else:
        r = impl_marshal(sig, pvs, off, le, list(initial_fds))
    if r[0] != 'ok':
        return ('marshal raised %s on conforming values' % r[1], canon_marshal(r))
    _, n, b, oob = r
    if n != len(b):
        return ('marshal reports %d bytes but produced %d' % (n, len(b)), canon_marshal(r))
    data = PREFIX[:off] + b + SUFFIX
    u = call_unmarshal(sig, data, off, le, OMIT) if oob is None else impl_unmarshal(sig, data, off, le, oob)
    if u[0] != 'ok':
        return ('unmarshal raised %s on the bytes marshal produced' % u[1], canon_unmarshal(u))
    if u[1] != n:
        return ('unmarshal consumed %d bytes, marshal produced %d' % (u[1], n), canon_unmarshal(u))
    if not py_equal(expected, u[2]):
        return ('decoded value differs from the encoded one', canon_unmarshal(u))
    if notes is not None and oob is not None and [repr(x) for x in oob] != [repr(x) for x in list(initial_fds) + list(fds_expected)]:
        notes.append('descriptor-list-not-in-wire-order')
    return None


# ------------------------------------------------------------------------------------------ malformed inputs
def wrong_values(rng):
    from txdbus import marshal as m
    pool = [None, True, False, 0, 1, -1, 255, 256, -129, 2 ** 15, 2 ** 16, 2 ** 31, -2 ** 31 - 1, 2 ** 32, 2 ** 63,
            2 ** 64, -2 ** 63 - 1, 10 ** 30, 1.5, float('nan'), float('inf'), -0.0, 0.0, '', 'str', 'with\0nul', '/',
            '/a/b', '/a/', '//', 'a', '/a b', 'é', '/é', 'iii', '(', vc.make_other(0), bytearray(b''), bytearray(b'ab\0'),
            [], [1], [1, 'a'], [[1]], (), (1,), (1, 'a'), ('a', 1), {}, {'a': 1}, {1: 'a'}, {'a': 1, 'b': 'x'},
            vc.make_other(1), vc.make_other(2), vc.make_other(3), vc.make_other(4), vc.make_other(5),
            m.Byte(1), m.Byte(300), m.Boolean(2), m.Int16(-40000), m.UInt16(7), m.Int32(2 ** 31), m.UInt32(7),
            m.Int64(-1), m.UInt64(2 ** 64), m.ObjectPath('bad'), m.ObjectPath('/ok'), m.Signature('é'),
            m.Signature('a{sv}'), m.Signature('x' * 256),
            vc.make_obj(7, None, [1, 'a']), vc.make_obj(8, 'v', [1]), vc.make_obj(9, 'ii', [1, 2]),
            vc.make_obj(10, '', []), vc.make_obj(11, 'h', [3]), vc.make_obj(12, '(is)', [5, 'x']),
            vc.make_obj(13, 'é', [1]), vc.make_obj(14, 'a', []), vc.make_obj(15, '(i', [1]), vc.make_obj(16, 'z', [1]),
            gv.DbusOrderStruct([1, 2]), gv.DbusOrderStruct([])]
    return pool


HASHABLE = (type(None), bool, int, float, str, tuple)


def mutate_value(rng, pv, pool, key=False):
    """Replace a random sub-value of `pv` by an arbitrary Python value."""
    def pick():
        for _ in range(20):
            x = rng.choice(pool)
            if not key or isinstance(x, HASHABLE) and not (isinstance(x, tuple) and any(isinstance(y, list) for y in x)):
                return x
        return 0
    r = rng.random()
    if isinstance(pv, list) and pv and r < 0.7:
        i = rng.randrange(len(pv))
        return pv[:i] + [mutate_value(rng, pv[i], pool)] + pv[i + 1:]
    if isinstance(pv, tuple) and pv and r < 0.7:
        i = rng.randrange(len(pv))
        return pv[:i] + (mutate_value(rng, pv[i], pool),) + pv[i + 1:]
    if isinstance(pv, dict) and pv and r < 0.7:
        items = list(pv.items())
        i = rng.randrange(len(items))
        k, v = items[i]
        if rng.random() < 0.3:
            items[i] = (mutate_value(rng, k, pool, True), v)
        else:
            items[i] = (k, mutate_value(rng, v, pool))
        try:
            return dict(items)
        except TypeError:
            return pv
    if isinstance(pv, gv.DbusOrderStruct) and r < 0.7:
        fields = [getattr(pv, a) for a in pv.dbusOrder]
        if fields:
            i = rng.randrange(len(fields))
            fields[i] = mutate_value(rng, fields[i], pool)
        return gv.DbusOrderStruct(fields)
    return pick()


def inference_unsettled(v):
    """True if `sigFromPy` would look at a spot where the inference rule is being repaired by the C19
    contributor (fixes/C19-02 exact-class homogeneity, fixes/C19-03 empty tuple / non-basic dict keys): the
    model Wire/Infer.lean (not mine) mirrors the repaired rule, /repo gets it when the owner applies the patches.
    Such inputs are left to C19's own streams so that this check is quiet before and after."""
    if isinstance(v, tuple):
        return len(v) == 0 or any(inference_unsettled(e) for e in v)
    if isinstance(v, list):
        if v and any(type(e) is not type(v[0]) and isinstance(e, type(v[0])) for e in v[1:]):
            return True
        return any(inference_unsettled(e) for e in v)
    if isinstance(v, dict):
        vals = list(v.values())
        if vals and any(type(e) is not type(vals[0]) and isinstance(e, type(vals[0])) for e in vals[1:]):
            return True
        if any(not isinstance(k, (bool, int, float, str)) for k in v):
            return True
        return any(inference_unsettled(e) for e in vals)
    if hasattr(v, 'dbusOrder'):
        return any(inference_unsettled(getattr(v, a, None)) for a in v.dbusOrder)
    return False


BAD_SIGS = ['(', ')', '((i)', '(i', 'a', 'aa', 'ia', '{', '{s', '}', '()', '{}', '{s}', '{sv}', '{sii}', 'a{vs}', 'a{}',
            'a()', 'z', 'iz', 'a)', 'a}', '(i}', '{i)', 'e', 'r', 'm', '*', 'a{(i)s}', 'a{ss}{', 'ii)', 'v(', ' ', 'é']


def gen_malformed_marshal(rng, pool):
    """(sig, values, off, le, fds) with something wrong (arity, Python type of a slot, range, grammar)."""
    tys, svs, pvs, fds, _ = gv.gen_case(rng, depth=2, max_n=3)
    sig = gv.render_all(tys)
    values = list(pvs)
    fdarg = []
    kind = rng.choice(['slot', 'slot', 'slot', 'slot', 'arity-', 'arity+', 'container', 'sig', 'sig+vals', 'nofds',
                       'variant'])
    if kind == 'slot':
        values = mutate_value(rng, values, pool)
    elif kind == 'arity-':
        values = values[:-1]
    elif kind == 'arity+':
        values = values + [rng.choice(pool)]
    elif kind == 'container':
        values = rng.choice([tuple(values), None, 5, 'ab', bytearray(b'\x01\x02'), {'k': 1}, gv.DbusOrderStruct(values),
                             vc.make_other(0), vc.make_other(1), vc.make_other(4), 1.5, True, dict.fromkeys(
                                 [v for v in values if isinstance(v, HASHABLE) and not isinstance(v, tuple)])])
    elif kind == 'sig':
        sig = rng.choice(BAD_SIGS)
        values = [rng.choice(pool) for _ in range(rng.choice([0, 1, 1, 2]))]
    elif kind == 'sig+vals':
        sig = sig + rng.choice(BAD_SIGS)
        values = values + [rng.choice(pool)]
    elif kind == 'nofds':
        fdarg = None
        if 'h' not in sig:
            sig, values = sig + 'h', values + [3]
    elif kind == 'variant':
        sig = rng.choice(['v', 'av', 'a{sv}', '(vi)', 'vv'])
        x = rng.choice(pool)
        values = {'v': [x], 'av': [[x, rng.choice(pool)]], 'a{sv}': [{'k': x}], '(vi)': [(x, 1)],
                  'vv': [x, rng.choice(pool)]}[sig]
    return sig, values, rng.randrange(16), rng.random() < 0.5, fdarg, kind


def gen_malformed_data(rng, pool):
    """(sig, data, off, le, fds) for unmarshal: a valid encoding damaged, or noise under a random signature."""
    from harness import c02_ref
    kind = rng.choice(['truncate', 'flip', 'flip', 'len', 'noise', 'badsig', 'insert', 'shift', 'nofds'])
    tys, svs, pvs, fds, _ = gv.gen_case(rng, depth=2, max_n=3)
    sig = gv.render_all(tys)
    off = rng.randrange(16)
    le = rng.random() < 0.5
    body = bytearray(c02_ref.encode(tys, svs, off, le))
    fdarg = list(fds)
    if kind == 'truncate' and body:
        body = body[:rng.randrange(len(body))]
    elif kind == 'flip' and body:
        for _ in range(rng.choice([1, 1, 2, 4])):
            i = rng.randrange(len(body))
            body[i] = rng.choice([0, 1, 2, 4, 7, 8, 0x7f, 0x80, 0xff, body[i] ^ (1 << rng.randrange(8))])
    elif kind == 'len' and len(body) >= 4:
        i = rng.randrange(0, len(body) - 3)
        body[i:i + 4] = struct.pack('<I' if le else '>I', rng.choice([0, 1, 3, 4, 5, 7, 8, 9, 16, 255, 256, 65536,
                                                                    2 ** 26, 2 ** 31, 2 ** 32 - 1, len(body)]))
    elif kind == 'noise':
        body = bytearray(rng.getrandbits(8) if rng.random() < 0.6 else 0 for _ in range(rng.choice([0, 1, 4, 8, 16, 40])))
    elif kind == 'badsig':
        sig = rng.choice(BAD_SIGS + ['ay', 'as', 'a{sv}', 'v', 'av', '(yv)', 'a(ii)', 'aay', 'a{yv}', 'a{vy}', 'a{ayi}'])
    elif kind == 'insert' and body:
        i = rng.randrange(len(body) + 1)
        body[i:i] = bytes(rng.choice([0, 1, 0xff]) for _ in range(rng.choice([1, 2, 4])))
    elif kind == 'shift':
        off = (off + rng.choice([1, 2, 4])) % 16
    elif kind == 'nofds':
        fdarg = None
    if kind == 'noise' and rng.random() < 0.5:
        sig = rng.choice(['ay', 'as', 'a{sv}', 'v', 'av', '(yv)', 'a(ii)', 'aay', 'a{yv}', 'a{vy}', 'a{ayi}', 'ai', 's', 'g',
                          'b', 'd', 'h', 'ah', 'a{dy}', 'a{by}', 'a{vv}', 'aas'])
    data = PREFIX[:off] + bytes(body) + (SUFFIX if rng.random() < 0.3 else b'')
    return sig, data, off, le, fdarg, kind


# ------------------------------------------------------------------------------------------ streams
def check_marshal_batch(ctx, stream, batch):
    """batch: list of (sig, values, off, le, fds) - model vs implementation on `marshal`."""
    lines, keep = [], []
    for item in batch:
        try:
            lines.append(marshal_line(*item))
            keep.append(item)
        except ValueError:
            ctx.stat('skipped-unprintable')
    out = ctx.model(lines)
    for i, item in enumerate(keep):
        impl = canon_marshal(impl_marshal(*item))
        ctx.impl_trace()
        if out is not None and out[i] != impl:
            ctx.disagree(stream, {'op': 'marshal', 'line': lines[i]}, out[i], impl)


def check_unmarshal_batch(ctx, stream, batch):
    lines, keep = [], []
    for item in batch:
        try:
            lines.append(unmarshal_line(*item))
            keep.append(item)
        except ValueError:
            ctx.stat('skipped-unprintable')
    out = ctx.model(lines)
    for i, item in enumerate(keep):
        impl = canon_unmarshal(impl_unmarshal(*item))
        ctx.impl_trace()
        if out is not None and out[i] != impl:
            ctx.disagree(stream, {'op': 'unmarshal', 'line': lines[i]}, out[i], impl)


def case_json(sig, pvs, off, le, initial_fds=()):
    """`pvs` is the variableList as handed to marshal() (a list, a tuple or an object with dbusOrder)."""
    d = {'sig': sig, 'values': vc.to_line(pvs), 'off': off, 'le': le}
    if initial_fds == 'omit':
        d['fds'] = 'omit'
    elif initial_fds:
        d['initial_fds'] = vc.to_line(list(initial_fds))
    return d


def run_valid_case(ctx, stream, tys, svs, pvs, fds, expected, mbatch, ubatch, offsets, model_pairs, cert=None):
    """`pvs`: the variableList (already in its top-level spelling).  Oracle at every (order, offset) of `offsets`;
    model at `model_pairs`; with descriptors in the signature also once with a non-empty initial oobFDs."""
    sig = gv.render_all(tys)
    ctx.case(stream, sample={'sig': sig, 'values': vc.to_line(pvs)}, nontrivial=bool(tys))
    notes = []
    runs = [(le, off, ()) for le in (True, False) for off in offsets]
    if 'h' in sig:
        runs += [(le, offsets[0], tuple(INITIAL_FDS)) for le in (True, False)]
        ctx.stat('initial-oobFDs-non-empty', 2)
    else:
        runs += [(ctx.cases % 2 == 0, offsets[ctx.cases % len(offsets)], 'omit')]
        ctx.stat('oobFDs-keyword-omitted')
    for le, off, init in runs:
        fail = roundtrip_failure(sig, pvs, expected, fds, off, le, init, notes)
        ctx.impl_trace()
        if fail:
            inp = case_json(sig, pvs, off, le, init)
            note = fresh_process_note(ctx, violation_key(fail[0]), sig, pvs, expected, off, le, init)
            if note:
                inp['note'] = note
            ctx.violation(violation_key(fail[0]), 'C01 round trip: ' + fail[0],
                          inp=inp, observed=fail[1],
                          expected='unmarshal(marshal(v)) == normalised v, equal byte counts')
    for n in notes:
        ctx.stat('note:' + n)
    for le, off in model_pairs:
        init = INITIAL_FDS if ('h' in sig and off % 2) else []
        mbatch.append((sig, pvs, off, le, list(init)))
        r = impl_marshal(sig, pvs, off, le, list(init))
        if r[0] == 'ok':
            data = PREFIX[:off] + r[2] + SUFFIX
            ubatch.append((sig, data, off, le, r[3]))
    if cert is not None:
        le, off = model_pairs[0]
        cert.append('specenc %s %d %s %s' % (vc.str_hex(sig), off, 'L' if le else 'B', vc.to_line(pvs)))


_FRESH_NOTES = {}


def fresh_step_note(ctx, module, key, make_step):
    """For the FIRST violation of a key in the single-case streams: does the case (as a one-step history) fail in a fresh
    process too?  If not, the failure needs calls made earlier in the checking process and the single case is not a replay;
    every later violation of the key carries the same remark (the histories of the history streams are the replayable form)."""
    k = (id(ctx), module, key)
    if k not in _FRESH_NOTES:
        note = None
        try:
            if fresh_process_failure(ctx, module, [[make_step()]]) is None:
                note = ('the first case reported under this key held in a fresh process: the failure depends on calls made '
                        'earlier in the checking process (see the history-* finding for a replayable sequence)')
                ctx.stat('violation-depends-on-process-history:' + key)
        except ValueError:
            pass
        _FRESH_NOTES[k] = note
    return _FRESH_NOTES[k]


def fresh_process_note(ctx, key, sig, pvs, expected, off, le, init):
    return fresh_step_note(ctx, 'c01', key, lambda: {
        'op': 'rt', 'sig': sig, 'values': vc.to_line(pvs), 'expected': vc.to_line(expected), 'off': off, 'le': le,
        'fds': 'omit' if init == 'omit' else vc.to_line(list(init))})


def check_certified(ctx, stream, cert):
    """Every generated conforming case must lie INSIDE the hypotheses of C01_roundtrip_checked: the driver's
    `specenc` answers `ok` only if Code.toSpecTop (proved sound w.r.t. Code.Conf), Code.keysOKCheck and the
    reference encoder all accept the case.  (Only the `ok` is looked at here; the bytes are C02's business.)"""
    out = ctx.model(cert)
    if out is None:
        return
    for ln, o in zip(cert, out):
        if not o.startswith('ok '):
            ctx.disagree(stream, {'op': 'hypotheses-of-C01_roundtrip_checked', 'line': ln}, o, 'ok ...')
        else:
            ctx.stat('certified-inside-theorem-hypotheses')


def violation_key(what):
    if what.startswith('unmarshal raised'):
        return 'roundtrip-unmarshal-raises'
    if what.startswith('marshal raised'):
        return 'roundtrip-marshal-raises'
    if 'consumed' in what or 'reports' in what:
        return 'roundtrip-byte-count'
    if 'descriptor' in what:
        return 'roundtrip-descriptor-list'
    return 'roundtrip-value-differs'


def stats_for(ctx, tys, pvs, svs=None):
    if svs is not None:
        for t, sv in zip(tys, svs):
            gv.value_stats(t, sv, ctx.stat)
    for t in tys:
        d, n = gv.type_stats(t)
        ctx.stat('type-depth=%d' % d)
        ctx.stat('type-codes=%s' % ('1' if n == 1 else '2-4' if n <= 4 else '5-12' if n <= 12 else '13+'))
        ctx.stat('top-code=%s' % gv.code(t))
    ctx.stat('n-types=%d' % len(tys))
    line = vc.to_line(pvs)
    for w in ('Iy', 'Ib', 'In', 'Iq', 'Ii', 'Iu', 'Ix', 'It', 'Sg', 'So'):
        if (' ' + w + ' ') in (' ' + line):
            ctx.stat('wrapper:' + w)
    ctx.stat('value-tokens=%s' % ('<10' if len(line.split()) < 10 else '<40' if len(line.split()) < 40 else '40+'))
    if ' O ' in ' ' + line:
        ctx.stat('spelling:dbusOrder-object')
    if ' U ' in ' ' + line:
        ctx.stat('spelling:tuple')
    if ' B ' in ' ' + line:
        ctx.stat('spelling:bytearray')
    if ' D ' in ' ' + line:
        ctx.stat('spelling:dict')


def signature_nestings(tys, svs):
    """(deepest nesting of arrays, deepest nesting of structs / dict entries) within ONE signature - the signature of
    the case itself or the content signature of a variant it holds (the limits of the specification are per signature)."""
    sigs = [list(tys)]

    def walk(ty, sv):
        if isinstance(ty, str):
            if ty == 'v':
                sigs.append([sv[1]])
                walk(sv[1], sv[2])
        elif ty[0] == 'a':
            for e in sv:
                walk(ty[1], e)
        elif ty[0] == '(':
            for f, e in zip(ty[1], sv):
                walk(f, e)
        else:
            walk(ty[1], sv[0])
            walk(ty[2], sv[1])
    for t, sv in zip(tys, svs):
        walk(t, sv)
    return (max(_type_nesting(t, 'a') for g in sigs for t in g), max(_type_nesting(t, '(') for g in sigs for t in g))


def _type_nesting(ty, what):
    if isinstance(ty, str):
        return 0
    here = 1 if (ty[0] == 'a') == (what == 'a') else 0
    if ty[0] == 'a':
        return here + _type_nesting(ty[1], what)
    subs = ty[1] if ty[0] == '(' else (ty[1], ty[2])
    return here + max(_type_nesting(f, what) for f in subs)


def small_cases(rng, max_len, per_type):
    """Every valid single type of signature length <= max_len with boundary-flavoured values."""
    for ty in gv.all_types(max_len):
        for _ in range(per_type):
            try:
                sv = gv.gen_spec(rng, ty, 2)
                fds = []
                pv = gv.to_python(rng, ty, sv, fds)
            except gv.Retry:
                continue
            yield [ty], [sv], [pv], fds, [gv.expected_decoded(ty, sv)]


DEEP_DEPTHS = [1, 2, 31, 64, 150, 290, 296, 297, 298, 299, 300, 301, 302, 350, 400, 450, 520, 700]
DEEP_LEAVES = {'y': b'\x01y\x00\x07', 'g': b'\x01g\x00\x02ai\x00', 'v-truncated': b'\x01y\x00', 'unknown-code': b'\x01z\x00\x07'}


def deep_variant_case(depth, leaf, off, le):
    """`unmarshal('v', ...)` on `depth` variants holding variants around a leaf of alignment 1 (no padding anywhere, so
    the bytes do not depend on the offset or the byte order): the nesting is in the DATA, not in the signature."""
    return ('v', PREFIX[:off] + b'\x01v\x00' * depth + DEEP_LEAVES[leaf] + (b'' if leaf == 'v-truncated' else SUFFIX), off, le, None)


def run_deep_variants(ctx, rng):
    """Nesting that only the data pays for.  The driver runs the model at Cost.codeFuel (computed from the lengths of
    signature and data), so the model follows the real decoder through every depth CPython's stack allows - with the
    fixed fuel 300 it used to have, the model answered RecursionError from 299 nested variants on while the real decoder
    returns the value up to ~490.  A RecursionError of the REAL decoder is CPython's limit (not modelled): recorded, not
    compared - so a refactoring that costs more frames per level only shortens the compared range."""
    cases = [(d, 'y') for d in DEEP_DEPTHS]
    cases += [(rng.randrange(1, 460), rng.choice(sorted(DEEP_LEAVES))) for _ in range(ctx.scale(quick=24, thorough=300))]
    cases += [(d, leaf) for d in (299, 400) for leaf in sorted(DEEP_LEAVES) if leaf != 'y']
    lines, keep = [], []
    for depth, leaf in cases:
        item = deep_variant_case(depth, leaf, rng.randrange(16), rng.random() < 0.5)
        lines.append(unmarshal_line(*item))
        keep.append((depth, leaf, item))
    out = ctx.model(lines)
    compared_beyond = 0
    for i, (depth, leaf, item) in enumerate(keep):
        ctx.case('codec-deep-variants', sample={'depth': depth, 'leaf': leaf, 'off': item[2], 'le': item[3]})
        impl = canon_unmarshal(impl_unmarshal(*item))
        ctx.impl_trace()
        band = '<299' if depth < 299 else '299-497' if depth < 498 else '>=498'
        ctx.stat('deep-variants:depth%s:%s' % (band, impl.split()[0] + (' ' + impl.split()[1] if impl.startswith('err') else '')))
        if impl == 'err RecursionError':
            ctx.stat('deep-variants:cpython-recursion-limit (not compared)')
            continue
        if depth >= 299:
            compared_beyond += 1
        if out is not None and out[i] != impl:
            ctx.disagree('codec-deep-variants', {'op': 'unmarshal', 'line': lines[i], 'depth': depth, 'leaf': leaf}, out[i], impl)
    ctx.note('codec-deep-variants: %d cases, %d of them compared at depths the former fixed fuel (300) could not follow'
             % (len(keep), compared_beyond))


# ------------------------------------------------------------------------------------------ histories (state-leak round)
# A history is a list of JSON steps run one after the other in ONE process on the once-imported txdbus; every judged step
# is judged by the same absolute oracle as a single case (round trip / reference bytes / reference value), so a step can only
# fail because of what EARLIER steps left behind (or because the code is plainly wrong).  The whole history up to the
# failing step is the replay input: `check.py --replay` starts a fresh process and runs it again.
#
#   {'op': 'rt',  'sig', 'values' (line), 'expected' (line), 'off', 'le', 'fds'}        marshal, unmarshal, compare (C01's oracle)
#   {'op': 'enc', 'sig', 'values', 'off', 'le', 'fds' [, 'want': hex] [, 'only_if_ok': true] [, 'same_as': k]}
#         marshal only.  'want': the bytes of the reference encoder (judged; with 'only_if_ok' only when marshal returns);
#         'same_as': the outcome must equal the outcome of step k (the identical call); neither: not judged (a call that is
#         expected to fail and leave its mess behind)
#   {'op': 'dec', 'sig', 'data': hex, 'off', 'le', 'fds' [, 'want': line, 'want_n': n]}  unmarshal only (judged iff 'want')
#   'fds': 'omit' (keyword left out) | 'none' | 'shared' (ONE list object for the whole history) | a line `L n ..` (a new list)
OMIT = 'omit'


def call_marshal(sig, values, off, le, fds):
    """`fds`: OMIT, None, or a list that is used AS IS (not copied) -> like impl_marshal."""
    from txdbus import marshal as m
    try:
        if isinstance(fds, str):          # OMIT
            n, chunks = m.marshal(sig, values, off, le)
        else:
            n, chunks = m.marshal(sig, values, off, le, fds)
        b = b''.join(bytes(c) for c in chunks)
        if isinstance(chunks, list):
            del chunks[:]                 # the returned list is the caller's: whatever is done to it must not matter later
        return ('ok', n, b, list(fds) if isinstance(fds, list) else None)
    except Exception as e:          # noqa: BLE001
        return ('err', exc_name(e))


def call_unmarshal(sig, data, off, le, fds):
    from txdbus import marshal as m
    try:
        if isinstance(fds, str):          # OMIT
            n, vals = m.unmarshal(sig, data, off, le)
        else:
            n, vals = m.unmarshal(sig, data, off, le, fds)
        return ('ok', n, vals)
    except Exception as e:          # noqa: BLE001
        return ('err', exc_name(e))


def scramble(v):
    """Empty every list / dict of a returned value in place (the value belongs to the caller)."""
    if isinstance(v, list):
        for e in v:
            scramble(e)
        del v[:]
    elif isinstance(v, dict):
        for e in v.values():
            scramble(e)
        v.clear()


def _resolve_fds(step, shared):
    f = step.get('fds', 'L 0')
    if f == 'omit':
        return OMIT
    if f == 'none':
        return None
    if f == 'shared':
        return shared
    return list(vc.from_line(f))


def _model_fds(fds):
    return list(fds) if isinstance(fds, list) else None


def _enc_key(r, want):
    if r[0] != 'ok':
        return 'encode-raises'
    if len(r[2]) != len(want) or r[1] != len(want):
        return 'encode-length'
    return 'encode-bytes'


def _dec_key(u, n):
    if u[0] != 'ok':
        return 'decode-raises'
    if u[1] != n:
        return 'decode-length'
    return 'decode-value'


def run_history(steps, extra_ops=None):
    """-> (failure or None, pairs).  failure = {'step', 'key', 'what', 'observed', 'expected'} of the FIRST judged step
    that fails (the history stops there); pairs = [(driver line, canonical outcome of the implementation at that moment)]."""
    register()
    shared, outcomes, pairs = [], [], []

    def pair(mk, impl):
        try:
            pairs.append((mk(), impl))
        except ValueError:
            pass

    def fail(i, key, what, observed, expected):
        return {'step': i, 'key': key, 'what': what, 'observed': observed, 'expected': expected}, pairs
    for i, st in enumerate(steps):
        op = st['op']
        if extra_ops and op in extra_ops:
            bad = extra_ops[op](st)
            outcomes.append(None)
            if bad:
                return fail(i, bad[0], bad[1], bad[2], bad[3])
            continue
        sig, off, le = st['sig'], st['off'], st['le']
        fds = _resolve_fds(st, shared)
        if op in ('rt', 'enc'):
            values = vc.from_line(st['values'])
            before = _model_fds(fds)
            r = call_marshal(sig, values, off, le, fds)
            out = canon_marshal(r)
            outcomes.append(out)
            pair(lambda: marshal_line(sig, values, off, le, before), out)
            if op == 'enc':
                if 'want' in st and not (r[0] != 'ok' and st.get('only_if_ok')):
                    want = bytes.fromhex(st['want'])
                    if r[0] != 'ok' or r[2] != want or r[1] != len(want):
                        return fail(i, _enc_key(r, want), 'marshal bytes differ from the DBus wire format', out,
                                    'ok %d %s' % (len(want), vc.bytes_hex(want)))
                if 'same_as' in st and outcomes[st['same_as']] != out:
                    return fail(i, 'same-call-different-outcome', 'the same marshal call (step %d) had another outcome'
                                % (st['same_as'] + 1), out, outcomes[st['same_as']])
                continue
            expected = vc.from_line(st['expected'])
            if r[0] != 'ok':
                return fail(i, 'roundtrip-marshal-raises', 'marshal raised %s on conforming values' % r[1], out, 'ok ...')
            _, n, b, _ = r
            if n != len(b):
                return fail(i, 'roundtrip-byte-count', 'marshal reports %d bytes but produced %d' % (n, len(b)), out, None)
            data = PREFIX[:off] + b + SUFFIX
            dbefore = _model_fds(fds)
            u = call_unmarshal(sig, data, off, le, fds)
            uout = canon_unmarshal(u)
            pair(lambda: unmarshal_line(sig, data, off, le, dbefore), uout)
            want = 'ok %d %s' % (n, st['expected'])
            if u[0] != 'ok':
                return fail(i, 'roundtrip-unmarshal-raises', 'unmarshal raised %s on the bytes marshal produced' % u[1], uout, want)
            if u[1] != n:
                return fail(i, 'roundtrip-byte-count', 'unmarshal consumed %d bytes, marshal produced %d' % (u[1], n), uout, want)
            if not py_equal(expected, u[2]):
                return fail(i, 'roundtrip-value-differs', 'decoded value differs from the encoded one', uout, want)
            scramble(u[2])
        elif op == 'dec':
            data = bytes.fromhex(st['data'])
            dbefore = _model_fds(fds)
            u = call_unmarshal(sig, data, off, le, fds)
            uout = canon_unmarshal(u)
            outcomes.append(uout)
            pair(lambda: unmarshal_line(sig, data, off, le, dbefore), uout)
            if 'want' in st:
                n = st['want_n']
                if not (u[0] == 'ok' and u[1] == n and py_equal(vc.from_line(st['want']), u[2])):
                    return fail(i, _dec_key(u, n), 'unmarshal of a spec-conformant encoding does not return the value',
                                uout[:4000], 'ok %d %s' % (n, st['want']))
            if u[0] == 'ok':
                scramble(u[2])
        else:
            raise ValueError('unknown history step %r' % (op,))
    return None, pairs


def history_failure(histories):
    """First failing judged step of a sequence of histories (each with its own shared list and step numbering):
    None or the failure of `run_history` + 'history' (index).  Used in-process and by the fresh-process re-run."""
    for h, steps in enumerate(histories):
        bad, _ = run_history(steps)
        if bad:
            bad['history'] = h
            return bad
    return None


def fresh_process_failure(ctx, module, histories, where=None):
    """Run the histories in a NEW Python process on the tree under test (nothing of this process's state is there) and
    return the key of the first failure, or None (`where`, a list, receives [history index, step index]).  Only called
    after a violation has been seen."""
    import json
    import subprocess
    import sys
    from vlib import ctx as ctxmod
    code = ('import sys, json\n'
            'sys.path.insert(0, %r)\n'
            'from vlib import ctx as c\n'
            'c.use_repo(%r)\n'
            'from harness import %s as h\n'
            'bad = h.history_failure(json.load(sys.stdin))\n'
            'print("KEY " + json.dumps([bad["key"], bad["history"], bad["step"]] if bad else None))\n'
            % (ctxmod.VERIF, ctx.repo, module))
    try:
        p = subprocess.run([sys.executable, '-c', code], input=json.dumps(histories).encode(), stdout=subprocess.PIPE,
                           stderr=subprocess.PIPE, timeout=120)
    except Exception:      # noqa: BLE001
        return None
    for ln in p.stdout.decode('utf-8', 'replace').splitlines():
        if ln.startswith('KEY '):
            got = json.loads(ln[4:])
            if got and where is not None:
                where[:] = got[1:]
            return got[0] if got else None
    return None


def _ddmin(units, test, budget):
    """Delta debugging over a list: a small sublist (order kept) on which `test` still holds; at most `budget` tests."""
    n = 2
    while len(units) >= 2 and budget > 0:
        size = -(-len(units) // n)
        parts = [list(range(i, min(i + size, len(units)))) for i in range(0, len(units), size)]
        found = None
        for part in parts:
            if budget <= 0:
                break
            budget -= 1
            cand = [units[i] for i in part]
            if test(cand):
                found, n = cand, 2
                break
        if found is None and len(parts) > 2:
            for part in parts:
                if budget <= 0:
                    break
                budget -= 1
                drop = set(part)
                cand = [u for i, u in enumerate(units) if i not in drop]
                if test(cand):
                    found, n = cand, max(n - 1, 2)
                    break
        if found is not None:
            units = found
        elif n >= len(units):
            break
        else:
            n = min(len(units), n * 2)
    return units


class Histories:
    """One stream of histories.  Every history is run and judged; a violation is reported with a replay input that fails
    again in a FRESH process: the failing history alone if that is enough, otherwise together with the (delta-debugged)
    earlier histories of this stream whose leftovers it needs."""

    def __init__(self, ctx, stream, module='c01', extra_ops=None, prefix='C01 round trip'):
        self.ctx, self.stream, self.module, self.extra_ops, self.prefix = ctx, stream, module, extra_ops, prefix
        self.done, self.reported, self.pairs = [], {}, []

    def run(self, name, steps):
        ctx = self.ctx
        ctx.case(self.stream, sample={'history': name, 'steps': len(steps),
                                      'first': {k: v for k, v in steps[0].items() if k in ('op', 'sig', 'values', 'cls')}})
        ctx.stat('history:%s' % name.split(':')[0])
        ctx.stat('history-steps', len(steps))
        ctx.impl_trace(len(steps))
        bad, pairs = run_history(steps, self.extra_ops)
        self.pairs.extend(pairs)
        if not bad:
            self.done.append(steps)
            return None
        i = bad['step']
        ran = steps[:i + 1]
        key = 'history-' + bad['key']
        what = '%s, step %d of a history (%s): %s' % (self.prefix, i + 1, name, bad['what'])
        if key in self.reported:
            ctx.violation(key, what, inp=self.reported[key])
        else:
            inp = self.replayable(key, bad['key'], name, ran, steps)
            self.reported[key] = inp
            ctx.violation(key, what, inp=inp, observed=bad['observed'], expected=bad['expected'])
        self.done.append(ran)
        return bad

    def replayable(self, key, raw_key, name, ran, steps):
        ctx = self.ctx
        if fresh_process_failure(ctx, self.module, [ran]) != raw_key and len(steps) > len(ran):
            # the checking process was not fresh when the history began (earlier streams, the corpus, the table translators
            # have used the code): with a clean start the same history may fail a few steps later - then that is the replay
            where = []
            if fresh_process_failure(ctx, self.module, [steps], where) == raw_key:
                ran = steps[:where[1] + 1]
                ctx.stat('history-violation:fails-later-in-a-fresh-process')

        def test(earlier):
            return fresh_process_failure(ctx, self.module, earlier + [ran]) == raw_key
        if test([]):
            ctx.stat('history-violation:fails-alone-in-a-fresh-process')
            if len(ran) > 2 and not any('same_as' in st for st in ran):      # drop the steps the failure does not need
                keep = _ddmin(ran[:-1], lambda steps: fresh_process_failure(ctx, self.module, [steps + ran[-1:]]) == raw_key, 25)
                if fresh_process_failure(ctx, self.module, [ran[-1:]]) == raw_key:
                    keep = []
                return {'histories': [keep + ran[-1:]], 'name': name, 'steps_dropped': len(ran) - 1 - len(keep)}
            return {'histories': [ran], 'name': name}
        if not self.done or not test(list(self.done)):
            ctx.stat('history-violation:not-reproduced-in-a-fresh-process')
            return {'histories': list(self.done) + [ran], 'name': name,
                    'note': 'failed in the checking process after everything that ran before it (corpus and earlier histories); '
                            'these histories alone did not fail again in a fresh process'}
        need = _ddmin(list(self.done), test, 40)
        ctx.stat('history-violation:needs-earlier-histories')
        return {'histories': need + [ran], 'name': name,
                'note': 'the last history fails only after the %d earlier one(s) (found by re-running in fresh processes)' % len(need)}


def replay_histories(ctx, stream, inp, module='c01', extra_ops=None, prefix='C01 round trip'):
    hs = Histories(ctx, stream, module, extra_ops, prefix)
    histories = inp['histories'] if 'histories' in inp else [inp['history']]
    for k, steps in enumerate(histories):
        ctx.case(stream, sample={'history': k, 'steps': len(steps)})
        bad, pairs = run_history(steps, extra_ops)
        hs.pairs.extend(pairs)
        if bad:
            ctx.violation('history-' + bad['key'], '%s, history %d of %d, step %d: %s'
                          % (prefix, k + 1, len(histories), bad['step'] + 1, bad['what']), inp=inp,
                          observed=bad['observed'], expected=bad['expected'])
            break
    check_pairs(ctx, stream, hs.pairs)


def check_pairs(ctx, stream, pairs):
    """Model vs implementation on every marshal / unmarshal call a history made: the model is a function of the
    arguments, so any dependence of the implementation on what happened before shows as a disagreement."""
    out = ctx.model([ln for ln, _ in pairs])
    if out is None:
        return
    for (ln, impl), o in zip(pairs, out):
        if o != impl:
            ctx.disagree(stream, {'op': ln.split()[0], 'line': ln, 'note': 'inside a history: replaying the line alone may agree'},
                         o, impl)


def _fds_mode(rng, sig, shared_ok=True):
    if 'h' in sig:
        return rng.choice(['shared', 'shared', 'L 0', vc.to_line(list(INITIAL_FDS))]) if shared_ok else 'L 0'
    return rng.choice(['omit', 'omit', 'none', 'L 0'])


def make_rt(rng, tys, off, le, fds_mode, svs=None, depth=2):
    """An 'rt' step for the types (fresh conforming values unless `svs` is given) -> (step, svs, top-level values as a list)."""
    sig = gv.render_all(tys)
    for _ in range(60):
        try:
            s = svs if svs is not None else [gv.gen_spec(rng, t, depth) for t in tys]
            pvs = [gv.to_python(rng, t, x) for t, x in zip(tys, s)]
            top, _ = gv.top_spelling(rng, pvs)
            expected = [gv.expected_decoded(t, x) for t, x in zip(tys, s)]
            step = {'op': 'rt', 'sig': sig, 'values': vc.to_line(top), 'expected': vc.to_line(expected), 'off': off, 'le': le,
                    'fds': fds_mode}
            return step, s, pvs
        except (gv.Retry, ValueError):
            continue
    raise RuntimeError('could not make a round-trip step for %s' % sig)


def _poison_steps(rng, tys, fds_mode, pool, k):
    """`k` calls on the signature that are expected to fail part-way (none of them is judged)."""
    from harness import c02_ref
    sig = gv.render_all(tys)
    out = []
    for _ in range(k * 4):
        if len(out) >= k:
            break
        kind = rng.choice(['few', 'few', 'slot', 'truncated', 'damaged', 'many'])
        off, le = rng.randrange(16), rng.random() < 0.5
        try:
            step, svs, pvs = make_rt(rng, tys, off, le, fds_mode)
            if kind == 'few':
                vals = list(pvs[:rng.randrange(len(pvs))])
            elif kind == 'many':
                vals = list(pvs) + [rng.choice([0, 'x', None])]
            elif kind == 'slot':
                vals = mutate_value(rng, list(pvs), pool)
            if kind in ('few', 'many', 'slot'):
                out.append({'op': 'enc', 'sig': sig, 'values': vc.to_line(vals), 'off': off, 'le': le, 'fds': fds_mode,
                            'poison': kind})
                continue
            body = c02_ref.encode(tys, svs, off, le)
            if kind == 'truncated':
                if not body:
                    continue
                body = body[:rng.randrange(len(body))]
            else:
                kind, body = gv.damage(rng, body, le)
            fds = []
            for t, x in zip(tys, svs):
                gv.collect_fds(t, x, fds)
            out.append({'op': 'dec', 'sig': sig, 'data': (PREFIX[:off] + body).hex(), 'off': off, 'le': le,
                        'fds': vc.to_line(fds) if 'h' in sig else rng.choice(['omit', 'none', 'L 0']), 'poison': kind})
        except ValueError:
            continue
    return out


def gen_suffix_history(rng, used, pool, want_fd):
    """G8 (i) + (iii): signatures sharing the suffix S - `X a S`, `S`, `(S)`, `a(S)` - round-tripped, then calls on them that
    fail part-way, then the same signatures again (other order, other offset and byte order, partly the same values).  With
    descriptors, every call of the history may use the ONE shared oobFDs list (a failed marshal leaves its descriptors in it)."""
    S, shapes = gv.suffix_shapes(rng, used, want_fd)
    names = list(shapes)
    order = names if rng.random() < 0.5 else rng.sample(names, len(names))
    steps, firsts = [], {}
    mode = {nm: _fds_mode(rng, gv.render_all(shapes[nm])) for nm in names}
    for nm in order:
        st, svs, _ = make_rt(rng, shapes[nm], rng.randrange(16), rng.random() < 0.5, mode[nm])
        firsts[nm] = (st, svs)
        steps.append(st)
    for nm in rng.sample(names, rng.choice([1, 2, 2, 3])):
        steps += _poison_steps(rng, shapes[nm], mode[nm], pool, rng.choice([1, 1, 2, 3]))
    for nm in rng.sample(names, len(names)):
        st0, svs = firsts[nm]
        off, le = rng.randrange(16), rng.random() < 0.5
        r = rng.random()
        if r < 0.15:                               # the identical call once more
            steps.append(dict(st0))
        elif r < 0.4:                              # the same Python values at another place
            steps.append(dict(st0, off=off, le=le))
        elif r < 0.6 and 'h' in st0['sig']:        # the same bytes, other descriptor objects, each time a list of its own
            a = dict(st0, fds='L 0')
            svs2 = [gv.map_fds(t, x, lambda d: d + 1000) for t, x in zip(shapes[nm], svs)]
            b, _, _ = make_rt(rng, shapes[nm], st0['off'], st0['le'], 'L 0', svs2)
            steps += [a, b]
        else:
            steps.append(make_rt(rng, shapes[nm], off, le, mode[nm])[0])
    return 'suffix' + ('-fds' if want_fd else ''), steps


OMITTED_SIGS = ['h', 'ah', '(hs)', 'sh', 'a{sh}', 'yah', '(y(h))', 'hh']


def gen_omitted_history(rng, sig):
    """G2: the same call without the `oobFDs` keyword twice, a call with a list of its own in between, the first call again."""
    tys = gv.parse_sig(sig)
    off, le = rng.randrange(16), rng.random() < 0.5
    rt0, svs, pvs = make_rt(rng, tys, off, le, 'L 0')
    enc = {'op': 'enc', 'sig': sig, 'values': rt0['values'], 'off': off, 'le': le, 'fds': 'omit'}
    steps = [dict(enc), dict(enc, same_as=0), rt0, dict(enc, same_as=0),
             make_rt(rng, tys, off, le, vc.to_line(list(INITIAL_FDS)))[0], dict(enc, same_as=0),
             {'op': 'enc', 'sig': sig, 'values': vc.to_line(list(pvs[:-1])), 'off': off, 'le': le, 'fds': 'omit', 'poison': 'few'},
             dict(enc, same_as=0), dict(rt0, fds='L 0')]
    return 'omitted', steps


BURST_FAILS = [('enc', 'i', "L 1 s 000078"), ('enc', '(ii)', "L 1 U 1 i 1"), ('enc', 'ai', "L 1 L 2 i 1 s 000078"),
               ('enc', 'a{sv}', "L 1 D 1 s 00006b N"), ('enc', 's', "L 1 i 5"), ('enc', 'iii', "L 2 i 1 i 2"),
               ('enc', '((((i))))', "L 1 U 1 U 1 U 1 U 1 s 000078"), ('enc', 'aai', "L 1 L 2 L 1 i 1 L 1 N"),
               ('enc', 'v', "L 1 N"), ('enc', 'ah', "L 1 L 2 i 3 s 000078"),
               ('dec', 's', '05000000'), ('dec', 'ai', '08000000'), ('dec', 'v', '017a0007'), ('dec', 'a{sv}', '10000000'),
               ('dec', '(ii)', '0100'), ('dec', 'aai', '0c00000004000000'), ('dec', 'g', '05'), ('dec', 'iii', '0100000002')]
BURST_VALID = ['i', '(ii)', 'ai', 'a{sv}', 's', 'iii', '((((i))))', 'aai', 'v', 'ah', 'g']


def gen_burst_history(rng, n):
    """Many failing calls in a row (`n` of them, every kind, nested ones included), then every signature involved must still
    round-trip: a counter or a flag that each exception leaves one step further off shows after enough of them."""
    before = [make_rt(rng, gv.parse_sig(s), rng.randrange(16), rng.random() < 0.5, 'shared' if 'h' in s else 'omit')[0]
              for s in BURST_VALID[:4]]
    steps = list(before)
    for j in range(n):
        op, sig, arg = BURST_FAILS[j % len(BURST_FAILS)]
        le = (j // len(BURST_FAILS)) % 2 == 0
        if op == 'enc':
            steps.append({'op': 'enc', 'sig': sig, 'values': arg, 'off': j % 8, 'le': le, 'fds': 'shared' if 'h' in sig else 'omit',
                          'poison': 'burst'})
        else:
            steps.append({'op': 'dec', 'sig': sig, 'data': arg, 'off': 0, 'le': True, 'fds': 'omit', 'poison': 'burst'})
    for s in BURST_VALID:
        steps.append(make_rt(rng, gv.parse_sig(s), rng.randrange(16), rng.random() < 0.5, 'shared' if 'h' in s else 'omit')[0])
    steps += [dict(st, off=(st['off'] + 3) % 16, le=not st['le']) for st in before]
    return 'burst', steps


def run_histories(ctx, pool):
    """Stream codec-history.  Own random stream (the older streams draw what they drew before); runs BEFORE them, so that
    the signatures of a history are met for the first time in this process as far as possible."""
    import random
    rng = random.Random(repr((ctx.seed, 'C01', 'history', ctx.widen)))
    used = set()
    hs = Histories(ctx, 'codec-history')
    for _, case in ctx.corpus():           # signatures the corpus has already used in this process
        inp = case.get('input', case)
        if isinstance(inp, dict) and isinstance(inp.get('sig'), str):
            used.add(inp['sig'])
        for steps in (inp.get('histories') or []) if isinstance(inp, dict) else []:
            used.update(st['sig'] for st in steps if isinstance(st.get('sig'), str))
    used.update(BURST_VALID)
    for n_fail in ([40, 130] if ctx.tier == 'quick' else [1, 7, 40, 130, 400, 1100]):
        hs.run(*gen_burst_history(rng, n_fail))
    n = ctx.scale(quick=120, thorough=3000)
    for i in range(n):
        hs.run(*gen_suffix_history(rng, used, pool, want_fd=(i % 3 == 2)))
    for sig in OMITTED_SIGS:
        hs.run(*gen_omitted_history(rng, sig))
    for i in range(ctx.scale(quick=10, thorough=200)):
        S, _ = gv.suffix_shapes(rng, used, want_fd=True)
        hs.run(*gen_omitted_history(rng, gv.render_all(S)))
    ctx.note('codec-history: %d marshal / unmarshal calls inside histories compared with the (history-free) model' % len(hs.pairs))
    check_pairs(ctx, 'codec-history', hs.pairs)


def run(ctx):
    register()
    rng = ctx.rng
    pool = wrong_values(rng)
    all_offsets = list(range(16))

    # ---- corpus first
    for name, case in ctx.corpus():
        replay_case(ctx, case, 'corpus:' + name)

    # ---- histories: later uses inside one scenario (suffix signatures, fail-then-succeed, oobFDs omitted / shared)
    run_histories(ctx, pool)

    # ---- stream A: valid cases
    n = ctx.scale(quick=800, thorough=30000)
    mbatch, ubatch, cert = [], [], []
    for _ in range(n):
        tys, svs, pvs, fds, expected = gv.gen_case(rng, depth=rng.choice([1, 2, 3, 3, 4]), max_n=4)
        top, spelling = gv.top_spelling(rng, pvs)
        ctx.stat('variableList:' + spelling)
        stats_for(ctx, tys, top, svs)
        pairs = [(rng.random() < 0.5, rng.randrange(16)) for _ in range(2)]
        offsets = all_offsets + [rng.choice(BIG_OFFSETS)]
        run_valid_case(ctx, 'codec-valid', tys, svs, top, fds, expected, mbatch, ubatch, offsets, pairs, cert)
    check_marshal_batch(ctx, 'codec-valid', mbatch)
    check_unmarshal_batch(ctx, 'codec-valid', ubatch)
    check_certified(ctx, 'codec-valid', cert)

    # ---- size / depth boundary cases: long arrays, strings, signatures, nesting to 32+32, NaN keys
    n = ctx.scale(quick=50, thorough=1500)
    mbatch, ubatch, cert = [], [], []
    for i in range(n):
        kind, tys, svs = gv.gen_large_case(rng, gv.LARGE_KINDS[i % len(gv.LARGE_KINDS)] if i < 2 * len(gv.LARGE_KINDS) else None)
        pvs, fds, expected = gv.spell_case(rng, tys, svs)
        top, spelling = gv.top_spelling(rng, pvs)
        ctx.stat('large:' + kind)
        for t, sv in zip(tys, svs):
            gv.value_stats(t, sv, ctx.stat)
        ctx.stat('type-depth=%d' % max(gv.depth_of(t) for t in tys))
        offsets = rng.sample(range(16), 3) + [rng.choice(BIG_OFFSETS)]
        pairs = [(rng.random() < 0.5, rng.choice(offsets))]
        run_valid_case(ctx, 'codec-large', tys, svs, top, fds, expected, mbatch, ubatch, offsets, pairs, cert)
    check_marshal_batch(ctx, 'codec-large', mbatch)
    check_unmarshal_batch(ctx, 'codec-large', ubatch)
    check_certified(ctx, 'codec-large', cert)

    # ---- bounded-exhaustive over small signatures
    max_len = 2 if ctx.tier == 'quick' else 4
    per_type = ctx.scale(quick=3, thorough=6)
    mbatch, ubatch = [], []
    offs = list(range(8))
    for tys, svs, pvs, fds, expected in small_cases(rng, max_len, per_type):
        pairs = [(True, rng.randrange(8)), (False, rng.randrange(8))]
        run_valid_case(ctx, 'codec-small-types', tys, svs, list(pvs), fds, expected, mbatch, ubatch, offs, pairs)
    ctx.note('codec-small-types: every valid single complete type of signature length <= %d, %d value sets each, '
             'offsets 0..7, both byte orders' % (max_len, per_type))
    check_marshal_batch(ctx, 'codec-small-types', mbatch)
    check_unmarshal_batch(ctx, 'codec-small-types', ubatch)

    # ---- stream B: malformed values for marshal
    n = ctx.scale(quick=1200, thorough=20000)
    batch = []
    for _ in range(n):
        sig, values, off, le, fdarg, kind = gen_malformed_marshal(rng, pool)
        if inference_unsettled(values):
            ctx.stat('malformed-marshal:touches-repaired-inference-rule')      # C19-02 / C19-03, applied in /repo (e6a737a, b75345d)
        try:
            sample = {'sig': sig, 'values': vc.to_line(values), 'kind': kind}
        except ValueError:
            ctx.stat('skipped-unprintable')
            continue
        ctx.case('codec-malformed-values', sample=sample)
        ctx.stat('malformed-marshal:' + kind)
        r = impl_marshal(sig, values, off, le, fdarg)
        ctx.stat('malformed-marshal-outcome:' + (r[1] if r[0] == 'err' else 'ok'))
        batch.append((sig, values, off, le, fdarg))
    check_marshal_batch(ctx, 'codec-malformed-values', batch)

    # ---- stream C: malformed data for unmarshal
    n = ctx.scale(quick=1200, thorough=20000)
    batch = []
    for _ in range(n):
        sig, data, off, le, fdarg, kind = gen_malformed_data(rng, pool)
        ctx.case('codec-malformed-data', sample={'sig': sig, 'data': data.hex(), 'off': off, 'le': le, 'kind': kind})
        ctx.stat('malformed-data:' + kind)
        r = impl_unmarshal(sig, data, off, le, fdarg)
        ctx.stat('malformed-data-outcome:' + (r[1] if r[0] == 'err' else 'ok'))
        batch.append((sig, data, off, le, fdarg))
    check_unmarshal_batch(ctx, 'codec-malformed-data', batch)

    # ---- the limits of the type grammar, always the same list of types: 32 nested arrays, 32 nested structs, both,
    #      signatures of exactly 255 characters - at top level, inside containers, inferred inside variants
    mbatch, ubatch, cert = [], [], []
    for kind, tys, svs in gv.limit_cases(rng):
        pvs, fds, expected = gv.spell_case(rng, tys, svs)
        top, spelling = gv.top_spelling(rng, pvs)
        ctx.stat('limits:' + kind)
        for t, sv in zip(tys, svs):
            gv.value_stats(t, sv, ctx.stat)
        na, ns = signature_nestings(tys, svs)
        if na > gv.MAX_ARRAY_NESTING or ns > gv.MAX_STRUCT_NESTING:
            raise RuntimeError('limit case %s lies beyond the limits of the grammar' % kind)
        ctx.stat('limits:array-nesting=%d' % na)
        ctx.stat('limits:struct-nesting=%d' % ns)
        pairs = [(True, rng.randrange(16)), (False, rng.randrange(16))]
        run_valid_case(ctx, 'codec-limits', tys, svs, top, fds, expected, mbatch, ubatch, all_offsets, pairs, cert)
    ctx.note('codec-limits: %d fixed signatures at the limits of the grammar (32 arrays, 32 structs, 255 characters), '
             'offsets 0..15, both byte orders' % len(cert))
    check_marshal_batch(ctx, 'codec-limits', mbatch)
    check_unmarshal_batch(ctx, 'codec-limits', ubatch)
    check_certified(ctx, 'codec-limits', cert)

    # ---- variants (and a{sv} values) holding containers whose members are of different classes: a plain value
    #      followed by typed wrappers / bools, wrappers of several classes, unrelated classes
    mbatch, ubatch, cert = [], [], []
    some_offsets = [0, 1, 2, 4, 7]

    def mixed(tys, svs, pvs, offsets, top=None):
        expected = [gv.expected_decoded(t, s) for t, s in zip(tys, svs)]
        for t, s, p in zip(tys, svs, pvs):
            gv.value_stats(t, s, ctx.stat)
            gv.mixed_stats(t, s, p, ctx.stat)
        pairs = [(rng.random() < 0.5, rng.randrange(16))]
        run_valid_case(ctx, 'codec-mixed-variants', tys, svs, pvs if top is None else top, [], expected, mbatch, ubatch,
                       offsets, pairs, cert)
    matrix = gv.mixed_matrix()
    for (t0, s0, p0), (t1, s1, p1) in matrix:          # every pair of classes, as a list and as the values of a dict
        mixed(['v'], [('V', ('a', 'v'), [('V', t0, s0), ('V', t1, s1)])], [[p0, p1]], some_offsets)
        mixed([('a', ('{', 's', 'v'))], [[('opts', ('V', ('a', ('{', 's', 'v')), [('a', ('V', t0, s0)), ('b', ('V', t1, s1))]))]],
              [{'opts': {'a': p0, 'b': p1}}], some_offsets)
    ctx.note('codec-mixed-variants: %d (class of first member, class of a later member) pairs, each as a list in a variant '
             'and as a dict in an a{sv} value, then random mixtures' % len(matrix))
    n = ctx.scale(quick=250, thorough=8000)
    for _ in range(n):
        context, tys, svs, pvs = gv.gen_mixed_case(rng)
        ctx.stat('mixed-context:' + context)
        top, spelling = gv.top_spelling(rng, pvs)
        mixed(tys, svs, pvs, all_offsets, top)
    check_marshal_batch(ctx, 'codec-mixed-variants', mbatch)
    check_unmarshal_batch(ctx, 'codec-mixed-variants', ubatch)
    check_certified(ctx, 'codec-mixed-variants', cert)

    # ---- nesting paid for by the data only (nested variants), through and beyond the driver's former fixed fuel
    run_deep_variants(ctx, rng)


def replay_case(ctx, case, stream):
    """A corpus / replay input: {'sig', 'values' (line), 'off', 'le'} (round trip) or {'op': ..., 'line': ...}."""
    register()
    inp = case.get('input', case)
    if 'history' in inp or 'histories' in inp:
        replay_histories(ctx, stream, inp)
        return
    if 'line' in inp:
        toks = inp['line'].split()
        out = ctx.model([inp['line']])
        if toks[0] == 'marshal':
            sig, off, le = vc.hex_str(toks[1]), int(toks[2]), toks[3] == 'L'
            fds, i = vc.parse(toks, 4)
            values, _ = vc.parse(toks, i)
            impl = canon_marshal(impl_marshal(sig, values, off, le, fds))
        else:
            sig, off, le, data = vc.hex_str(toks[1]), int(toks[2]), toks[3] == 'L', vc.hex_bytes(toks[4])
            fds, _ = vc.parse(toks, 5)
            impl = canon_unmarshal(impl_unmarshal(sig, data, off, le, fds))
        ctx.case(stream, sample=inp)
        if out is not None and out[0] != impl:
            ctx.disagree(stream, inp, out[0], impl)
        return
    sig, off, le = inp['sig'], inp['off'], inp['le']
    pvs = vc.from_line(inp['values'])
    init = vc.from_line(inp['initial_fds']) if 'initial_fds' in inp else []
    if inp.get('fds') == 'omit':
        init = 'omit'
    tys = gv.parse_sig(sig)
    ctx.case(stream, sample=inp)
    # expected decoding: the normal form of the values themselves
    r = call_marshal(sig, pvs, off, le, OMIT) if init == 'omit' else impl_marshal(sig, pvs, off, le, list(init))
    expected = inp.get('expected')
    if expected is not None:
        expected = vc.from_line(expected)
    else:
        expected = normalise(tys, pvs)
    fail = roundtrip_failure(sig, pvs, expected, [], off, le, init)
    if fail:
        ctx.violation(violation_key(fail[0]), 'C01 round trip: ' + fail[0], inp=case_json(sig, pvs, off, le, init),
                      observed=fail[1], expected='unmarshal(marshal(v)) == normalised v, equal byte counts')
    out = ctx.model([marshal_line(sig, pvs, off, le, None if init == 'omit' else list(init))])
    impl = canon_marshal(r)
    if out is not None and out[0] != impl:
        ctx.disagree(stream, inp, out[0], impl)


def normalise(tys, pvs):
    """The documented normalisation of conforming Python values (tuples/objects -> lists, bytearray -> ints,
    wrappers -> plain, dict stays dict), type-directed."""
    def norm(ty, v):
        if isinstance(ty, str):
            if ty == 'v':
                from txdbus import marshal as m
                return norm(gv.parse_sig(m.sigFromPy(v))[0], v)
            if ty == 'b':
                return bool(v)
            if ty in gv.INT_RANGE:
                return int(v)
            if ty in 'sog':
                return str(v)
            return v
        if ty[0] == 'a':
            el = ty[1]
            if not isinstance(el, str) and el[0] == '{':
                return {norm(el[1], k): norm(el[2], x) for k, x in v.items()}
            return [norm(el, x) for x in v]
        fields = [getattr(v, a) for a in v.dbusOrder] if hasattr(v, 'dbusOrder') else list(v)
        ftys = ty[1] if ty[0] == '(' else (ty[1], ty[2])
        return [norm(f, x) for f, x in zip(ftys, fields)]
    items = [getattr(pvs, a) for a in pvs.dbusOrder] if hasattr(pvs, 'dbusOrder') else list(pvs)
    return [norm(t, v) for t, v in zip(tys, items)]


def replay(ctx, data):
    replay_case(ctx, data, 'replay')
