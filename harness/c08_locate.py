"""C08 - locating what the check needs inside txdbus through PUBLIC behaviour.

Private helpers of the library (`_cbCvtReply`, `_NO_CHECK_RETURN`, `DBusMessage._nextSerial`, `_onMethodTimeout`,
`_marshal`, ...) may be renamed, moved or inlined by a maintainer in a harmless commit.  Nothing here names one of them
except as an optional fast path; the fallback is always behaviour reachable through the public API
(`DBusClientFactory`, `makeConnection`, `dataReceived`, `callRemote`, `callRemoteMessage`, the message classes,
`.serial`, `.rawMessage`, `notifyOnDisconnect`) and the one pinned name `_pendingCalls`.

Used by harness/c08.py and tools/tables/c08_client.py.
"""
import inspect
import struct
import types


class LocateError(Exception):
    """The harness could not find what it needs - its own problem, never a finding about the library."""


def le32(b):
    return struct.unpack('<I', b)[0]


def ready_connection(client, message, name=':1.42'):
    """A real DBusClientConnection on a StringTransport, authenticated and with Hello answered.
    Returns (conn, transport, factory, hello_serial)."""
    from twisted.internet.testing import StringTransport
    factory = client.DBusClientFactory()
    conn = factory.buildProtocol(None)
    tr = StringTransport()
    conn.makeConnection(tr)
    tr.clear()
    conn.dataReceived(b'OK 1234deadbeef\r\n')
    sent = tr.value()
    if not sent.startswith(b'BEGIN\r\n') or len(sent) < 7 + 16:
        raise LocateError('no BEGIN + Hello after the OK line: %r' % sent[:40])
    hello = le32(sent[7 + 8:7 + 12])
    tr.clear()
    conn.dataReceived(message.MethodReturnMessage(hello, signature='s', body=[name]).rawMessage)
    return conn, tr, factory, hello


def default_return_signature(client):
    """The value `callRemote` uses for `returnSignature` when the caller does not pass one (the "do not check"
    sentinel) - read from the public signature of the public method."""
    try:
        p = inspect.signature(client.DBusClientConnection.callRemote).parameters['returnSignature']
    except (KeyError, ValueError, TypeError) as e:
        raise LocateError('callRemote has no returnSignature parameter: %r' % (e,))
    if p.default is inspect.Parameter.empty:
        raise LocateError('callRemote(returnSignature) has no default')
    return p.default


class Converter:
    """`convert(msg, rs)`: what the caller of `callRemote(..., returnSignature=rs)` receives when the method return
    `msg` (anything with `.signature`, `.body`) completes the call.  rs = NOCHECK: the argument is not passed.

    Route 1 (fast): the first callback `callRemote` adds to its Deferred, taken from a probe call on a scratch
    connection (a bound function `(msg, returnSignature)`), whatever its name.
    Route 2: every conversion is driven end to end: a scratch ready connection, `callRemote(returnSignature=rs)`,
    the reply handed to `methodReturnReceived` with the call's serial."""

    NOCHECK = object()

    def __init__(self, client, message):
        self.client, self.message = client, message
        self.conn, self.tr, _, _ = ready_connection(client, message)
        self.fn = None
        self.route = None
        try:
            d = self.conn.callRemote('/obj', 'Method', interface='org.t.Iface', destination='org.t.Dest')
            serial = le32(self.tr.value()[8:12])
            self.tr.clear()
            cbs = getattr(d, 'callbacks', None)
            if cbs:
                fn, args, kw = cbs[0][0]
                if callable(fn) and len(args) == 1 and not kw:
                    self.fn = fn
                    self.route = 'callback added by callRemote (%s)' % getattr(fn, '__name__', '?')
            self.conn._pendingCalls.pop(serial, None)
        except Exception:
            self.fn = None
        self.sentinel = default_return_signature(client)
        if self.fn is not None:
            # cross-check the shortcut against the end-to-end route on two replies
            for sig, body in ((None, None), ('s', ['x'])):
                a = self._outcome(lambda: self.fn(types.SimpleNamespace(signature=sig, body=body), self.sentinel))
                b = self._outcome(lambda: self._end_to_end(sig, body, self.NOCHECK))
                if a != b:
                    self.fn = None
                    break
        if self.fn is None:
            self.route = 'end to end (callRemote + methodReturnReceived)'

    @staticmethod
    def _outcome(thunk):
        try:
            return ('value', repr(thunk()))
        except Exception as e:
            return ('raise', type(e).__name__)

    def _end_to_end(self, sig, body, rs):
        kw = {} if rs is self.NOCHECK else {'returnSignature': rs}
        self.tr.clear()
        d = self.conn.callRemote('/obj', 'Method', interface='org.t.Iface', destination='org.t.Dest', **kw)
        sent = self.tr.value()
        self.tr.clear()
        if len(sent) < 16:
            raise LocateError('callRemote wrote nothing')
        serial = le32(sent[8:12])
        out = []
        d.addCallbacks(lambda v: out.append(('v', v)), lambda f: out.append(('f', f)))
        reply = types.SimpleNamespace(reply_serial=serial, signature=sig, body=body, _messageType=2)
        try:
            self.conn.methodReturnReceived(reply)
        finally:
            self.conn._pendingCalls.pop(serial, None)
        if not out:
            raise LocateError('the reply did not complete the call')
        kind, val = out[0]
        if kind == 'f':
            raise val.value
        return val

    def convert(self, msg, rs):
        """msg None = what `defer.succeed(None)` passes for expectReply=False."""
        if self.fn is not None:
            return self.fn(msg, self.sentinel if rs is self.NOCHECK else rs)
        if msg is None:
            kw = {} if rs is self.NOCHECK else {'returnSignature': rs}
            out = []
            self.conn.callRemote('/obj', 'Method', interface='org.t.Iface', destination='org.t.Dest',
                                 expectReply=False, **kw).addCallbacks(lambda v: out.append(('v', v)),
                                                                       lambda f: out.append(('f', f)))
            self.tr.clear()
            if not out:
                raise LocateError('expectReply=False call did not complete at once')
            if out[0][0] == 'f':
                raise out[0][1].value
            return out[0][1]
        return self._end_to_end(msg.signature, msg.body, rs)


class SerialCounter:
    """The process-wide serial counter.  Fast path: the class attribute holding the next serial (today
    `DBusMessage._nextSerial`), recognised by behaviour (an int attribute of DBusMessage whose value is the serial
    the next message gets and that moves when a message is built).  Fallback: messages are built to consume / read
    serials; setting the counter is then not possible (scenarios run from wherever it stands)."""

    def __init__(self, message):
        self.message = message
        self.cls = message.DBusMessage
        self.attr = None
        cands = [n for n, v in vars(self.cls).items() if type(v) is int and not n.startswith('__')]
        before = {n: getattr(self.cls, n) for n in cands}
        m = message.MethodReturnMessage(1)
        for n in cands:
            if before[n] == m.serial and getattr(self.cls, n) != before[n]:
                self.attr = n
                break
        self.step = 1
        if self.attr is not None:
            self.step = getattr(self.cls, self.attr) - m.serial

    def settable(self):
        return self.attr is not None

    def set(self, n):
        if self.attr is not None:
            setattr(self.cls, self.attr, n)
            return True
        return False

    def peek(self):
        """The serial the next message will get (fallback: consumes one serial to find out)."""
        if self.attr is not None:
            return getattr(self.cls, self.attr)
        return self.message.MethodReturnMessage(1).serial + self.step

    def take(self):
        """Consume one serial, as building any message does; returns it."""
        if self.attr is not None:
            v = getattr(self.cls, self.attr)
            setattr(self.cls, self.attr, v + self.step)
            return v
        return self.message.MethodReturnMessage(1).serial
