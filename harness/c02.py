"""C02 - encoded bytes are exactly the DBus wire format, in both directions.
Correspondence (Lean models vs txdbus.marshal, Lean spec vs the Python reference codec) + property
oracle on the implementation alone: the reference encoder / decoder of harness/c02_ref.py, written from
the DBus specification without looking at txdbus.
"""
from harness import c01
from harness import c02_ref as ref
from harness import gen_values as gv
from harness import valcodec as vc

STREAMS = ['wire-encode', 'wire-decode', 'padding-table', 'spec-vs-reference']
THEOREMS = ['C02_alignTable', 'C02_padding', 'C02_encode', 'C02_decode', 'layout_fields', 'layout_elems',
            'layout_array', 'layout_string', 'layout_signature', 'layout_variant', 'layout_struct',
            'layout_byte_order']
TRUSTED_BASE = c01.TRUSTED_BASE + [
    'lean/TxdbusModel/Wire/Spec.lean and harness/c02_ref.py: two independent transcriptions of the DBus '
    'specification (Lean / Python), compared with each other on every run (stream spec-vs-reference)',
]
ASSUMPTIONS = c01.ASSUMPTIONS
RULE = ('same type-directed generator as C01; encode direction: spellable spec values, every case at both byte '
        'orders x offsets 0..15 against the reference encoder; decode direction: spec values whose variants hold ANY '
        'valid type (empty typed arrays, descriptors, nested variants), reference-encoded, both byte orders, 4 offsets; '
        'padding: all 17 type codes x offsets 0..63 (exhaustive); distinct = distinct canonical JSON of the case')


def pad_table_impl():
    from txdbus import marshal as m
    rows = []
    for _, code, _ in m.dbus_types:
        for off in range(64):
            try:
                p = m.pad[code](off)
                rows.append((code, off, 'ok %d' % len(p), bytes(p)))
            except Exception as e:   # noqa: BLE001
                rows.append((code, off, 'err ' + c01.exc_name(e), b''))
    return rows


def run(ctx):
    c01.register()
    rng = ctx.rng

    for name, case in ctx.corpus():
        replay(ctx, case, 'corpus:' + name)

    # ---- padding table: 17 codes x offsets 0..63, exhaustive in both tiers
    from txdbus import marshal as m
    codes = [c for _, c, _ in m.dbus_types]
    rows = pad_table_impl()
    lines = ['padlen %s %d' % (vc.str_hex(c), off) for c, off, _, _ in rows]
    slines = ['specpad %s %d' % (vc.str_hex(c), off) for c, off, _, _ in rows]
    out = ctx.model(lines)
    sout = ctx.model(slines)
    for i, (code, off, res, padbytes) in enumerate(rows):
        ctx.case('padding-table', sample={'code': code, 'off': off})
        ctx.impl_trace()
        want = ref.pad_len(code, off) if code in ref.ALIGNMENT else None
        if want is None or res != 'ok %d' % want or any(padbytes):
            ctx.violation('padding-rule', 'pad[%r](%d) is not %r zero bytes' % (code, off, want),
                          inp={'code': code, 'off': off}, observed=res + ' ' + padbytes.hex(),
                          expected='ok %r (alignment %r)' % (want, ref.ALIGNMENT.get(code)))
        if out is not None and out[i] != res:
            ctx.disagree('padding-table', {'line': lines[i]}, out[i], res)
        if sout is not None and want is not None and sout[i] != 'ok %d' % want:
            ctx.disagree('spec-vs-reference', {'line': slines[i]}, sout[i], 'ok %d' % want)
    if sorted(codes) != sorted(ref.ALIGNMENT):
        ctx.violation('padding-codes', 'dbus_types does not list exactly the 17 type codes',
                      inp={'codes': codes}, observed=sorted(codes), expected=sorted(ref.ALIGNMENT))
    ctx.note('padding-table: %d type codes x offsets 0..63 enumerated completely' % len(codes))

    # ---- encode direction
    n = ctx.scale(quick=1200, thorough=25000)
    speclines, specwant, mbatch = [], [], []
    for _ in range(n):
        tys, svs, pvs, fds, expected = gv.gen_case(rng, depth=rng.choice([1, 2, 3, 3, 4]), max_n=4)
        sig = gv.render_all(tys)
        c01.stats_for(ctx, tys, pvs)
        ctx.case('wire-encode', sample={'sig': sig, 'values': vc.to_line(list(pvs))}, nontrivial=bool(tys))
        for le in (True, False):
            for off in range(16):
                want = ref.encode(tys, svs, off, le)
                r = c01.impl_marshal(sig, pvs, off, le, [])
                ctx.impl_trace()
                if r[0] != 'ok' or r[2] != want or r[1] != len(want):
                    if r[0] == 'ok' and r[1] == len(r[2]) and alternative_encoding(tys, svs, r[2], r[3], off, le):
                        ctx.stat('encode:other-dict-entry-order')
                        continue
                    ctx.violation(encode_key(r, want), 'marshal bytes differ from the DBus wire format',
                                  inp=c01.case_json(sig, pvs, off, le), observed=c01.canon_marshal(r),
                                  expected='ok %d %s' % (len(want), vc.bytes_hex(want)))
        le, off = rng.random() < 0.5, rng.randrange(16)
        speclines.append('specenc %s %d %s %s' % (vc.str_hex(sig), off, 'L' if le else 'B', vc.to_line(list(pvs))))
        specwant.append('ok ' + vc.bytes_hex(ref.encode(tys, svs, off, le)))
        mbatch.append((sig, list(pvs), off, le, []))
    out = ctx.model(speclines)
    for i, ln in enumerate(speclines):
        ctx.case('spec-vs-reference')
        if out is not None and out[i] != specwant[i]:
            ctx.disagree('spec-vs-reference', {'line': ln}, out[i], specwant[i])
    c01.check_marshal_batch(ctx, 'wire-encode', mbatch)

    # ---- decode direction: reference-encoded bytes, arbitrary variant typings
    n = ctx.scale(quick=1200, thorough=25000)
    speclines, specwant, ubatch = [], [], []
    for _ in range(n):
        tys = gv.gen_types(rng, rng.choice([1, 2, 3, 3]), 3)
        if len(gv.render_all(tys)) > 255:
            continue
        svs = [gv.gen_spec_free(rng, t, 3) for t in tys]
        sig = gv.render_all(tys)
        fds = []
        for t, s in zip(tys, svs):
            gv.collect_fds(t, s, fds)
        expected = [gv.expected_decoded(t, s) for t, s in zip(tys, svs)]
        ctx.case('wire-decode', sample={'sig': sig, 'expected': vc.to_line(expected)}, nontrivial=bool(tys))
        ctx.stat('decode:variant-free-typing' if 'v' in sig else 'decode:no-variant')
        picks = [(le, off) for le in (True, False) for off in rng.sample(range(16), 2)]
        for le, off in picks:
            enc = ref.encode(tys, svs, off, le)
            data = c01.PREFIX[:off] + enc + c01.SUFFIX
            u = c01.impl_unmarshal(sig, data, off, le, fds)
            ctx.impl_trace()
            ok = u[0] == 'ok' and u[1] == len(enc) and c01.py_equal(expected, u[2])
            if not ok:
                ctx.violation(decode_key(u, enc), 'unmarshal of a spec-conformant encoding does not return the value',
                              inp={'sig': sig, 'data': data.hex(), 'off': off, 'le': le, 'fds': vc.to_line(fds)},
                              observed=c01.canon_unmarshal(u),
                              expected='ok %d %s' % (len(enc), vc.to_line(expected)))
        le, off = picks[0]
        enc = ref.encode(tys, svs, off, le)
        data = c01.PREFIX[:off] + enc + c01.SUFFIX
        ubatch.append((sig, data, off, le, fds))
        # the Lean spec decoder against the reference decoder (descriptors stay indices there)
        rsv, rn = ref.decode(tys, data, off, le)
        speclines.append('specdec %s %d %s %s' % (vc.str_hex(sig), off, 'L' if le else 'B', vc.bytes_hex(data)))
        specwant.append('ok %d %s' % (rn, vc.to_line([gv.expected_decoded(t, s) for t, s in zip(tys, rsv)])))
    out = ctx.model(speclines)
    for i, ln in enumerate(speclines):
        ctx.case('spec-vs-reference')
        if out is not None and out[i] != specwant[i]:
            ctx.disagree('spec-vs-reference', {'line': ln}, out[i], specwant[i])
    c01.check_unmarshal_batch(ctx, 'wire-decode', ubatch)


def alternative_encoding(tys, svs, got, oob, off, le):
    """The specification does not order the entries of a dict: bytes that the strict reference decoder reads
    back as the same values up to the order of dict entries, and that are what the reference encoder
    produces for the values in that order, are a correct encoding too."""
    try:
        dec, n = ref.decode(tys, c01.PREFIX[:off] + got, off, le)
    except (ref.RefError, Exception):     # noqa: BLE001
        return False
    if n != len(got):
        return False
    try:
        back = [_with_fds(t, s, oob) for t, s in zip(tys, dec)]
        if ref.encode(tys, back, off, le) != got:
            return False
        return [_norm(t, s) for t, s in zip(tys, back)] == [_norm(t, s) for t, s in zip(tys, svs)]
    except Exception:                     # noqa: BLE001
        return False


def _with_fds(ty, sv, oob):
    if isinstance(ty, str):
        if ty == 'h':
            return oob[sv]
        if ty == 'v':
            return ('V', sv[1], _with_fds(sv[1], sv[2], oob))
        return sv
    if ty[0] == 'a':
        return [_with_fds(ty[1], e, oob) for e in sv]
    if ty[0] == '(':
        return [_with_fds(f, e, oob) for f, e in zip(ty[1], sv)]
    return (_with_fds(ty[1], sv[0], oob), _with_fds(ty[2], sv[1], oob))


def _norm(ty, sv):
    """Spec value with floats as bit patterns and dict entries sorted (for comparison only)."""
    import struct
    if isinstance(ty, str):
        if ty == 'd':
            return struct.pack('>d', sv).hex()
        if ty == 'v':
            return ['V', gv.render(sv[1]), _norm(sv[1], sv[2])]
        return repr(sv)
    if ty[0] == 'a':
        el = ty[1]
        xs = [_norm(el, e) for e in sv]
        if not isinstance(el, str) and el[0] == '{':
            xs.sort(key=repr)
        return xs
    if ty[0] == '(':
        return [_norm(f, e) for f, e in zip(ty[1], sv)]
    return [_norm(ty[1], sv[0]), _norm(ty[2], sv[1])]


def encode_key(r, want):
    if r[0] != 'ok':
        return 'encode-raises'
    if len(r[2]) != len(want) or r[1] != len(want):
        return 'encode-length'
    return 'encode-bytes'


def decode_key(u, enc):
    if u[0] != 'ok':
        return 'decode-raises'
    if u[1] != len(enc):
        return 'decode-length'
    return 'decode-value'


def replay(ctx, data, stream='replay'):
    c01.register()
    inp = data.get('input', data)
    if 'data' in inp:
        sig, off, le = inp['sig'], inp['off'], inp['le']
        fds = vc.from_line(inp.get('fds', 'L 0'))
        raw = bytes.fromhex(inp['data'])
        tys = gv.parse_sig(sig)
        ctx.case(stream, sample=inp)
        u = c01.impl_unmarshal(sig, raw, off, le, fds)
        try:
            rsv, rn = ref.decode(tys, raw, off, le)
        except ref.RefError:
            return
        want = []
        idx_fds = list(fds)
        for t, s in zip(tys, rsv):
            want.append(_resolve(t, gv.expected_decoded(t, s), s, idx_fds))
        ok = u[0] == 'ok' and u[1] == rn and c01.py_equal(want, u[2])
        if not ok:
            ctx.violation(decode_key(u, b'x' * rn), 'unmarshal of a spec-conformant encoding does not return the value',
                          inp=inp, observed=c01.canon_unmarshal(u), expected='ok %d %s' % (rn, vc.to_line(want)))
        return
    if 'code' in inp:
        from txdbus import marshal as m
        code, off = inp['code'], inp['off']
        ctx.case(stream, sample=inp)
        try:
            p = m.pad[code](off)
            res = 'ok %d' % len(p)
        except Exception as e:   # noqa: BLE001
            res, p = 'err ' + c01.exc_name(e), b''
        want = ref.pad_len(code, off) if code in ref.ALIGNMENT else None
        if want is None or res != 'ok %d' % want or any(p):
            ctx.violation('padding-rule', 'pad[%r](%d) is not %r zero bytes' % (code, off, want), inp=inp,
                          observed=res, expected='ok %r' % (want,))
        return
    if 'line' in inp:
        c01.replay_case(ctx, data, stream)
        return
    # encode direction: {'sig','values','off','le'}
    sig, off, le = inp['sig'], inp['off'], inp['le']
    pvs = vc.from_line(inp['values'])
    tys = gv.parse_sig(sig)
    ctx.case(stream, sample=inp)
    r = c01.impl_marshal(sig, pvs, off, le, [])
    svs = to_spec(tys, pvs)
    want = ref.encode(tys, svs, off, le)
    if r[0] != 'ok' or r[2] != want or r[1] != len(want):
        ctx.violation(encode_key(r, want), 'marshal bytes differ from the DBus wire format', inp=inp,
                      observed=c01.canon_marshal(r), expected='ok %d %s' % (len(want), vc.bytes_hex(want)))


def _resolve(ty, exp, sv, fds):
    """Replace descriptor indices by the objects of the list (what unmarshal returns)."""
    if isinstance(ty, str):
        if ty == 'h':
            return fds[sv] if sv < len(fds) else None
        if ty == 'v':
            return _resolve(sv[1], exp, sv[2], fds)
        return exp
    if ty[0] == 'a':
        el = ty[1]
        if not isinstance(el, str) and el[0] == '{':
            return {_resolve(el[1], k, k, fds): _resolve(el[2], gv.expected_decoded(el[2], v), v, fds) for k, v in sv}
        return [_resolve(el, gv.expected_decoded(el, e), e, fds) for e in sv]
    if ty[0] == '(':
        return [_resolve(f, gv.expected_decoded(f, e), e, fds) for f, e in zip(ty[1], sv)]
    return [_resolve(ty[1], sv[0], sv[0], fds), _resolve(ty[2], gv.expected_decoded(ty[2], sv[1]), sv[1], fds)]


def to_spec(tys, pvs):
    """Conforming Python values -> spec values (type-directed; variants through txdbus's own inference)."""
    def conv(ty, v):
        if isinstance(ty, str):
            if ty == 'v':
                from txdbus import marshal as m
                vt = gv.parse_sig(m.sigFromPy(v))[0]
                return ('V', vt, conv(vt, v))
            if ty == 'b':
                return bool(v)
            if ty in gv.INT_RANGE:
                return int(v)
            if ty in 'sog':
                return str(v)
            return v
        if ty[0] == 'a':
            el = ty[1]
            if isinstance(v, dict):
                return [(conv(el[1], k), conv(el[2], x)) for k, x in v.items()]
            return [conv(el, x) for x in v]
        fields = [getattr(v, a) for a in v.dbusOrder] if hasattr(v, 'dbusOrder') else list(v)
        if ty[0] == '(':
            return [conv(f, x) for f, x in zip(ty[1], fields)]
        return (conv(ty[1], fields[0]), conv(ty[2], fields[1]))
    return [conv(t, v) for t, v in zip(tys, pvs)]
