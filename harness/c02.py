"""C02 - encoded bytes are exactly the DBus wire format, in both directions.
Correspondence (Lean models vs txdbus.marshal, Lean spec vs the Python reference codec) + property
oracle on the implementation alone: the reference encoder / decoder of harness/c02_ref.py, written from
the DBus specification without looking at txdbus.
"""
from harness import c01
from harness import c02_ref as ref
from harness import gen_values as gv
from harness import valcodec as vc

STREAMS = ['wire-encode', 'wire-decode', 'message-decode', 'padding-table', 'spec-vs-reference']
THEOREMS = ['C02_alignTable', 'C02_padding', 'C02_encode', 'C02_decode', 'C02_encode_conf', 'C02_encode_checked',
            'C02_decode_dict', 'C02_decode_any_fuel', 'C02_decode_fuel_free', 'C02_decode_dict_fuel_free',
            'C02_encode_fuel_free', 'C02_encode_noVariant_fuel_free', 'C02_encode_conf_fuel_free',
            'C02_encode_checked_fuel_free', 'C02_unmarshal_fuel_canonical', 'layout_dict_entry', 'layout_fields', 'layout_elems',
            'layout_array', 'layout_string', 'layout_signature', 'layout_variant', 'layout_struct',
            'layout_byte_order']
TRUSTED_BASE = c01.TRUSTED_BASE + [
    'lean/TxdbusModel/Wire/Spec.lean and harness/c02_ref.py: two independent transcriptions of the DBus '
    'specification (Lean / Python), compared with each other on every run (stream spec-vs-reference)',
]
ASSUMPTIONS = c01.ASSUMPTIONS
RULE = ('same type-directed generator as C01; encode direction: spellable spec values, every case at both byte '
        'orders x offsets 0..15 against the reference encoder; decode direction: spec values whose variants hold ANY '
        'valid type (empty typed arrays, descriptors, nested variants), reference-encoded, both byte orders, 4 offsets; '
        'padding: all 17 type codes x offsets 0..63 (exhaustive); distinct = distinct canonical JSON of the case')


def pad_table_impl():
    """pad[code](off) for the 17 type codes of the specification and for any further row of `dbus_types`."""
    from txdbus import marshal as m
    rows = []
    codes = list(ref.ALIGNMENT) + [c for _, c, _ in m.dbus_types if c not in ref.ALIGNMENT]
    for code in codes:
        for off in range(64):
            try:
                p = m.pad[code](off)
                rows.append((code, off, 'ok %d' % len(p), bytes(p)))
            except Exception as e:   # noqa: BLE001
                rows.append((code, off, 'err ' + c01.exc_name(e), b''))
    return rows


def run(ctx):
    c01.register()
    rng = ctx.rng

    for name, case in ctx.corpus():
        replay(ctx, case, 'corpus:' + name)

    # ---- padding table: 17 codes x offsets 0..63, exhaustive in both tiers
    from txdbus import marshal as m
    codes = [c for _, c, _ in m.dbus_types]
    rows = pad_table_impl()
    lines = ['padlen %s %d' % (vc.str_hex(c), off) for c, off, _, _ in rows]
    slines = ['specpad %s %d' % (vc.str_hex(c), off) for c, off, _, _ in rows]
    out = ctx.model(lines)
    sout = ctx.model(slines)
    for i, (code, off, res, padbytes) in enumerate(rows):
        ctx.case('padding-table', sample={'code': code, 'off': off})
        ctx.impl_trace()
        if code in ref.ALIGNMENT:
            want = ref.pad_len(code, off)
            if res != 'ok %d' % want or any(padbytes):
                ctx.violation('padding-rule', 'pad[%r](%d) is not %r zero bytes' % (code, off, want),
                              inp={'code': code, 'off': off}, observed=res + ' ' + padbytes.hex(),
                              expected='ok %r (alignment %r)' % (want, ref.ALIGNMENT.get(code)))
            if sout is not None and sout[i] != 'ok %d' % want:
                ctx.disagree('spec-vs-reference', {'line': slines[i]}, sout[i], 'ok %d' % want)
        else:
            ctx.stat('padding:row-for-a-code-outside-the-specification')   # not judged: the statement is about the 17 codes
        if out is not None and out[i] != res:
            ctx.disagree('padding-table', {'line': lines[i]}, out[i], res)
    ctx.note('padding-table: the 17 type codes of the specification (+ %d further rows of dbus_types, not judged) x offsets '
             '0..63 enumerated completely; any formula periodic in 8 is decided by offsets 0..63'
             % len([c for c in codes if c not in ref.ALIGNMENT]))

    # ---- encode direction
    def encode_case(stream, tys, svs, top, offsets, initial):
        sig = gv.render_all(tys)
        ctx.case(stream, sample={'sig': sig, 'values': vc.to_line(top)}, nontrivial=bool(tys))
        runs = [(le, off, ()) for le in (True, False) for off in offsets]
        if initial and 'h' in sig:
            runs += [(le, offsets[0], tuple(c01.INITIAL_FDS)) for le in (True, False)]
        for le, off, init in runs:
            want = ref.encode(tys, svs, off, le, fd_base=len(init))
            r = c01.impl_marshal(sig, top, off, le, list(init))
            ctx.impl_trace()
            if r[0] != 'ok' or r[2] != want or r[1] != len(want):
                if r[0] == 'ok' and r[1] == len(r[2]) and alternative_encoding(tys, svs, r[2], r[3], off, le):
                    ctx.stat('encode:other-entry-order-or-descriptor-numbering')
                    continue
                ctx.violation(encode_key(r, want), 'marshal bytes differ from the DBus wire format',
                              inp=c01.case_json(sig, top, off, le, init), observed=c01.canon_marshal(r),
                              expected='ok %d %s' % (len(want), vc.bytes_hex(want)))
        le, off = rng.random() < 0.5, rng.choice(offsets)
        speclines.append('specenc %s %d %s %s' % (vc.str_hex(sig), off, 'L' if le else 'B', vc.to_line(top)))
        specwant.append('ok ' + vc.bytes_hex(ref.encode(tys, svs, off, le)))
        mbatch.append((sig, top, off, le, []))

    n = ctx.scale(quick=900, thorough=25000)
    speclines, specwant, mbatch = [], [], []
    for _ in range(n):
        tys, svs, pvs, fds, expected = gv.gen_case(rng, depth=rng.choice([1, 2, 3, 3, 4]), max_n=4)
        top, spelling = gv.top_spelling(rng, pvs)
        ctx.stat('variableList:' + spelling)
        c01.stats_for(ctx, tys, top, svs)
        encode_case('wire-encode', tys, svs, top, list(range(16)) + [rng.choice(c01.BIG_OFFSETS)], True)
    nl = ctx.scale(quick=50, thorough=1500)
    for i in range(nl):
        kind, tys, svs = gv.gen_large_case(rng, gv.LARGE_KINDS[i % len(gv.LARGE_KINDS)] if i < 2 * len(gv.LARGE_KINDS) else None)
        pvs, fds, expected = gv.spell_case(rng, tys, svs)
        top, spelling = gv.top_spelling(rng, pvs)
        ctx.stat('large:' + kind)
        for t, sv in zip(tys, svs):
            gv.value_stats(t, sv, ctx.stat)
        ctx.stat('type-depth=%d' % max(gv.depth_of(t) for t in tys))
        encode_case('wire-encode', tys, svs, top, rng.sample(range(16), 3) + [rng.choice(c01.BIG_OFFSETS)], False)
    out = ctx.model(speclines)
    for i, ln in enumerate(speclines):
        ctx.case('spec-vs-reference')
        if out is not None and out[i] != specwant[i]:
            # also the certificate that the case lies inside the hypotheses of C02_encode_checked
            ctx.disagree('spec-vs-reference', {'line': ln[:2000]}, out[i][:2000], specwant[i][:2000])
        else:
            ctx.stat('certified-inside-theorem-hypotheses')
    c01.check_marshal_batch(ctx, 'wire-encode', mbatch)

    # ---- decode direction: reference-encoded bytes, arbitrary variant typings
    def decode_case(tys, svs, offsets):
        sig = gv.render_all(tys)
        fds = []
        for t, s in zip(tys, svs):
            gv.collect_fds(t, s, fds)
        expected = [gv.expected_decoded(t, s) for t, s in zip(tys, svs)]
        ctx.case('wire-decode', sample={'sig': sig, 'expected': vc.to_line(expected)[:4000]}, nontrivial=bool(tys))
        picks = [(le, off) for le in (True, False) for off in offsets]
        for le, off in picks:
            enc = ref.encode(tys, svs, off, le)
            data = c01.PREFIX[:off] + enc + c01.SUFFIX
            u = c01.impl_unmarshal(sig, data, off, le, fds)
            ctx.impl_trace()
            ok = u[0] == 'ok' and u[1] == len(enc) and c01.py_equal(expected, u[2])
            if ok and c01.float_bits_differ(expected, u[2]):
                ctx.stat('note:decoded-double-equal-but-other-bit-pattern')
            if not ok:
                ctx.violation(decode_key(u, enc), 'unmarshal of a spec-conformant encoding does not return the value',
                              inp={'sig': sig, 'data': data.hex(), 'off': off, 'le': le, 'fds': vc.to_line(fds)},
                              observed=c01.canon_unmarshal(u)[:4000],
                              expected=('ok %d %s' % (len(enc), vc.to_line(expected)))[:4000])
        le, off = picks[rng.randrange(len(picks))]
        enc = ref.encode(tys, svs, off, le)
        data = c01.PREFIX[:off] + enc + c01.SUFFIX
        ubatch.append((sig, data, off, le, fds))
        # the Lean spec decoder against the reference decoder (descriptors stay indices there)
        rsv, rn = ref.decode(tys, data, off, le)
        speclines.append('specdec %s %d %s %s' % (vc.str_hex(sig), off, 'L' if le else 'B', vc.bytes_hex(data)))
        specwant.append('ok %d %s' % (rn, vc.to_line([gv.expected_decoded(t, s) for t, s in zip(tys, rsv)])))

    n = ctx.scale(quick=700, thorough=20000)
    speclines, specwant, ubatch = [], [], []
    for _ in range(n):
        d = rng.choice([1, 2, 3, 3, 4, 6])
        tys = gv.gen_types(rng, min(d, 4), 3)
        if len(gv.render_all(tys)) > 255:
            continue
        svs = [gv.gen_spec_free(rng, t, d) for t in tys]
        for t, sv in zip(tys, svs):
            gv.value_stats(t, sv, lambda k: ctx.stat('decode:' + k))
        ctx.stat('decode:variant-free-typing' if 'v' in gv.render_all(tys) else 'decode:no-variant')
        if ctx.tier == 'thorough':
            offsets = list(range(16)) + [rng.choice(c01.BIG_OFFSETS)]
        else:
            offsets = rng.sample(range(16), 4) + [rng.choice(c01.BIG_OFFSETS)]
        decode_case(tys, svs, offsets)
    for i in range(nl):
        kind, tys, svs = gv.gen_large_case(rng, gv.LARGE_KINDS[i % len(gv.LARGE_KINDS)] if i < 2 * len(gv.LARGE_KINDS) else None)
        ctx.stat('decode-large:' + kind)
        decode_case(tys, svs, rng.sample(range(16), 3) + [rng.choice(c01.BIG_OFFSETS)])
    # ---- whole messages from another implementation (the signature header field drives the body decoder)
    for n in (1, 2, 126, 127, 128, 253, 254, 255):
        tys = ['y'] * n
        message_decode_case(ctx, tys, [(i * 7 + 3) % 256 for i in range(n)])
        if n >= 3:
            message_decode_case(ctx, [('(', tuple(['i'] * (n - 2)))], [[i - 5 for i in range(n - 2)]])
    for _ in range(ctx.scale(quick=100, thorough=3000)):
        tys = gv.gen_types(rng, rng.choice([1, 2, 3]), 4)
        if 0 < len(gv.render_all(tys)) <= 255:
            message_decode_case(ctx, tys, [gv.gen_spec_free(rng, t, 3) for t in tys])
    ctx.note('wire-decode: %s offsets per byte order and case' % ('all 16 + one of %r' % (c01.BIG_OFFSETS,)
                                                                    if ctx.tier == 'thorough' else '4 of 0..15 + one larger'))
    out = ctx.model(speclines)
    for i, ln in enumerate(speclines):
        ctx.case('spec-vs-reference')
        if out is not None and out[i] != specwant[i]:
            ctx.disagree('spec-vs-reference', {'line': ln[:2000]}, out[i][:2000], specwant[i][:2000])
    c01.check_unmarshal_batch(ctx, 'wire-decode', ubatch)


HEADER_TYS = None


def ref_message(tys, svs, le, serial=1, nfds=0):
    """A METHOD_CALL message carrying the values, built ONLY with the reference encoder (header
    `yyyyuua(yv)` with PATH, MEMBER, SIGNATURE [, UNIX_FDS], padding to 8, body) - what another
    implementation would put on the wire."""
    global HEADER_TYS
    if HEADER_TYS is None:
        HEADER_TYS = gv.parse_sig('yyyyuua(yv)')
    body = ref.encode(tys, svs, 0, le)
    sig = gv.render_all(tys)
    fields = [[1, ('V', 'o', '/org/example/Obj')], [3, ('V', 's', 'Method')], [8, ('V', 'g', sig)]]
    if nfds:
        fields.append([9, ('V', 'u', nfds)])
    header = ref.encode(HEADER_TYS, [ord('l' if le else 'B'), 1, 0, 1, len(body), serial, fields], 0, le)
    return header + b'\0' * ((8 - len(header) % 8) % 8) + body


def message_decode_case(ctx, tys, svs):
    """C02's converse at the level the anchors name (txdbus/message.py): a spec-conformant MESSAGE from another
    implementation is parsed to the values it encodes."""
    from txdbus import message
    sig = gv.render_all(tys)
    fds = []
    for t, sv in zip(tys, svs):
        gv.collect_fds(t, sv, fds)
    expected = [gv.expected_decoded(t, sv) for t, sv in zip(tys, svs)]
    ctx.case('message-decode', sample={'sig': sig[:80], 'sig-length': len(sig)})
    ctx.stat('message:signature-length=%s' % gv._bucket(len(sig), [1, 20, 126, 253, 254, 255]))
    for le in (True, False):
        raw = ref_message(tys, svs, le, nfds=len(fds))
        ctx.impl_trace()
        try:
            m = message.parseMessage(raw, fds)
            ok = m.signature == sig and c01.py_equal(expected, m.body)
            observed = 'parsed, signature %r, body %s' % (m.signature[:40], 'equal' if ok else 'DIFFERENT')
        except Exception as e:     # noqa: BLE001
            ok, observed = False, 'parseMessage raised %s: %s' % (c01.exc_name(e), str(e)[:80])
        if not ok:
            ctx.violation('message-decode', 'a spec-conformant message is not parsed to the values it encodes',
                          inp={'message': raw.hex(), 'sig': sig, 'le': le, 'fds': vc.to_line(fds)},
                          observed=observed, expected='body == %s' % vc.to_line(expected)[:2000])


def alternative_encoding(tys, svs, got, oob, off, le):
    """Bytes other than the reference encoder's that are still THE encoding the specification defines for these
    values: the specification does not order the entries of a dict and only calls a UNIX_FD "an index into the
    out-of-band array".  Accepted iff the strict reference decoder reads the bytes back, re-encoding what it
    read (same entry order, same indices) reproduces them byte for byte, and the values - indices resolved
    through the descriptor list `marshal` returned - equal the input up to the order of dict entries."""
    try:
        dec, n = ref.decode(tys, c01.PREFIX[:off] + got, off, le)
    except Exception:     # noqa: BLE001
        return False
    if n != len(got):
        return False
    try:
        if ref.encode(tys, dec, off, le, raw_fds=True) != got:
            return False
        back = [_with_fds(t, s, oob) for t, s in zip(tys, dec)]
        return [_norm(t, s) for t, s in zip(tys, back)] == [_norm(t, s) for t, s in zip(tys, svs)]
    except Exception:                     # noqa: BLE001
        return False


def _with_fds(ty, sv, oob):
    if isinstance(ty, str):
        if ty == 'h':
            return oob[sv]
        if ty == 'v':
            return ('V', sv[1], _with_fds(sv[1], sv[2], oob))
        return sv
    if ty[0] == 'a':
        return [_with_fds(ty[1], e, oob) for e in sv]
    if ty[0] == '(':
        return [_with_fds(f, e, oob) for f, e in zip(ty[1], sv)]
    return (_with_fds(ty[1], sv[0], oob), _with_fds(ty[2], sv[1], oob))


def _norm(ty, sv):
    """Spec value with floats as bit patterns and dict entries sorted (for comparison only)."""
    import struct
    if isinstance(ty, str):
        if ty == 'd':
            return struct.pack('>d', sv).hex()
        if ty == 'v':
            return ['V', gv.render(sv[1]), _norm(sv[1], sv[2])]
        return repr(sv)
    if ty[0] == 'a':
        el = ty[1]
        xs = [_norm(el, e) for e in sv]
        if not isinstance(el, str) and el[0] == '{':
            xs.sort(key=repr)
        return xs
    if ty[0] == '(':
        return [_norm(f, e) for f, e in zip(ty[1], sv)]
    return [_norm(ty[1], sv[0]), _norm(ty[2], sv[1])]


def encode_key(r, want):
    if r[0] != 'ok':
        return 'encode-raises'
    if len(r[2]) != len(want) or r[1] != len(want):
        return 'encode-length'
    return 'encode-bytes'


def decode_key(u, enc):
    if u[0] != 'ok':
        return 'decode-raises'
    if u[1] != len(enc):
        return 'decode-length'
    return 'decode-value'


def replay(ctx, data, stream='replay'):
    c01.register()
    inp = data.get('input', data)
    if 'message' in inp:
        from txdbus import message
        raw, sig = bytes.fromhex(inp['message']), inp['sig']
        fds = vc.from_line(inp.get('fds', 'L 0'))
        ctx.case(stream, sample={'sig': sig[:80]})
        # what the strict reference decoder reads in the body (8-aligned, after the header array)
        le = inp['le']
        hdr, n = ref.decode(gv.parse_sig('yyyyuua(yv)'), raw, 0, le)
        body_at = n + (8 - n % 8) % 8
        tys = gv.parse_sig(sig)
        rsv, _ = ref.decode(tys, raw[body_at:], 0, le)
        want = [_resolve(t, gv.expected_decoded(t, s), s, list(fds)) for t, s in zip(tys, rsv)]
        try:
            m = message.parseMessage(raw, fds)
            ok = m.signature == sig and c01.py_equal(want, m.body)
            observed = 'parsed, body %s' % ('equal' if ok else 'DIFFERENT')
        except Exception as e:     # noqa: BLE001
            ok, observed = False, 'parseMessage raised %s: %s' % (c01.exc_name(e), str(e)[:80])
        if not ok:
            ctx.violation('message-decode', 'a spec-conformant message is not parsed to the values it encodes',
                          inp=inp, observed=observed, expected='body == %s' % vc.to_line(want)[:2000])
        return
    if 'data' in inp:
        sig, off, le = inp['sig'], inp['off'], inp['le']
        fds = vc.from_line(inp.get('fds', 'L 0'))
        raw = bytes.fromhex(inp['data'])
        tys = gv.parse_sig(sig)
        ctx.case(stream, sample=inp)
        u = c01.impl_unmarshal(sig, raw, off, le, fds)
        try:
            rsv, rn = ref.decode(tys, raw, off, le)
        except ref.RefError:
            return
        want = []
        idx_fds = list(fds)
        for t, s in zip(tys, rsv):
            want.append(_resolve(t, gv.expected_decoded(t, s), s, idx_fds))
        ok = u[0] == 'ok' and u[1] == rn and c01.py_equal(want, u[2])
        if not ok:
            ctx.violation(decode_key(u, b'x' * rn), 'unmarshal of a spec-conformant encoding does not return the value',
                          inp=inp, observed=c01.canon_unmarshal(u), expected='ok %d %s' % (rn, vc.to_line(want)))
        return
    if 'code' in inp:
        from txdbus import marshal as m
        code, off = inp['code'], inp['off']
        ctx.case(stream, sample=inp)
        try:
            p = m.pad[code](off)
            res = 'ok %d' % len(p)
        except Exception as e:   # noqa: BLE001
            res, p = 'err ' + c01.exc_name(e), b''
        want = ref.pad_len(code, off) if code in ref.ALIGNMENT else None
        if want is not None and (res != 'ok %d' % want or any(p)):
            ctx.violation('padding-rule', 'pad[%r](%d) is not %r zero bytes' % (code, off, want), inp=inp,
                          observed=res, expected='ok %r' % (want,))
        return
    if 'line' in inp:
        c01.replay_case(ctx, data, stream)
        return
    if 'bytes' in inp:
        replay_vector(ctx, inp, stream)
        return
    # encode direction: {'sig','values','off','le'[, 'initial_fds']}
    sig, off, le = inp['sig'], inp['off'], inp['le']
    pvs = vc.from_line(inp['values'])
    init = vc.from_line(inp['initial_fds']) if 'initial_fds' in inp else []
    tys = gv.parse_sig(sig)
    ctx.case(stream, sample=inp)
    r = c01.impl_marshal(sig, pvs, off, le, list(init))
    svs = to_spec(tys, pvs)
    want = ref.encode(tys, svs, off, le, fd_base=len(init))
    if (r[0] != 'ok' or r[2] != want or r[1] != len(want)) and not (
            r[0] == 'ok' and r[1] == len(r[2]) and alternative_encoding(tys, svs, r[2], r[3], off, le)):
        ctx.violation(encode_key(r, want), 'marshal bytes differ from the DBus wire format', inp=inp,
                      observed=c01.canon_marshal(r), expected='ok %d %s' % (len(want), vc.bytes_hex(want)))


def replay_vector(ctx, inp, stream):
    """A literal byte vector from outside this tree (the text of the DBus specification, a published capture,
    or bytes worked out by hand from the rules): {'sig','values','off','le','bytes','source'}.  Checked against
    the implementation (oracle: marshal produces the bytes, unmarshal returns the values), against the Python
    reference codec and against the Lean spec - a third source for the two transcriptions of the specification."""
    sig, off, le = inp['sig'], inp['off'], inp['le']
    pvs = vc.from_line(inp['values'])
    want = bytes.fromhex(inp['bytes'])
    tys = gv.parse_sig(sig)
    svs = to_spec(tys, pvs)
    ctx.case(stream, sample={'sig': sig, 'source': inp.get('source', '')})
    r = c01.impl_marshal(sig, pvs, off, le, [])
    if r[0] != 'ok' or r[2] != want or r[1] != len(want):
        ctx.violation(encode_key(r, want), 'marshal bytes differ from a published byte vector (%s)' % inp.get('source', ''),
                      inp=inp, observed=c01.canon_marshal(r), expected='ok %d %s' % (len(want), vc.bytes_hex(want)))
    data = c01.PREFIX[:off] + want + c01.SUFFIX
    u = c01.impl_unmarshal(sig, data, off, le, [])
    expected = c01.normalise(tys, pvs)
    if not (u[0] == 'ok' and u[1] == len(want) and c01.py_equal(expected, u[2])):
        ctx.violation(decode_key(u, want), 'unmarshal of a published byte vector does not return its values', inp=inp,
                      observed=c01.canon_unmarshal(u), expected='ok %d %s' % (len(want), vc.to_line(expected)))
    refb = ref.encode(tys, svs, off, le)
    if refb != want:
        ctx.disagree('spec-vs-reference', {'vector': inp.get('source', ''), 'sig': sig}, 'reference ' + refb.hex(), want.hex())
    out = ctx.model(['specenc %s %d %s %s' % (vc.str_hex(sig), off, 'L' if le else 'B', vc.to_line(pvs)),
                     'specdec %s %d %s %s' % (vc.str_hex(sig), off, 'L' if le else 'B', vc.bytes_hex(data))])
    if out is not None:
        if out[0] != 'ok ' + vc.bytes_hex(want):
            ctx.disagree('spec-vs-reference', {'vector': inp.get('source', ''), 'op': 'specenc'}, out[0], 'ok ' + want.hex())
        wantdec = 'ok %d %s' % (len(want), vc.to_line(expected))
        if out[1] != wantdec:
            ctx.disagree('spec-vs-reference', {'vector': inp.get('source', ''), 'op': 'specdec'}, out[1], wantdec)


def _resolve(ty, exp, sv, fds):
    """Replace descriptor indices by the objects of the list (what unmarshal returns)."""
    if isinstance(ty, str):
        if ty == 'h':
            return fds[sv] if sv < len(fds) else None
        if ty == 'v':
            return _resolve(sv[1], exp, sv[2], fds)
        return exp
    if ty[0] == 'a':
        el = ty[1]
        if not isinstance(el, str) and el[0] == '{':
            return {_resolve(el[1], k, k, fds): _resolve(el[2], gv.expected_decoded(el[2], v), v, fds) for k, v in sv}
        return [_resolve(el, gv.expected_decoded(el, e), e, fds) for e in sv]
    if ty[0] == '(':
        return [_resolve(f, gv.expected_decoded(f, e), e, fds) for f, e in zip(ty[1], sv)]
    return [_resolve(ty[1], sv[0], sv[0], fds), _resolve(ty[2], gv.expected_decoded(ty[2], sv[1]), sv[1], fds)]


def to_spec(tys, pvs):
    """Conforming Python values -> spec values (type-directed; variants through txdbus's own inference)."""
    def conv(ty, v):
        if isinstance(ty, str):
            if ty == 'v':
                from txdbus import marshal as m
                vt = gv.parse_sig(m.sigFromPy(v))[0]
                return ('V', vt, conv(vt, v))
            if ty == 'b':
                return bool(v)
            if ty in gv.INT_RANGE:
                return int(v)
            if ty in 'sog':
                return str(v)
            return v
        if ty[0] == 'a':
            el = ty[1]
            if isinstance(v, dict):
                return [(conv(el[1], k), conv(el[2], x)) for k, x in v.items()]
            return [conv(el, x) for x in v]
        fields = [getattr(v, a) for a in v.dbusOrder] if hasattr(v, 'dbusOrder') else list(v)
        if ty[0] == '(':
            return [conv(f, x) for f, x in zip(ty[1], fields)]
        return (conv(ty[1], fields[0]), conv(ty[2], fields[1]))
    return [conv(t, v) for t, v in zip(tys, pvs)]
