"""C02 - encoded bytes are exactly the DBus wire format, in both directions.
Correspondence (Lean models vs txdbus.marshal, Lean spec vs the Python reference codec) + property
oracle on the implementation alone: the reference encoder / decoder of harness/c02_ref.py, written from
the DBus specification without looking at txdbus.
"""
from harness import c01
from harness import c02_ref as ref
from harness import gen_values as gv
from harness import valcodec as vc

STREAMS = ['wire-encode', 'wire-decode', 'message-decode', 'padding-table', 'spec-vs-reference', 'wire-history', 'message-encode']
THEOREMS = ['C02_alignTable', 'C02_padding', 'C02_encode', 'C02_decode', 'C02_encode_conf', 'C02_encode_checked',
            'C02_decode_dict', 'C02_decode_any_fuel', 'C02_decode_fuel_free', 'C02_decode_dict_fuel_free',
            'C02_encode_fuel_free', 'C02_encode_noVariant_fuel_free', 'C02_encode_conf_fuel_free',
            'C02_encode_checked_fuel_free', 'C02_unmarshal_fuel_canonical', 'layout_dict_entry', 'layout_fields', 'layout_elems',
            'layout_array', 'layout_string', 'layout_signature', 'layout_variant', 'layout_struct',
            'layout_byte_order', 'C02_encode_no_list', 'C02_encode_initial_list']
TRUSTED_BASE = c01.TRUSTED_BASE + [
    'lean/TxdbusModel/Wire/Spec.lean and harness/c02_ref.py: two independent transcriptions of the DBus '
    'specification (Lean / Python), compared with each other on every run (stream spec-vs-reference)',
]
ASSUMPTIONS = c01.ASSUMPTIONS
RULE = ('same type-directed generator as C01; encode direction: spellable spec values, every case at both byte '
        'orders x offsets 0..15 against the reference encoder; decode direction: spec values whose variants hold ANY '
        'valid type (empty typed arrays, descriptors, nested variants), reference-encoded, both byte orders, 4 offsets; '
        'padding: all 17 type codes x offsets 0..63 (exhaustive); distinct = distinct canonical JSON of the case')


def pad_table_impl():
    """pad[code](off) for the 17 type codes of the specification and for any further row of `dbus_types`."""
    from txdbus import marshal as m
    rows = []
    codes = list(ref.ALIGNMENT) + [c for _, c, _ in m.dbus_types if c not in ref.ALIGNMENT]
    for code in codes:
        for off in range(64):
            try:
                p = m.pad[code](off)
                rows.append((code, off, 'ok %d' % len(p), bytes(p)))
            except Exception as e:   # noqa: BLE001
                rows.append((code, off, 'err ' + c01.exc_name(e), b''))
    return rows


def run(ctx):
    c01.register()
    rng = ctx.rng

    for name, case in ctx.corpus():
        replay(ctx, case, 'corpus:' + name)

    # ---- histories: later uses inside one scenario (equal values of different classes, decode after failed decodes,
    #      messages of one class built one after the other)
    run_histories(ctx)

    # ---- padding table: 17 codes x offsets 0..63, exhaustive in both tiers
    from txdbus import marshal as m
    codes = [c for _, c, _ in m.dbus_types]
    rows = pad_table_impl()
    lines = ['padlen %s %d' % (vc.str_hex(c), off) for c, off, _, _ in rows]
    slines = ['specpad %s %d' % (vc.str_hex(c), off) for c, off, _, _ in rows]
    out = ctx.model(lines)
    sout = ctx.model(slines)
    for i, (code, off, res, padbytes) in enumerate(rows):
        ctx.case('padding-table', sample={'code': code, 'off': off})
        ctx.impl_trace()
        if code in ref.ALIGNMENT:
            want = ref.pad_len(code, off)
            if res != 'ok %d' % want or any(padbytes):
                ctx.violation('padding-rule', 'pad[%r](%d) is not %r zero bytes' % (code, off, want),
                              inp={'code': code, 'off': off}, observed=res + ' ' + padbytes.hex(),
                              expected='ok %r (alignment %r)' % (want, ref.ALIGNMENT.get(code)))
            if sout is not None and sout[i] != 'ok %d' % want:
                ctx.disagree('spec-vs-reference', {'line': slines[i]}, sout[i], 'ok %d' % want)
        else:
            ctx.stat('padding:row-for-a-code-outside-the-specification')   # not judged: the statement is about the 17 codes
        if out is not None and out[i] != res:
            ctx.disagree('padding-table', {'line': lines[i]}, out[i], res)
    ctx.note('padding-table: the 17 type codes of the specification (+ %d further rows of dbus_types, not judged) x offsets '
             '0..63 enumerated completely; any formula periodic in 8 is decided by offsets 0..63'
             % len([c for c in codes if c not in ref.ALIGNMENT]))

    # ---- encode direction
    def encode_case(stream, tys, svs, top, offsets, initial):
        sig = gv.render_all(tys)
        ctx.case(stream, sample={'sig': sig, 'values': vc.to_line(top)}, nontrivial=bool(tys))
        runs = [(le, off, ()) for le in (True, False) for off in offsets]
        if initial and 'h' in sig:
            runs += [(le, offsets[0], tuple(c01.INITIAL_FDS)) for le in (True, False)]
        if 'h' not in sig:            # the `oobFDs` keyword left out
            runs += [(ctx.cases % 2 == 0, offsets[ctx.cases % len(offsets)], 'omit')]
            ctx.stat('oobFDs-keyword-omitted')
        for le, off, init in runs:
            if init == 'omit':
                want = ref.encode(tys, svs, off, le)
                r = c01.call_marshal(sig, top, off, le, c01.OMIT)
            else:
                want = ref.encode(tys, svs, off, le, fd_base=len(init))
                r = c01.impl_marshal(sig, top, off, le, list(init))
            ctx.impl_trace()
            if r[0] != 'ok' or r[2] != want or r[1] != len(want):
                if r[0] == 'ok' and r[1] == len(r[2]) and alternative_encoding(tys, svs, r[2], r[3] or [], off, le):
                    ctx.stat('encode:other-entry-order-or-descriptor-numbering')
                    continue
                inp = c01.case_json(sig, top, off, le, init)
                note = c01.fresh_step_note(ctx, 'c02', encode_key(r, want), lambda: {
                    'op': 'enc', 'sig': sig, 'values': vc.to_line(top), 'off': off, 'le': le, 'want': want.hex(),
                    'fds': 'omit' if init == 'omit' else vc.to_line(list(init))})
                if note:
                    inp['note'] = note
                ctx.violation(encode_key(r, want), 'marshal bytes differ from the DBus wire format',
                              inp=inp, observed=c01.canon_marshal(r),
                              expected='ok %d %s' % (len(want), vc.bytes_hex(want)))
        le, off = rng.random() < 0.5, rng.choice(offsets)
        speclines.append('specenc %s %d %s %s' % (vc.str_hex(sig), off, 'L' if le else 'B', vc.to_line(top)))
        specwant.append('ok ' + vc.bytes_hex(ref.encode(tys, svs, off, le)))
        mbatch.append((sig, top, off, le, []))

    n = ctx.scale(quick=900, thorough=25000)
    speclines, specwant, mbatch = [], [], []
    for _ in range(n):
        tys, svs, pvs, fds, expected = gv.gen_case(rng, depth=rng.choice([1, 2, 3, 3, 4]), max_n=4)
        top, spelling = gv.top_spelling(rng, pvs)
        ctx.stat('variableList:' + spelling)
        c01.stats_for(ctx, tys, top, svs)
        encode_case('wire-encode', tys, svs, top, list(range(16)) + [rng.choice(c01.BIG_OFFSETS)], True)
    nl = ctx.scale(quick=50, thorough=1500)
    for i in range(nl):
        kind, tys, svs = gv.gen_large_case(rng, gv.LARGE_KINDS[i % len(gv.LARGE_KINDS)] if i < 2 * len(gv.LARGE_KINDS) else None)
        pvs, fds, expected = gv.spell_case(rng, tys, svs)
        top, spelling = gv.top_spelling(rng, pvs)
        ctx.stat('large:' + kind)
        for t, sv in zip(tys, svs):
            gv.value_stats(t, sv, ctx.stat)
        ctx.stat('type-depth=%d' % max(gv.depth_of(t) for t in tys))
        encode_case('wire-encode', tys, svs, top, rng.sample(range(16), 3) + [rng.choice(c01.BIG_OFFSETS)], False)
    out = ctx.model(speclines)
    for i, ln in enumerate(speclines):
        ctx.case('spec-vs-reference')
        if out is not None and out[i] != specwant[i]:
            # also the certificate that the case lies inside the hypotheses of C02_encode_checked
            ctx.disagree('spec-vs-reference', {'line': ln[:2000]}, out[i][:2000], specwant[i][:2000])
        else:
            ctx.stat('certified-inside-theorem-hypotheses')
    c01.check_marshal_batch(ctx, 'wire-encode', mbatch)

    # ---- decode direction: reference-encoded bytes, arbitrary variant typings
    def decode_case(tys, svs, offsets):
        sig = gv.render_all(tys)
        fds = []
        for t, s in zip(tys, svs):
            gv.collect_fds(t, s, fds)
        expected = [gv.expected_decoded(t, s) for t, s in zip(tys, svs)]
        ctx.case('wire-decode', sample={'sig': sig, 'expected': vc.to_line(expected)[:4000]}, nontrivial=bool(tys))
        picks = [(le, off) for le in (True, False) for off in offsets]
        for le, off in picks:
            enc = ref.encode(tys, svs, off, le)
            data = c01.PREFIX[:off] + enc + c01.SUFFIX
            if not fds and 'h' not in sig and (le, off) == picks[ctx.cases % len(picks)]:
                u = c01.call_unmarshal(sig, data, off, le, c01.OMIT)       # the `oobFDs` keyword left out
                ctx.stat('decode:oobFDs-keyword-omitted')
            else:
                u = c01.impl_unmarshal(sig, data, off, le, fds)
            ctx.impl_trace()
            ok = u[0] == 'ok' and u[1] == len(enc) and c01.py_equal(expected, u[2])
            if ok and c01.float_bits_differ(expected, u[2]):
                ctx.stat('note:decoded-double-equal-but-other-bit-pattern')
            if not ok:
                inp = {'sig': sig, 'data': data.hex(), 'off': off, 'le': le, 'fds': vc.to_line(fds)}
                note = c01.fresh_step_note(ctx, 'c02', decode_key(u, enc), lambda: {
                    'op': 'dec', 'sig': sig, 'data': data.hex(), 'off': off, 'le': le, 'fds': vc.to_line(fds),
                    'want': vc.to_line(expected), 'want_n': len(enc)})
                if note:
                    inp['note'] = note
                ctx.violation(decode_key(u, enc), 'unmarshal of a spec-conformant encoding does not return the value',
                              inp=inp,
                              observed=c01.canon_unmarshal(u)[:4000],
                              expected=('ok %d %s' % (len(enc), vc.to_line(expected)))[:4000])
        le, off = picks[rng.randrange(len(picks))]
        enc = ref.encode(tys, svs, off, le)
        data = c01.PREFIX[:off] + enc + c01.SUFFIX
        ubatch.append((sig, data, off, le, fds))
        # the Lean spec decoder against the reference decoder (descriptors stay indices there)
        rsv, rn = ref.decode(tys, data, off, le)
        speclines.append('specdec %s %d %s %s' % (vc.str_hex(sig), off, 'L' if le else 'B', vc.bytes_hex(data)))
        specwant.append('ok %d %s' % (rn, vc.to_line([gv.expected_decoded(t, s) for t, s in zip(tys, rsv)])))

    n = ctx.scale(quick=700, thorough=20000)
    speclines, specwant, ubatch = [], [], []
    for _ in range(n):
        d = rng.choice([1, 2, 3, 3, 4, 6])
        tys = gv.gen_types(rng, min(d, 4), 3)
        if len(gv.render_all(tys)) > 255:
            continue
        svs = [gv.gen_spec_free(rng, t, d) for t in tys]
        for t, sv in zip(tys, svs):
            gv.value_stats(t, sv, lambda k: ctx.stat('decode:' + k))
        ctx.stat('decode:variant-free-typing' if 'v' in gv.render_all(tys) else 'decode:no-variant')
        if ctx.tier == 'thorough':
            offsets = list(range(16)) + [rng.choice(c01.BIG_OFFSETS)]
        else:
            offsets = rng.sample(range(16), 4) + [rng.choice(c01.BIG_OFFSETS)]
        decode_case(tys, svs, offsets)
    for i in range(nl):
        kind, tys, svs = gv.gen_large_case(rng, gv.LARGE_KINDS[i % len(gv.LARGE_KINDS)] if i < 2 * len(gv.LARGE_KINDS) else None)
        ctx.stat('decode-large:' + kind)
        decode_case(tys, svs, rng.sample(range(16), 3) + [rng.choice(c01.BIG_OFFSETS)])
    # ---- whole messages from another implementation (the signature header field drives the body decoder)
    for n in (1, 2, 126, 127, 128, 253, 254, 255):
        tys = ['y'] * n
        message_decode_case(ctx, tys, [(i * 7 + 3) % 256 for i in range(n)])
        if n >= 3:
            message_decode_case(ctx, [('(', tuple(['i'] * (n - 2)))], [[i - 5 for i in range(n - 2)]])
    for _ in range(ctx.scale(quick=100, thorough=3000)):
        tys = gv.gen_types(rng, rng.choice([1, 2, 3]), 4)
        if 0 < len(gv.render_all(tys)) <= 255:
            message_decode_case(ctx, tys, [gv.gen_spec_free(rng, t, 3) for t in tys])
    ctx.note('wire-decode: %s offsets per byte order and case' % ('all 16 + one of %r' % (c01.BIG_OFFSETS,)
                                                                    if ctx.tier == 'thorough' else '4 of 0..15 + one larger'))
    out = ctx.model(speclines)
    for i, ln in enumerate(speclines):
        ctx.case('spec-vs-reference')
        if out is not None and out[i] != specwant[i]:
            ctx.disagree('spec-vs-reference', {'line': ln[:2000]}, out[i][:2000], specwant[i][:2000])
    c01.check_unmarshal_batch(ctx, 'wire-decode', ubatch)


# ------------------------------------------------------------------------------------------ histories (state-leak round)
# Steps as in harness/c01.py (`enc` with the reference bytes in 'want', `dec` with the reference value in 'want') plus
#   {'op': 'msg', 'cls', 'kw': {...constructor keywords...}, 'sig', 'values' (line of the body list) | None, 'fds': 'omit' | line,
#    'want_type', 'want_flags', 'want_fields': [[code, type, value] ...], 'want_body': hex [, 'only_if_ok': true]}
#         construct a message; its rawMessage must be the DBus wire format of exactly this message: the strict reference
#         decoder reads the fixed header and the field array, re-encoding what it read reproduces the bytes, zero padding to
#         8, the body is the reference encoding, the declared body length is its length, and the header fields - compared as
#         a sorted list, so every field once, no further one, in any order - are the fields of the message.
def msg_step(st):
    from txdbus import message
    kw = dict(st['kw'])
    if st.get('sig') is not None:
        kw['signature'] = st['sig']
        kw['body'] = vc.from_line(st['values'])
    if st.get('fds', 'omit') != 'omit':
        kw['oobFDs'] = list(vc.from_line(st['fds']))
    try:
        raw = getattr(message, st['cls'])(**kw).rawMessage
    except Exception as e:     # noqa: BLE001
        if st.get('only_if_ok'):
            return None
        return ('message-encode', 'constructing a valid message raised', '%s: %s' % (c01.exc_name(e), str(e)[:120]), 'a message')
    why = message_not_wire_format(raw, st)
    if why:
        return ('message-encode', 'the bytes of a constructed message are not the wire format of that message: ' + why[0],
                'rawMessage %s; %s' % (raw.hex()[:600], why[1]), why[2])
    return None


def message_not_wire_format(raw, st):
    """None, or (what, observed, expected)."""
    global HEADER_TYS
    if HEADER_TYS is None:
        HEADER_TYS = gv.parse_sig('yyyyuua(yv)')
    if raw[:1] not in (b'l', b'B'):
        return ('byte order mark', repr(raw[:1]), "'l' or 'B'")
    le = raw[:1] == b'l'
    try:
        hdr, n = ref.decode(HEADER_TYS, raw, 0, le)
        again = ref.encode(HEADER_TYS, hdr, 0, le)
    except ref.RefError as e:
        return ('the header is not a conformant encoding of yyyyuua(yv)', str(e), 'a header')
    if again != raw[:n]:
        return ('the header is not the canonical encoding of what it holds', raw[:n].hex(), again.hex())
    padn = (8 - n % 8) % 8
    if len(raw) < n + padn or any(raw[n:n + padn]):
        return ('header padding to 8 bytes', raw[n:n + padn].hex(), '%d zero bytes' % padn)
    body = raw[n + padn:]
    _, mtype, flags, version, blen, serial, fields = hdr
    want_body = bytes.fromhex(st['want_body'])
    if body != want_body:
        return ('body bytes', body.hex()[:400], want_body.hex()[:400])
    if blen != len(body):
        return ('declared body length', str(blen), str(len(body)))
    if mtype != st['want_type'] or version != 1 or flags != st['want_flags']:
        return ('type / flags / version', repr((mtype, flags, version)), repr((st['want_type'], st['want_flags'], 1)))
    got = sorted([code, gv.render(v[1]), v[2]] for code, v in fields)
    # fields that say what their absence says are not a difference: UNIX_FDS 0, the empty SIGNATURE
    got = [f for f in got if f not in ([9, 'u', 0], [8, 'g', ''])]
    want = sorted(list(f) for f in st['want_fields'])
    if got != want:
        return ('header fields', 'fields %r' % (got,), 'fields %r' % (want,))
    return None


EXTRA_OPS = {'msg': msg_step}


def history_failure(histories):
    """See harness/c01.history_failure (this one knows the `msg` step); called by the fresh-process re-run."""
    for h, steps in enumerate(histories):
        bad, _ = c01.run_history(steps, EXTRA_OPS)
        if bad:
            bad['history'] = h
            return bad
    return None


def enc_step(tys, svs, pvs, off, le, fds='L 0', **more):
    """An `enc` step judged against the reference encoder (types written from the classes of the values, not inferred
    by txdbus)."""
    want = ref.encode(tys, svs, off, le, fd_base=0 if fds in ('omit', 'none') else len(vc.from_line(fds)))
    st = {'op': 'enc', 'sig': gv.render_all(tys), 'values': vc.to_line(pvs), 'off': off, 'le': le, 'fds': fds, 'want': want.hex()}
    st.update(more)
    return st


def dec_step(tys, svs, off, le, suffix=True):
    fds = []
    for t, x in zip(tys, svs):
        gv.collect_fds(t, x, fds)
    enc = ref.encode(tys, svs, off, le)
    expected = [gv.expected_decoded(t, x) for t, x in zip(tys, svs)]
    sig = gv.render_all(tys)
    return {'op': 'dec', 'sig': sig, 'data': (c01.PREFIX[:off] + enc + (c01.SUFFIX if suffix else b'')).hex(), 'off': off, 'le': le,
            'fds': vc.to_line(fds) if ('h' in sig or fds) else 'omit', 'want': vc.to_line(expected), 'want_n': len(enc)}


def gen_decode_history(rng):
    """G8 (iii): a reference-encoded value is decoded, then damaged encodings under the SAME signature (nothing is asked of
    them), then the first one again, the same value at another offset in the other byte order, and another value."""
    for _ in range(100):
        d = rng.choice([1, 2, 2, 3])
        tys = gv.gen_types(rng, d, 3)
        if not tys or len(gv.render_all(tys)) > 60:
            continue
        svs = [gv.gen_spec_free(rng, t, d) for t in tys]
        off, le = rng.randrange(16), rng.random() < 0.5
        first = dec_step(tys, svs, off, le)
        if len(first['want']) + len(first['data']) > 1500:
            continue
        break
    steps = [first]
    sig = first['sig']
    body = ref.encode(tys, svs, off, le)
    for _ in range(rng.choice([1, 2, 3, 5])):
        kind, bad = gv.damage(rng, body, le)
        steps.append({'op': 'dec', 'sig': sig, 'data': (c01.PREFIX[:off] + bad).hex(), 'off': off, 'le': le, 'fds': first['fds'],
                      'poison': kind})
    steps.append(dict(first))
    steps.append(dec_step(tys, svs, (off + rng.choice([1, 2, 3, 4, 5, 7])) % 16, not le))
    svs2 = [gv.gen_spec_free(rng, t, d) for t in tys]
    other = dec_step(tys, svs2, off, le, suffix=rng.random() < 0.5)
    if len(other['want']) + len(other['data']) <= 3000:
        steps.append(other)
    return 'decode-after-failed-decode', steps


MSG_NAMES = {'path': ['/org/example/Obj', '/', '/a/b'], 'member': ['Method', 'Ping', 'm_2'],
             'interface': ['org.example.Iface', 'a.b'], 'destination': ['org.example.Dest', ':1.42'],
             'error_name': ['org.example.Error.Failed', 'a.b']}


def msg_call(rng, body, with_fds, fds_mode=None):
    """A `msg` step: a MethodCallMessage with (tys, svs, pvs) or no body; descriptors only when `with_fds`."""
    kw = {'path': rng.choice(MSG_NAMES['path']), 'member': rng.choice(MSG_NAMES['member'])}
    fields = [[1, 'o', kw['path']], [3, 's', kw['member']]]
    if rng.random() < 0.5:
        kw['interface'] = rng.choice(MSG_NAMES['interface'])
        fields.append([2, 's', kw['interface']])
    if rng.random() < 0.4:
        kw['destination'] = rng.choice(MSG_NAMES['destination'])
        fields.append([6, 's', kw['destination']])
    flags = 0
    if rng.random() < 0.25:
        kw['expectReply'] = False
        flags |= 1
    if rng.random() < 0.25:
        kw['autoStart'] = False
        flags |= 2
    return _msg_finish('MethodCallMessage', 1, kw, fields, flags, body,
                       fds_mode or ('L 0' if with_fds or rng.random() < 0.5 else 'omit'))


def msg_other(rng, cls, body):
    if cls == 'SignalMessage':
        kw = {'path': rng.choice(MSG_NAMES['path']), 'member': rng.choice(MSG_NAMES['member']),
              'interface': rng.choice(MSG_NAMES['interface'])}
        fields, mtype = [[1, 'o', kw['path']], [3, 's', kw['member']], [2, 's', kw['interface']]], 4
    elif cls == 'MethodReturnMessage':
        kw = {'reply_serial': rng.choice([1, 7, 2 ** 32 - 1])}
        fields, mtype = [[5, 'u', kw['reply_serial']]], 2
    else:
        kw = {'error_name': rng.choice(MSG_NAMES['error_name']), 'reply_serial': rng.choice([1, 9, 2 ** 31])}
        fields, mtype = [[4, 's', kw['error_name']], [5, 'u', kw['reply_serial']]], 3
    if rng.random() < 0.4:
        kw['destination'] = rng.choice(MSG_NAMES['destination'])
        fields.append([6, 's', kw['destination']])
    return _msg_finish(cls, mtype, kw, fields, 0, body, 'omit')


def _msg_finish(cls, mtype, kw, fields, flags, body, fds_mode):
    st = {'op': 'msg', 'cls': cls, 'kw': kw, 'sig': None, 'values': None, 'fds': fds_mode, 'want_type': mtype,
          'want_flags': flags, 'want_body': ''}
    if body is not None:
        tys, svs, pvs = body
        fds = []
        for t, x in zip(tys, svs):
            gv.collect_fds(t, x, fds)
        base = 0 if fds_mode == 'omit' else len(vc.from_line(fds_mode))
        st.update(sig=gv.render_all(tys), values=vc.to_line(list(pvs)), want_body=ref.encode(tys, svs, 0, True, fd_base=base).hex())
        fields = fields + [[8, 'g', st['sig']]]
        if fds:
            fields = fields + [[9, 'u', base + len(fds)]]
    st['want_fields'] = sorted(fields)
    return st


def gen_body(rng, with_fds):
    for _ in range(200):
        tys = gv.gen_types(rng, rng.choice([1, 1, 2]), 3, allow_fd=with_fds)
        if with_fds and 'h' not in gv.render_all(tys):
            tys.insert(rng.randrange(len(tys) + 1), rng.choice(['h', 'h', ('a', 'h'), ('(', ('h', 's'))]))
        try:
            svs = [gv.gen_spec(rng, t, 2) for t in tys]
            pvs = [gv.to_python(rng, t, x) for t, x in zip(tys, svs)]
            fds = []
            for t, x in zip(tys, svs):
                gv.collect_fds(t, x, fds)
            if with_fds and not fds:          # an empty array of descriptors: nothing travels out of band
                continue
            if len(vc.to_line(pvs)) > 600:
                continue
            return tys, svs, pvs
        except (gv.Retry, ValueError):
            continue
    raise RuntimeError('could not generate a message body')


def gen_message_history(rng, fixed=False):
    """G10: messages of ONE class one after the other in one process - two (or more) calls that carry descriptors, then one
    that carries none, then again one with descriptors; the other three message classes in between."""
    if fixed:
        plan = ['fd', 'fd', 'plain', 'fd', 'nobody', 'fd2', 'plain', 'fdomit', 'fdomit', 'signal', 'return', 'error', 'plain']
    else:
        plan = [rng.choice(['fd', 'fd', 'fd2', 'plain', 'nobody', 'signal', 'return', 'error', 'fdomit'])
                for _ in range(rng.choice([4, 6, 8]))]
        if plan.count('fd') + plan.count('fd2') < 2:
            plan = ['fd', 'fd2'] + plan
    steps = []
    for what in plan:
        if what == 'fd':
            steps.append(msg_call(rng, gen_body(rng, True), True))
        elif what == 'fd2':           # the caller's list already holds a descriptor: UNIX_FDS counts all that accompany the message
            steps.append(msg_call(rng, gen_body(rng, True), True, 'L 1 i 100'))
        elif what == 'fdomit':        # descriptors in the body, no list given: refused today (nothing asked then); if a message
            st = msg_call(rng, gen_body(rng, True), True, 'omit')     # is built it must be that of a list that was empty
            st['only_if_ok'] = True
            steps.append(st)
        elif what == 'plain':
            steps.append(msg_call(rng, gen_body(rng, False), False))
        elif what == 'nobody':
            steps.append(msg_call(rng, None, False))
        else:
            cls = {'signal': 'SignalMessage', 'return': 'MethodReturnMessage', 'error': 'ErrorMessage'}[what]
            steps.append(msg_other(rng, cls, None if rng.random() < 0.3 else gen_body(rng, False)))
    return 'message-encode', steps


def gen_ladder_history(rng, name, seq):
    """G8 (ii): the members of a group of values that are `==` and hash alike but belong to different classes, one after
    the other in one context; the bytes of each must be the reference encoding for the type ITS class has."""
    steps = []
    for context, member, tag in seq:
        tys, svs, pvs = gv.ladder_case(context, member, tag)
        steps.append(enc_step(tys, svs, pvs, rng.randrange(16), rng.random() < 0.5, rng.choice(['L 0', 'omit', 'none'])))
    return 'ladder:' + name.split(':')[0], steps


def gen_omitted_history(rng, sig):
    """G2 for the encoder: a signature with descriptors, `oobFDs` left out.  Nothing is asked if marshal refuses (it does:
    there is no list to put the descriptor in); if it returns bytes they must be the encoding with indices from 0 - every
    time."""
    tys = gv.parse_sig(sig)
    for _ in range(50):
        try:
            svs = [gv.gen_spec(rng, t, 2) for t in tys]
            pvs = [gv.to_python(rng, t, x) for t, x in zip(tys, svs)]
            break
        except gv.Retry:
            continue
    off, le = rng.randrange(16), rng.random() < 0.5
    om = enc_step(tys, svs, pvs, off, le, 'omit', only_if_ok=True)
    return 'omitted', [dict(om), dict(om), enc_step(tys, svs, pvs, off, le, 'L 0'), dict(om),
                       enc_step(tys, svs, pvs, off, le, vc.to_line(list(c01.INITIAL_FDS))), dict(om)]


def run_histories(ctx):
    import random
    rng = random.Random(repr((ctx.seed, 'C02', 'history', ctx.widen)))
    hs = c01.Histories(ctx, 'wire-history', 'c02', EXTRA_OPS, 'C02 wire format')
    for name, seq in gv.ladders(9 if ctx.tier == 'quick' else 20, all_rotations=(ctx.tier != 'quick')):
        hs.run(*gen_ladder_history(rng, name, seq))
    for _ in range(ctx.scale(quick=80, thorough=2500)):
        hs.run(*gen_decode_history(rng))
    for sig in c01.OMITTED_SIGS:
        hs.run(*gen_omitted_history(rng, sig))
    ctx.note('wire-history: %d marshal / unmarshal calls inside histories compared with the (history-free) model' % len(hs.pairs))
    c01.check_pairs(ctx, 'wire-history', hs.pairs)
    hm = c01.Histories(ctx, 'message-encode', 'c02', EXTRA_OPS, 'C02 wire format')
    hm.run(*gen_message_history(rng, fixed=True))
    for _ in range(ctx.scale(quick=40, thorough=1000)):
        hm.run(*gen_message_history(rng))


HEADER_TYS = None


def ref_message(tys, svs, le, serial=1, nfds=0):
    """A METHOD_CALL message carrying the values, built ONLY with the reference encoder (header
    `yyyyuua(yv)` with PATH, MEMBER, SIGNATURE [, UNIX_FDS], padding to 8, body) - what another
    implementation would put on the wire."""
    global HEADER_TYS
    if HEADER_TYS is None:
        HEADER_TYS = gv.parse_sig('yyyyuua(yv)')
    body = ref.encode(tys, svs, 0, le)
    sig = gv.render_all(tys)
    fields = [[1, ('V', 'o', '/org/example/Obj')], [3, ('V', 's', 'Method')], [8, ('V', 'g', sig)]]
    if nfds:
        fields.append([9, ('V', 'u', nfds)])
    header = ref.encode(HEADER_TYS, [ord('l' if le else 'B'), 1, 0, 1, len(body), serial, fields], 0, le)
    return header + b'\0' * ((8 - len(header) % 8) % 8) + body


def message_decode_case(ctx, tys, svs):
    """C02's converse at the level the anchors name (txdbus/message.py): a spec-conformant MESSAGE from another
    implementation is parsed to the values it encodes."""
    from txdbus import message
    sig = gv.render_all(tys)
    fds = []
    for t, sv in zip(tys, svs):
        gv.collect_fds(t, sv, fds)
    expected = [gv.expected_decoded(t, sv) for t, sv in zip(tys, svs)]
    ctx.case('message-decode', sample={'sig': sig[:80], 'sig-length': len(sig)})
    ctx.stat('message:signature-length=%s' % gv._bucket(len(sig), [1, 20, 126, 253, 254, 255]))
    for le in (True, False):
        raw = ref_message(tys, svs, le, nfds=len(fds))
        ctx.impl_trace()
        try:
            m = message.parseMessage(raw, fds)
            ok = m.signature == sig and c01.py_equal(expected, m.body)
            observed = 'parsed, signature %r, body %s' % (m.signature[:40], 'equal' if ok else 'DIFFERENT')
        except Exception as e:     # noqa: BLE001
            ok, observed = False, 'parseMessage raised %s: %s' % (c01.exc_name(e), str(e)[:80])
        if not ok:
            ctx.violation('message-decode', 'a spec-conformant message is not parsed to the values it encodes',
                          inp={'message': raw.hex(), 'sig': sig, 'le': le, 'fds': vc.to_line(fds)},
                          observed=observed, expected='body == %s' % vc.to_line(expected)[:2000])


def alternative_encoding(tys, svs, got, oob, off, le):
    """Bytes other than the reference encoder's that are still THE encoding the specification defines for these
    values: the specification does not order the entries of a dict and only calls a UNIX_FD "an index into the
    out-of-band array".  Accepted iff the strict reference decoder reads the bytes back, re-encoding what it
    read (same entry order, same indices) reproduces them byte for byte, and the values - indices resolved
    through the descriptor list `marshal` returned - equal the input up to the order of dict entries."""
    try:
        dec, n = ref.decode(tys, c01.PREFIX[:off] + got, off, le)
    except Exception:     # noqa: BLE001
        return False
    if n != len(got):
        return False
    try:
        if ref.encode(tys, dec, off, le, raw_fds=True) != got:
            return False
        back = [_with_fds(t, s, oob) for t, s in zip(tys, dec)]
        return [_norm(t, s) for t, s in zip(tys, back)] == [_norm(t, s) for t, s in zip(tys, svs)]
    except Exception:                     # noqa: BLE001
        return False


def _with_fds(ty, sv, oob):
    if isinstance(ty, str):
        if ty == 'h':
            return oob[sv]
        if ty == 'v':
            return ('V', sv[1], _with_fds(sv[1], sv[2], oob))
        return sv
    if ty[0] == 'a':
        return [_with_fds(ty[1], e, oob) for e in sv]
    if ty[0] == '(':
        return [_with_fds(f, e, oob) for f, e in zip(ty[1], sv)]
    return (_with_fds(ty[1], sv[0], oob), _with_fds(ty[2], sv[1], oob))


def _norm(ty, sv):
    """Spec value with floats as bit patterns and dict entries sorted (for comparison only)."""
    import struct
    if isinstance(ty, str):
        if ty == 'd':
            return struct.pack('>d', sv).hex()
        if ty == 'v':
            return ['V', gv.render(sv[1]), _norm(sv[1], sv[2])]
        return repr(sv)
    if ty[0] == 'a':
        el = ty[1]
        xs = [_norm(el, e) for e in sv]
        if not isinstance(el, str) and el[0] == '{':
            xs.sort(key=repr)
        return xs
    if ty[0] == '(':
        return [_norm(f, e) for f, e in zip(ty[1], sv)]
    return [_norm(ty[1], sv[0]), _norm(ty[2], sv[1])]


def encode_key(r, want):
    if r[0] != 'ok':
        return 'encode-raises'
    if len(r[2]) != len(want) or r[1] != len(want):
        return 'encode-length'
    return 'encode-bytes'


def decode_key(u, enc):
    if u[0] != 'ok':
        return 'decode-raises'
    if u[1] != len(enc):
        return 'decode-length'
    return 'decode-value'


def replay(ctx, data, stream='replay'):
    c01.register()
    inp = data.get('input', data)
    if 'history' in inp or 'histories' in inp:
        c01.replay_histories(ctx, stream, inp, 'c02', EXTRA_OPS, 'C02 wire format')
        return
    if 'message' in inp:
        from txdbus import message
        raw, sig = bytes.fromhex(inp['message']), inp['sig']
        fds = vc.from_line(inp.get('fds', 'L 0'))
        ctx.case(stream, sample={'sig': sig[:80]})
        # what the strict reference decoder reads in the body (8-aligned, after the header array)
        le = inp['le']
        hdr, n = ref.decode(gv.parse_sig('yyyyuua(yv)'), raw, 0, le)
        body_at = n + (8 - n % 8) % 8
        tys = gv.parse_sig(sig)
        rsv, _ = ref.decode(tys, raw[body_at:], 0, le)
        want = [_resolve(t, gv.expected_decoded(t, s), s, list(fds)) for t, s in zip(tys, rsv)]
        try:
            m = message.parseMessage(raw, fds)
            ok = m.signature == sig and c01.py_equal(want, m.body)
            observed = 'parsed, body %s' % ('equal' if ok else 'DIFFERENT')
        except Exception as e:     # noqa: BLE001
            ok, observed = False, 'parseMessage raised %s: %s' % (c01.exc_name(e), str(e)[:80])
        if not ok:
            ctx.violation('message-decode', 'a spec-conformant message is not parsed to the values it encodes',
                          inp=inp, observed=observed, expected='body == %s' % vc.to_line(want)[:2000])
        return
    if 'data' in inp:
        sig, off, le = inp['sig'], inp['off'], inp['le']
        fds = vc.from_line(inp.get('fds', 'L 0'))
        raw = bytes.fromhex(inp['data'])
        tys = gv.parse_sig(sig)
        ctx.case(stream, sample=inp)
        u = c01.impl_unmarshal(sig, raw, off, le, fds)
        try:
            rsv, rn = ref.decode(tys, raw, off, le)
        except ref.RefError:
            return
        want = []
        idx_fds = list(fds)
        for t, s in zip(tys, rsv):
            want.append(_resolve(t, gv.expected_decoded(t, s), s, idx_fds))
        ok = u[0] == 'ok' and u[1] == rn and c01.py_equal(want, u[2])
        if not ok:
            ctx.violation(decode_key(u, b'x' * rn), 'unmarshal of a spec-conformant encoding does not return the value',
                          inp=inp, observed=c01.canon_unmarshal(u), expected='ok %d %s' % (rn, vc.to_line(want)))
        return
    if 'code' in inp:
        from txdbus import marshal as m
        code, off = inp['code'], inp['off']
        ctx.case(stream, sample=inp)
        try:
            p = m.pad[code](off)
            res = 'ok %d' % len(p)
        except Exception as e:   # noqa: BLE001
            res, p = 'err ' + c01.exc_name(e), b''
        want = ref.pad_len(code, off) if code in ref.ALIGNMENT else None
        if want is not None and (res != 'ok %d' % want or any(p)):
            ctx.violation('padding-rule', 'pad[%r](%d) is not %r zero bytes' % (code, off, want), inp=inp,
                          observed=res, expected='ok %r' % (want,))
        return
    if 'line' in inp:
        c01.replay_case(ctx, data, stream)
        return
    if 'bytes' in inp:
        replay_vector(ctx, inp, stream)
        return
    # encode direction: {'sig','values','off','le'[, 'initial_fds']}
    sig, off, le = inp['sig'], inp['off'], inp['le']
    pvs = vc.from_line(inp['values'])
    init = vc.from_line(inp['initial_fds']) if 'initial_fds' in inp else []
    tys = gv.parse_sig(sig)
    ctx.case(stream, sample=inp)
    if inp.get('fds') == 'omit':
        r = c01.call_marshal(sig, pvs, off, le, c01.OMIT)
    else:
        r = c01.impl_marshal(sig, pvs, off, le, list(init))
    svs = to_spec(tys, pvs)
    want = ref.encode(tys, svs, off, le, fd_base=len(init))
    if (r[0] != 'ok' or r[2] != want or r[1] != len(want)) and not (
            r[0] == 'ok' and r[1] == len(r[2]) and alternative_encoding(tys, svs, r[2], r[3] or [], off, le)):
        ctx.violation(encode_key(r, want), 'marshal bytes differ from the DBus wire format', inp=inp,
                      observed=c01.canon_marshal(r), expected='ok %d %s' % (len(want), vc.bytes_hex(want)))


def replay_vector(ctx, inp, stream):
    """A literal byte vector from outside this tree (the text of the DBus specification, a published capture,
    or bytes worked out by hand from the rules): {'sig','values','off','le','bytes','source'}.  Checked against
    the implementation (oracle: marshal produces the bytes, unmarshal returns the values), against the Python
    reference codec and against the Lean spec - a third source for the two transcriptions of the specification."""
    sig, off, le = inp['sig'], inp['off'], inp['le']
    pvs = vc.from_line(inp['values'])
    want = bytes.fromhex(inp['bytes'])
    tys = gv.parse_sig(sig)
    svs = to_spec(tys, pvs)
    ctx.case(stream, sample={'sig': sig, 'source': inp.get('source', '')})
    r = c01.impl_marshal(sig, pvs, off, le, [])
    if r[0] != 'ok' or r[2] != want or r[1] != len(want):
        ctx.violation(encode_key(r, want), 'marshal bytes differ from a published byte vector (%s)' % inp.get('source', ''),
                      inp=inp, observed=c01.canon_marshal(r), expected='ok %d %s' % (len(want), vc.bytes_hex(want)))
    data = c01.PREFIX[:off] + want + c01.SUFFIX
    u = c01.impl_unmarshal(sig, data, off, le, [])
    expected = c01.normalise(tys, pvs)
    if not (u[0] == 'ok' and u[1] == len(want) and c01.py_equal(expected, u[2])):
        ctx.violation(decode_key(u, want), 'unmarshal of a published byte vector does not return its values', inp=inp,
                      observed=c01.canon_unmarshal(u), expected='ok %d %s' % (len(want), vc.to_line(expected)))
    refb = ref.encode(tys, svs, off, le)
    if refb != want:
        ctx.disagree('spec-vs-reference', {'vector': inp.get('source', ''), 'sig': sig}, 'reference ' + refb.hex(), want.hex())
    out = ctx.model(['specenc %s %d %s %s' % (vc.str_hex(sig), off, 'L' if le else 'B', vc.to_line(pvs)),
                     'specdec %s %d %s %s' % (vc.str_hex(sig), off, 'L' if le else 'B', vc.bytes_hex(data))])
    if out is not None:
        if out[0] != 'ok ' + vc.bytes_hex(want):
            ctx.disagree('spec-vs-reference', {'vector': inp.get('source', ''), 'op': 'specenc'}, out[0], 'ok ' + want.hex())
        wantdec = 'ok %d %s' % (len(want), vc.to_line(expected))
        if out[1] != wantdec:
            ctx.disagree('spec-vs-reference', {'vector': inp.get('source', ''), 'op': 'specdec'}, out[1], wantdec)


def _resolve(ty, exp, sv, fds):
    """Replace descriptor indices by the objects of the list (what unmarshal returns)."""
    if isinstance(ty, str):
        if ty == 'h':
            return fds[sv] if sv < len(fds) else None
        if ty == 'v':
            return _resolve(sv[1], exp, sv[2], fds)
        return exp
    if ty[0] == 'a':
        el = ty[1]
        if not isinstance(el, str) and el[0] == '{':
            return {_resolve(el[1], k, k, fds): _resolve(el[2], gv.expected_decoded(el[2], v), v, fds) for k, v in sv}
        return [_resolve(el, gv.expected_decoded(el, e), e, fds) for e in sv]
    if ty[0] == '(':
        return [_resolve(f, gv.expected_decoded(f, e), e, fds) for f, e in zip(ty[1], sv)]
    return [_resolve(ty[1], sv[0], sv[0], fds), _resolve(ty[2], gv.expected_decoded(ty[2], sv[1]), sv[1], fds)]


def to_spec(tys, pvs):
    """Conforming Python values -> spec values (type-directed; variants through txdbus's own inference)."""
    def conv(ty, v):
        if isinstance(ty, str):
            if ty == 'v':
                from txdbus import marshal as m
                vt = gv.parse_sig(m.sigFromPy(v))[0]
                return ('V', vt, conv(vt, v))
            if ty == 'b':
                return bool(v)
            if ty in gv.INT_RANGE:
                return int(v)
            if ty in 'sog':
                return str(v)
            return v
        if ty[0] == 'a':
            el = ty[1]
            if isinstance(v, dict):
                return [(conv(el[1], k), conv(el[2], x)) for k, x in v.items()]
            return [conv(el, x) for x in v]
        fields = [getattr(v, a) for a in v.dbusOrder] if hasattr(v, 'dbusOrder') else list(v)
        if ty[0] == '(':
            return [conv(f, x) for f, x in zip(ty[1], fields)]
        return (conv(ty[1], fields[0]), conv(ty[2], fields[1]))
    return [conv(t, v) for t, v in zip(tys, pvs)]
