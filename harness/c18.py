"""C18 - name and path validators accept exactly the DBus grammar.  Correspondence + oracle harness.

Three parties judge every string: the real validators of txdbus.marshal (implementation), the
Lean code model (drv_c18, run under both extreme choices of the opaque `str.isdigit` on
non-ASCII characters) and two independent transcriptions of the DBus grammar - the Lean spec
(Valid/Grammar.lean, evaluated by the driver) and the Python checker `G` below (written here
from the DBus specification, never looking at txdbus).

  S3 correspondence   model outcome == implementation outcome (incl. the exception class);
                      Lean grammar == Python grammar
  S4 property oracle  implementation accepts  <=>  Python grammar accepts; every rejection is a
                      txdbus.error.MarshallingError; a message constructor given a name the
                      grammar rejects must raise.

Histories (streams role-history, neighbour-history; they run FIRST, on strings nobody has validated yet):
the same two judgements applied to LATER uses of one string inside one process - a string legal in one role
goes through the legal role, every illegal role (the five validators and the eleven (class, field) roles of
the four message constructors) and the legal role again, in several orders, each order on a fresh string;
strings no role accepts are presented twice to every role; 254/255/256/257 neighbours and one-element
extensions of a legal name follow each other.  The model is a pure function of the string, so every step is
compared with the same driver answer; the oracle is the grammar, step by step.  A violation found at step k
is stored with steps 0..k as its replay input.
"""
import itertools
import json
import os
import string
import subprocess
import sys
import time

STREAMS = ['validators-exhaustive', 'validators-random', 'validators-boundary',
           'grammar-lean-vs-python', 'message-constructors', 'role-history', 'neighbour-history']
THEOREMS = ['validateObjectPath_iff_grammar', 'validateInterfaceName_iff_grammar',
            'validateErrorName_iff_grammar', 'validateBusName_iff_grammar',
            'validateMemberName_iff_grammar', 'validators_reject_with_marshallingError',
            'validators_decide_grammar', 'constructed_message_names_grammatical',
            'message_construction_rejects_with_marshallingError']
TRUSTED_BASE = [
    'Python semantics mirrored by hand in Valid/Names.lean and validated only by the streams: str.startswith, '
    '`in` on str, len, indexing n[0]/n[-1], slicing n[1:], re.search of a negated class / of a two-step pattern, '
    'try/except Exception -> MarshallingError',
    'str.isdigit on non-ASCII characters is an opaque parameter of the model (theorems hold for every choice); '
    'on ASCII it is [0-9] (checked by the streams)',
    'tools/tables/c18_validators.py: regex pattern -> code-point ranges (cross-checked against the re engine on '
    'every code point at translation time)',
    'Valid/Grammar.lean: transcription of the DBus specification grammar (compared with an independent Python '
    'transcription in this harness on every case)',
]
ASSUMPTIONS = [
    'inputs are Python str without lone surrogates (Lean Char cannot hold them); bytes / None arguments are outside the property',
    'the non-name constructor arguments (signature, body, expectReply, autoStart, sender) take valid values only; '
    'sender is not in the property\'s list',
]
RULE = ('validators-exhaustive: every string up to length 4 (quick) / 6 (thorough) over one representative per '
        'character class (letter, digit, underscore, dot, hyphen, colon, slash, non-ASCII, space); random: mutated '
        'valid names, boundary lengths, non-ASCII digits.  role-history / neighbour-history: sequences of validator '
        'calls and constructor calls over one fresh string (and its neighbours) per sequence, one case = one step.  '
        'distinct = distinct (stream, string / constructor call); '
        'non-trivial = every character lies in [A-Za-z0-9_.:/-], i.e. the string is not rejected by the character '
        'class alone in every validator')

ALPHABET = ['a', '1', '_', '.', '-', ':', '/', '\u00e9', ' ']
CLASS_NAME = {'a': 'letter', '1': 'digit', '_': 'underscore', '.': 'dot', '-': 'hyphen', ':': 'colon',
              '/': 'slash', '\u00e9': 'nonascii', ' ': 'space'}
VALIDATORS = ['path', 'iface', 'error', 'bus', 'member']
FUNC = {'path': 'validateObjectPath', 'iface': 'validateInterfaceName', 'error': 'validateErrorName',
        'bus': 'validateBusName', 'member': 'validateMemberName'}
KEYNAME = {'path': 'objpath', 'iface': 'ifacename', 'error': 'errorname', 'bus': 'busname', 'member': 'membername'}

# ------------------------------------------------------------------ the grammar, from the DBus specification
_ELEM = frozenset(string.ascii_letters + string.digits + '_')
_BUSELEM = _ELEM | {'-'}
_DIGITS = frozenset(string.digits)
MAXLEN = 255


def _nbytes(s):
    return len(s.encode('utf-8', 'surrogatepass'))


def g_path(s):
    """'/' or '/'-separated non-empty elements over [A-Za-z0-9_], beginning with '/', no trailing '/'."""
    if s == '/':
        return True
    if not s.startswith('/'):
        return False
    return all(e != '' and set(e) <= _ELEM for e in s[1:].split('/'))


def g_iface(s):
    """>= 2 '.'-separated elements, each non-empty, [A-Za-z0-9_], not starting with a digit; <= 255 bytes."""
    es = s.split('.')
    return (len(es) >= 2 and all(e != '' and set(e) <= _ELEM and e[0] not in _DIGITS for e in es)
            and _nbytes(s) <= MAXLEN)


def g_bus(s):
    """unique name ':' + >= 2 non-empty elements over [A-Za-z0-9_-]; well-known name the same without ':'
    and no element starting with a digit; <= 255 bytes."""
    if _nbytes(s) > MAXLEN:
        return False
    if s.startswith(':'):
        es = s[1:].split('.')
        return len(es) >= 2 and all(e != '' and set(e) <= _BUSELEM for e in es)
    es = s.split('.')
    return len(es) >= 2 and all(e != '' and set(e) <= _BUSELEM and e[0] not in _DIGITS for e in es)


def g_member(s):
    """one element: non-empty, [A-Za-z0-9_], not starting with a digit, <= 255 bytes."""
    return s != '' and set(s) <= _ELEM and s[0] not in _DIGITS and _nbytes(s) <= MAXLEN


G = {'path': g_path, 'iface': g_iface, 'error': g_iface, 'bus': g_bus, 'member': g_member}

_UNION = frozenset(string.ascii_letters + string.digits + '_.:/-')


def nontrivial(s):
    return set(s) <= _UNION


# ------------------------------------------------------------------ observation of the real code
def canon_exc(e):
    """'MarshallingError' for txdbus.error.MarshallingError AND its subclasses (a subclass is still "a
    marshalling error"); the class name for anything else."""
    from txdbus import error
    if isinstance(e, error.MarshallingError):
        return 'MarshallingError'
    return type(e).__name__


def observe(marshal, v, s):
    try:
        getattr(marshal, FUNC[v])(s)
        return 'accept'
    except BaseException as e:
        return canon_exc(e)


def enc(s):
    return ''.join('%06x' % ord(c) for c in s) if s else '-'


def enc_opt(s):
    return '~' if s is None else enc(s)


def show(s):
    return {'s': s, 'codepoints': [ord(c) for c in s]}


# ------------------------------------------------------------------ classification of a wrong acceptance
def accept_key(v, s):
    """narrow key for 'validator v accepts s but the grammar does not'"""
    k = KEYNAME[v]
    if v in ('iface', 'error'):
        if s.endswith('.'):
            return k + '-trailing-dot'
    elif v == 'bus':
        if s.endswith('.'):
            return 'busname-trailing-dot'
        if ':' in s[1:]:
            return 'busname-inner-colon'
        if s.startswith(':') and '' in s[1:].split('.'):
            return 'busname-unique-empty-element'
    elif v == 'path':
        if s.endswith('/') and s != '/':
            return 'objpath-trailing-slash'
        if '//' in s:
            return 'objpath-empty-element'
    if v == 'path':
        elems = s[1:].split('/') if s.startswith('/') else ['']
    elif v == 'bus' and s.startswith(':'):
        elems = s[1:].split('.')
    else:
        elems = s.split('.')
    if '' in elems and s != '/':
        return k + '-empty-element'
    if _nbytes(s) > MAXLEN and v != 'path':
        return k + '-too-long'
    if any(ord(c) > 127 for c in s):
        return k + '-nonascii-accepted'
    return k + '-accepts-nongrammar'


def _viol(ctx, key, what, inp=None, observed=None, expected=None):
    """ctx.violation + remember, per key, the smallest and the first HISTORY that showed it (see settle)"""
    ctx.violation(key, what, inp=inp, observed=observed, expected=expected)
    if isinstance(inp, dict) and inp.get('kind') == 'history':
        hist = ctx.__dict__.setdefault('_c18_hist', {})
        rec = {'input': inp, 'what': what, 'observed': observed, 'expected': expected,
               'pos': ctx.__dict__.get('_c18_pos')}
        old = hist.setdefault(key, {'first': rec, 'smallest': rec})
        if len(inp['steps']) < len(old['smallest']['input']['steps']):
            old['smallest'] = rec


def oracle_validator(ctx, v, s, r, g, inp):
    """S4 for ONE validator call: the implementation alone against the grammar."""
    if r == 'accept' and not g:
        _viol(ctx, accept_key(v, s), '%s accepts %r, which the DBus grammar rejects' % (FUNC[v], s),
                      inp=inp, observed='accept', expected='MarshallingError')
    elif r != 'accept' and g:
        _viol(ctx, KEYNAME[v] + '-rejects-grammatical',
                      '%s rejects %r (%s), which the DBus grammar allows' % (FUNC[v], s, r),
                      inp=inp, observed=r, expected='accept')
    elif r not in ('accept', 'MarshallingError'):
        _viol(ctx, KEYNAME[v] + '-wrong-exception-type',
                      '%s rejects %r with %s instead of MarshallingError' % (FUNC[v], s, r),
                      inp=inp, observed=r, expected='MarshallingError')


def judge_string(ctx, marshal, stream, s, mline, order=VALIDATORS, earlier=()):
    """One string against the five validators (called in `order`): S3 and S4.  `earlier`: the validators this
    string went through before in this process (kept in the replay input: a later use may depend on them)."""
    impl = {v: observe(marshal, v, s) for v in order}
    gram = {v: G[v](s) for v in VALIDATORS}
    ctx.impl_trace(5)
    if mline is not None:
        tok = mline.split()
        if len(tok) != 15:
            ctx.disagree(stream, show(s), mline, impl, detail='driver answer malformed')
        else:
            bad, gbad = [], []
            for i, v in enumerate(VALIDATORS):
                mt, mf, mg = tok[3 * i], tok[3 * i + 1], tok[3 * i + 2]
                if mt != impl[v] or mf != impl[v]:
                    bad.append({'validator': FUNC[v], 'model_isdigitNA_true': mt, 'model_isdigitNA_false': mf,
                                'impl': impl[v]})
                if (mg == '1') != gram[v]:
                    gbad.append({'grammar': v, 'lean': mg, 'python': gram[v]})
            if bad:
                ctx.disagree(stream, dict(show(s), order=list(earlier) + list(order)), bad, impl)
            if gbad:
                ctx.disagree('grammar-lean-vs-python', show(s), gbad, gram)
    # S4: the implementation alone against the grammar
    for k, v in enumerate(order):
        inp = {'kind': 'validator', 'validator': FUNC[v], 's': s}
        calls = list(earlier) + list(order[:k])
        if calls:
            inp['calls'] = calls            # what this string went through before the judged call
        oracle_validator(ctx, v, s, impl[v], gram[v], inp)
    return impl, gram


def run_strings(ctx, marshal, stream, strings):
    strings = list(strings)
    out = ctx.model(['v ' + enc(s) for s in strings])
    again = []
    cap = 20000 if ctx.tier == 'quick' and not ctx.widen else 700000
    for i, s in enumerate(strings):
        order = list(VALIDATORS)
        ctx.rng.shuffle(order)              # the order in which the five validators see a string varies
        impl, gram = judge_string(ctx, marshal, stream, s, out[i] if out is not None else None, order)
        nt = nontrivial(s)
        ctx.case(stream, sample=s if (nt or i < 3) else None, nontrivial=nt)
        if not nt:
            ctx.stat(stream + ':trivial(char class)')
        ctx.stat('%s:len=%s' % (stream, len(s) if len(s) <= 8 else ('9-254' if len(s) < 255 else ('255' if len(s) == 255 else '256+'))))
        acc = [v for v in VALIDATORS if impl[v] == 'accept']
        ctx.stat('%s:accepted-by=%s' % (stream, '+'.join(acc) if acc else 'none'))
        if len(again) < cap:
            again.append((i, s, order))
    # second pass over EVERY string (also those all five refused: a refusal that leaves a trace - a name noted
    # before its check raised - shows on the second presentation only), validators in the opposite order: an
    # answer that depends on what was validated before is wrong on one of the two calls
    for i, s, order in again:
        judge_string(ctx, marshal, stream, s, out[i] if out is not None else None, order[::-1], earlier=order)
    ctx.stat(stream + ':second-pass', len(again))
    ctx.case('grammar-lean-vs-python', n=len(strings) if out is not None else 0)


# ------------------------------------------------------------------ generators
def exhaustive(maxlen):
    for n in range(maxlen + 1):
        for t in itertools.product(ALPHABET, repeat=n):
            yield ''.join(t)


ODD_CHARS = ['\u0663', '\u00b2', '\u2460', '\uff15', '\u0967', '\U0001d7d8',   # digits: Nd arabic-indic, No superscript two,
                                                                            # circled one, fullwidth 5, devanagari 1, math double-struck 0
             '\u00e9', '\u00df', '\u0130', '\u212a', '\u017f', '\u4e2d', '\U0001f600',  # e-acute, sharp s, dotted I, Kelvin sign and
                                                                            # long s (case-fold into ASCII), CJK, emoji
             '\x00', '\n', '\r', '\t', ' ', '\x7f', '\x80', '\xa0',
             '@', '[', '`', '{', '^', '\\', ']', '$', '*', '+', '~', '!', '"', "'", ',', ';', '<', '=', '>', '?',
             '(', ')', '&', '%', '#', '|']
ELEM_CHARS = string.ascii_letters + string.digits + '_'


def gen_element(rng, hyphen=False, digit_first=False, maxlen=8):
    n = rng.choice([1, 1, 2, 3, rng.randint(1, maxlen)])
    chars = ELEM_CHARS + ('-' if hyphen else '')
    first_pool = chars if digit_first else ''.join(c for c in chars if c not in string.digits)
    return rng.choice(first_pool) + ''.join(rng.choice(chars) for _ in range(n - 1))


def gen_valid(rng, v, maxlen=8):
    if v == 'path':
        k = rng.choice([0, 1, 1, 2, 3, 5])
        return '/' + '/'.join(gen_element(rng, digit_first=True, maxlen=maxlen) for _ in range(k))
    if v in ('iface', 'error'):
        k = rng.choice([2, 2, 3, 4, 6])
        return '.'.join(gen_element(rng, maxlen=maxlen) for _ in range(k))
    if v == 'bus':
        k = rng.choice([2, 2, 3, 4])
        if rng.random() < 0.5:
            return ':' + '.'.join(gen_element(rng, hyphen=True, digit_first=True, maxlen=maxlen) for _ in range(k))
        return '.'.join(gen_element(rng, hyphen=True, maxlen=maxlen) for _ in range(k))
    return gen_element(rng, maxlen=maxlen)


def mutate(rng, s):
    ops = rng.choice([1, 1, 1, 2, 3])
    for _ in range(ops):
        pool = rng.choice([ALPHABET, ALPHABET, list('.:/-_019aZ'), ODD_CHARS])
        ch = rng.choice(pool)
        pos = rng.choice([0, 0, len(s), len(s), rng.randint(0, len(s))]) if s else 0
        op = rng.random()
        if op < 0.45:
            s = s[:pos] + ch + s[pos:]
        elif op < 0.7 and s:
            pos = min(pos, len(s) - 1)
            s = s[:pos] + ch + s[pos + 1:]
        elif op < 0.85 and s:
            pos = min(pos, len(s) - 1)
            s = s[:pos] + s[pos + 1:]
        elif s:
            pos = min(pos, len(s) - 1)
            s = s[:pos] + s[pos] + s[pos:]          # duplicate a character ('..', '//', '::')
    return s


def gen_random(rng):
    v = rng.choice(VALIDATORS)
    r = rng.random()
    if r < 0.25:
        return gen_valid(rng, v, maxlen=rng.choice([8, 8, 40]))
    if r < 0.85:
        return mutate(rng, gen_valid(rng, v))
    if r < 0.93:      # free string over the nine classes, longer than the exhaustive bound
        return ''.join(rng.choice(ALPHABET[:7] if rng.random() < 0.8 else ALPHABET) for _ in range(rng.randint(5, 14)))
    # long
    return mutate(rng, gen_valid(rng, v, maxlen=120))


def with_length(rng, v, total):
    """a string of kind v that is grammatical except possibly for its length `total`"""
    if v == 'path':
        return '/' + 'p' * (total - 1)
    if v == 'member':
        return 'm' * total
    style = rng.choice(['two', 'many', 'unique']) if v == 'bus' else rng.choice(['two', 'many'])
    if style == 'two':
        return 'a.' + 'b' * (total - 2)
    if style == 'unique':
        return ':1.' + '2' * (total - 3)
    out = []
    left = total
    while left > 0:
        k = min(left, rng.randint(1, 9))
        if left - k == 1:       # never leave room for only a separator
            k += 1
        out.append('e' * k)
        left -= k + 1
    s = '.'.join(out)
    if len(s) < total:
        s += 'x' * (total - len(s))
    if '.' not in s:
        s = 'a.' + s[2:]
    return s[:total] if not s[:total].endswith('.') else s[:total - 1] + 'z'


def boundary_strings(rng):
    out = []
    for v in VALIDATORS:
        for total in (253, 254, 255, 256, 257, 300, 1000):
            for _ in range(3):
                s = with_length(rng, v, total)
                out.append(s)
                # the same with one defect
                out.append(s[:-1] + '.')
                out.append(s[:100] + '\u00e9' + s[101:])
    # 255 limit counted in bytes vs characters: <= 255 characters but > 255 bytes (only non-ASCII can do that)
    out += ['\u00e9' * 128, 'a.' + '\u00e9' * 127, 'a.' + '\u4e2d' * 85, 'a.' + 'b' * 200 + '\u00e9' * 30,
            ':1.' + '\u00e9' * 126, '/' + '\u00e9' * 300]
    return out


def deep_wide_strings():
    """many elements: long paths, names with 10-100 short elements and one defect near the end"""
    out = []
    for k in (10, 500, 5000):
        p = '/a' * k
        out += [p, p + '/', p + '//b', p + '/b c', p + '/.', p[1:], p + '/1']
    for k in (4, 5, 10, 30, 100):
        base = '.'.join(['a'] * k)
        out += [base, base + '.1e', base + '.e1', base + '.', base + '..a', base + '.-', base + '.-1', base + ':a',
                ':' + base, ':' + base + '.1e', ':' + base + '.', ':' + base + '..1', ':1.' + base + ':', '1' + base,
                base + '.a b', base + '._']
    return out


def digit_strings():
    digs = ['\u0663', '\u00b2', '\u2460', '\uff15', '\u0967', '\U0001d7d8', '1']
    out = []
    for d in digs:
        out += [d, d + 'a', 'a' + d, d + '.a', 'a.' + d, 'a.' + d + 'b', 'a.b' + d, d + 'a.b', ':' + d + '.a',
                ':1.' + d, '/' + d, '/a/' + d, 'a_' + d, '_' + d, d + '_', 'a.b.' + d + 'c', 'a-' + d + '.b',
                '-' + d + '.a', 'a.-' + d]
    return out


CURATED = ['a.b.c.d.1e', 'a.b.c.d.e.', ':a.b.c.d..e', 'a.b.c.d:e', '/a/b/c/d/', '/a/b/c/d//e',
           'a.0', 'a.0b', 'a.9', 'a.b.0c', ':0.9', ':0.0', 'a0.b9', '/0', '0', '9a', 'a-0.b', 'a.-0',
           '', '/', '//', '/a', '/a/', '/a//b', 'a', 'a/b', '/a/b', '/a.b', '/a-b', '/_', '/1', '/1/2', '/a b',
           'a.b', 'a.', 'a.b.', '.a', '.a.b', 'a..b', 'a.1', 'a.1b', '1.a', 'a1.b1', '_._', 'a', 'a.b.c', 'a-b.c', 'a.b-c',
           '-a.b', 'a.-b', '-.a', '-.-', ':1.2', ':1.', ':.a', ':.1', ':', ':a', ':a.b', '::a.b', 'a:b.c', ':a:b.c', ':1.2:3',
           ':a..b', ':a.b.', 'a.:b', ':-.-', ':1', ':.', '.', '..', ':..', '1', '_', '-', 'a-b', 'a.b\n', 'a.b\x00', '\na.b',
           'org.freedesktop.DBus', '/org/freedesktop/DBus', '/org/freedesktop/DBus/Local', 'org.freedesktop.DBus.Local',
           'org.freedesktop.DBus.Error.Failed', ':1.42', 'GetAll', 'Hello', 'a.B', 'A.b', 'a.b c', ' a.b', 'a .b']


# ------------------------------------------------------------------ message constructors
FIELDS = {
    'MethodCallMessage': ['path', 'member', 'interface', 'destination'],
    'MethodReturnMessage': ['destination'],
    'ErrorMessage': ['error_name', 'destination'],
    'SignalMessage': ['path', 'member', 'interface', 'destination'],
}
FIELD_KIND = {'path': 'path', 'member': 'member', 'interface': 'iface', 'destination': 'bus', 'error_name': 'error'}
DEFAULTS = {
    'MethodCallMessage': {'path': '/a', 'member': 'm', 'interface': None, 'destination': None},
    'MethodReturnMessage': {'destination': None},
    'ErrorMessage': {'error_name': 'a.b', 'destination': None},
    'SignalMessage': {'path': '/a', 'member': 'm', 'interface': 'a.b', 'destination': None},
}
OPTIONAL = {('MethodCallMessage', 'interface'), ('MethodCallMessage', 'destination'),
            ('MethodReturnMessage', 'destination'), ('ErrorMessage', 'destination'), ('SignalMessage', 'destination')}


NO_EXTRA = {'signature': None, 'body': None, 'expectReply': True, 'autoStart': True, 'sender': None}
EXTRAS = [
    {},
    {'signature': 's', 'body': ['x']},
    {'signature': 'ii', 'body': [1, 2]},
    {'signature': 'as', 'body': [['a', 'b']]},
    {'expectReply': False},
    {'autoStart': False},
    {'expectReply': False, 'autoStart': False, 'signature': 's', 'body': ['']},
    {'sender': ':1.5'},
    {'sender': 'not a bus name', 'signature': 'o', 'body': ['/x']},
]


def construct(message, cls, args, extra=None):
    """returns ('accept', msg) or (canonical exception name, None).  `extra`: the non-name arguments
    (always valid values: the outcome must depend on the names only)."""
    x = dict(NO_EXTRA)
    x.update(extra or {})
    try:
        if cls == 'MethodCallMessage':
            m = message.MethodCallMessage(args['path'], args['member'], interface=args['interface'],
                                          destination=args['destination'], signature=x['signature'], body=x['body'],
                                          expectReply=x['expectReply'], autoStart=x['autoStart'])
        elif cls == 'MethodReturnMessage':
            m = message.MethodReturnMessage(1, body=x['body'], destination=args['destination'],
                                            signature=x['signature'])
        elif cls == 'ErrorMessage':
            m = message.ErrorMessage(args['error_name'], 1, destination=args['destination'],
                                     signature=x['signature'], body=x['body'], sender=x['sender'])
        else:
            m = message.SignalMessage(args['path'], args['member'], args['interface'],
                                      destination=args['destination'], signature=x['signature'], body=x['body'])
        return 'accept', m
    except BaseException as e:
        return canon_exc(e), None


HCODE = {1: 'path', 2: 'interface', 3: 'member', 4: 'error_name', 6: 'destination'}      # 7 = sender: not in the property


def carried_names(message, m):
    """The names a constructed message CARRIES: header fields of the marshalled message (re-parsed from
    rawMessage; the header list built by _marshal as a fallback).  -> list of (field, value)"""
    try:
        p = message.parseMessage(m.rawMessage, [])
        return [(f, getattr(p, f)) for f in HCODE.values() if isinstance(getattr(p, f, None), str)]
    except BaseException:
        pass
    out = []
    for h in getattr(m, 'headers', None) or []:
        if h[0] in HCODE and isinstance(h[1], str):
            out.append((HCODE[h[0]], str(h[1])))
    return out


def msg_line(cls, a):
    if cls == 'MethodCallMessage':
        return 'call %s %s %s %s' % (enc(a['path']), enc(a['member']), enc_opt(a['interface']), enc_opt(a['destination']))
    if cls == 'MethodReturnMessage':
        return 'ret %s' % enc_opt(a['destination'])
    if cls == 'ErrorMessage':
        return 'err %s %s' % (enc(a['error_name']), enc_opt(a['destination']))
    return 'sig %s %s %s %s' % (enc(a['path']), enc(a['member']), enc(a['interface']), enc_opt(a['destination']))


def judge_message(ctx, marshal, message, cls, args, mline, extra=None, stream='message-constructors', inp=None,
                  flav=None):
    """`inp`: the replay input when the call is a step of a history (then the whole history up to this step);
    `flav`: {field: 'ObjectPath' | 'Signature' | 'sub'} - the argument is passed as an instance of that str subclass."""
    real = args
    if flav:
        real = {f: (flavoured(marshal, x, flav.get(f)) if x is not None else None) for f, x in args.items()}
    r, m = construct(message, cls, real, extra)
    ctx.impl_trace()
    if inp is None:
        inp = {'kind': 'message', 'cls': cls, 'args': args}
        if extra:
            inp['extra'] = extra
        if flav:
            inp['as'] = flav
    if mline is not None:
        tok = mline.split()
        if len(tok) != 2 or tok[0] != r or tok[1] != r:
            ctx.disagree(stream, inp, mline, r)
    if r == 'accept':
        # S4, from the property text: a message that exists must not CARRY a name outside the grammar.
        # Judged on what the marshalled message holds, not on the argument list: a constructor that drops
        # or normalises an argument (e.g. '' -> None, field not emitted) does not violate the statement.
        carried = carried_names(message, m)
        for f, val in carried:
            kind = FIELD_KIND[f]
            if G[kind](val):
                continue
            vres = observe(marshal, kind, val)
            if val == '' and f in ('interface', 'destination'):
                key = 'empty-name-constructible'
            elif vres == 'accept':
                key = accept_key(kind, val)          # the validator's own defect, seen through the constructor
            else:
                key = 'message-%s-not-validated' % f
            _viol(ctx, key, '%s constructed and carries %s=%r, which the DBus grammar rejects (validator alone: %s)'
                          % (cls, f, val, vres), inp=inp, observed='constructed', expected='MarshallingError')
        have = dict(carried)
        for f in FIELDS[cls]:
            if args.get(f) is not None and have.get(f) != args[f]:
                ctx.stat('message:argument-not-carried:%s' % f)
    ctx.stat('%s:%s:%s' % ('message' if stream == 'message-constructors' else stream, cls, r))
    return r


def message_cases(ctx, pool):
    cases = []
    # one field at a time, everything else valid
    for s in pool:
        for cls, fields in FIELDS.items():
            for f in fields:
                a = dict(DEFAULTS[cls])
                a[f] = s
                cases.append((cls, a, None))
    # several fields at once (order of checks, first failure wins)
    rng = ctx.rng
    # the non-name arguments vary (valid values only): validation must not depend on them
    probes = [s for s in CURATED if len(s) <= 8] + ['/a' * 40, '/a' * 40 + '/', '.'.join(['a'] * 12) + '.1e']
    for x in EXTRAS[1:]:
        for s in probes:
            for cls, fields in FIELDS.items():
                for f in fields:
                    a = dict(DEFAULTS[cls])
                    a[f] = s
                    cases.append((cls, a, x))
    n = ctx.scale(quick=1500, thorough=30000)
    small = [s for s in pool if len(s) <= 6]
    for _ in range(n):
        cls = rng.choice(list(FIELDS))
        a = {}
        for f in FIELDS[cls]:
            r = rng.random()
            if (cls, f) in OPTIONAL and r < 0.25:
                a[f] = None
            elif r < 0.6:
                a[f] = gen_valid(rng, FIELD_KIND[f])
            elif r < 0.8:
                a[f] = mutate(rng, gen_valid(rng, FIELD_KIND[f]))
            else:
                a[f] = rng.choice(small)
        cases.append((cls, a, rng.choice(EXTRAS) or None))
    return cases


def run_messages(ctx, marshal, message, cases):
    out = ctx.model([msg_line(cls, a) for cls, a, x in cases])
    for i, (cls, a, x) in enumerate(cases):
        judge_message(ctx, marshal, message, cls, a, out[i] if out is not None else None, x)
        nt = all(v is None or nontrivial(v) for v in a.values())
        ctx.case('message-constructors', sample={'cls': cls, 'args': a, 'extra': x} if nt else None, nontrivial=nt)
        ctx.stat('message:extra=%s' % ('+'.join(sorted(x)) if x else 'defaults'))


def probe_none_path(ctx, message):
    """Observed, not judged (C03's required-field matter, no name is carried): path=None."""
    for cls, mk in (('MethodCallMessage', lambda: message.MethodCallMessage(None, 'm')),
                    ('SignalMessage', lambda: message.SignalMessage(None, 'm', 'a.b'))):
        try:
            m = mk()
            r = 'constructs, header codes %s' % sorted(h[0] for h in m.headers)
        except BaseException as e:
            r = canon_exc(e)
        ctx.note('observed-not-flagged: %s(path=None) -> %s' % (cls, r))


# ------------------------------------------------------------------ histories: LATER uses of one string in one process
class _Sub(str):
    """a str subclass that overrides nothing (like marshal.ObjectPath / marshal.Signature)"""


FLAVOURS = ['ObjectPath', 'Signature', 'sub']


def flavoured(marshal, s, fl):
    """the string `s` as an instance of a plain str subclass (equal to s, same hash, another class)"""
    if not fl:
        return s
    if fl == 'sub':
        return _Sub(s)
    return getattr(marshal, fl)(s)


_TOKENS = itertools.count()


def fresh():
    """a name element nobody has used before in this process (a letter, then digits)"""
    return 'h%d' % next(_TOKENS)


# one string per family and token; which roles accept it is computed from the grammar G, never listed here
FAMILIES = [
    ('member', lambda t: 'M' + t),
    ('member-underscore', lambda t: '_' + t + '_9'),
    ('dotted', lambda t: 'a.' + t),
    ('dotted-deep', lambda t: 'org.' + t + '.C_9'),
    ('bus-hyphen', lambda t: 'a-' + t + '.b'),
    ('bus-hyphen-first', lambda t: '-' + t + '.-'),
    ('bus-unique', lambda t: ':1.' + t),
    ('bus-unique-digits', lambda t: ':' + t + '.42'),
    ('path', lambda t: '/a/' + t),
    ('path-digit-element', lambda t: '/1/' + t),
    ('path-one-element', lambda t: '/' + t),
    ('rejected-double-dot', lambda t: 'a..' + t),
    ('rejected-trailing-dot', lambda t: 'a.' + t + '.'),
    ('rejected-space', lambda t: 'a.' + t + ' x'),
    ('rejected-digit-first', lambda t: '1' + t + '.a'),
    ('rejected-dot-digit-hyphen', lambda t: 'a-' + t + '.1b'),
    ('rejected-unique-one-element', lambda t: ':' + t),
    ('rejected-unique-empty-element', lambda t: ':.' + t),
    ('rejected-inner-colon', lambda t: 'a:' + t + '.b'),
    ('rejected-trailing-slash', lambda t: '/' + t + '/'),
    ('rejected-double-slash', lambda t: '/a//' + t),
    ('rejected-hyphen-one-element', lambda t: t + '-'),
    ('rejected-nonascii', lambda t: 'a.' + t + 'é'),
]
CTOR_ROLES = [(cls, f) for cls, fields in FIELDS.items() for f in fields]      # the eleven (class, field) roles


def legal(s):
    return [v for v in VALIDATORS if G[v](s)]


def vstep(role, s, fl=None):
    st = {'do': 'v', 'role': role, 's': s}
    if fl:
        st['as'] = fl
    return st


def mstep(cls, fields, s, extra=None, fl=None):
    """constructor call with `s` in the given field(s), everything else valid"""
    a = dict(DEFAULTS[cls])
    for f in ([fields] if isinstance(fields, str) else fields):
        a[f] = s
    st = {'do': 'm', 'cls': cls, 'args': a}
    if extra:
        st['extra'] = extra
    if fl:
        st['as'] = {f: cfl(f, fl) for f in ([fields] if isinstance(fields, str) else fields)}
    return st


def cfl(f, fl):
    """the str subclass a constructor argument is passed as: the header fields travel as variants whose type is
    inferred from the argument's class, so ObjectPath / Signature instances in a name field change the header
    type (C03's matter) - only the path may be an ObjectPath, everything else a plain subclass"""
    if not fl:
        return None
    return 'ObjectPath' if (fl == 'ObjectPath' and f == 'path') else 'sub'


def croles(kinds):
    return [(c, f) for c, f in CTOR_ROLES if FIELD_KIND[f] in kinds]


def role_histories():
    """Deterministic role rotations; every history works on a string of its own."""
    out = []

    def add(shape, fam, steps):
        out.append({'shape': shape, 'family': fam, 'steps': steps})

    for fam, mk in FAMILIES:
        L = legal(mk('h'))
        I = [v for v in VALIDATORS if v not in L]
        CL, CI = croles(L), croles(I)
        s = mk(fresh())
        add('legal-illegal-legal', fam, [vstep(v, s) for v in L + I + L + I])
        s = mk(fresh())
        add('illegal-legal-illegal', fam, [vstep(v, s) for v in I + L + I + L])
        for k in range(len(VALIDATORS)):
            s = mk(fresh())
            order = VALIDATORS[k:] + VALIDATORS[:k]
            add('rotation', fam, [vstep(v, s) for v in order + order])
        s = mk(fresh())
        add('ctor-legal-first', fam, [mstep(c, f, s) for c, f in CL + CI + CL + CI] + [vstep(v, s) for v in VALIDATORS])
        s = mk(fresh())
        add('ctor-illegal-first', fam, [mstep(c, f, s) for c, f in CI + CL + CI + CL] + [vstep(v, s) for v in VALIDATORS])
        s = mk(fresh())
        add('validator-then-ctor', fam, [vstep(v, s) for v in L] + [mstep(c, f, s) for c, f in CI + CL]
            + [vstep(v, s) for v in I] + [mstep(c, f, s) for c, f in CI + CL])
        s = mk(fresh())
        add('illegal-validator-then-ctor', fam, [vstep(v, s) for v in I] + [mstep(c, f, s) for c, f in CL + CI]
            + [vstep(v, s) for v in L] + [mstep(c, f, s) for c, f in CL + CI])
        for k, (c, f) in enumerate(CTOR_ROLES):
            s = mk(fresh())
            rest = CTOR_ROLES[k + 1:] + CTOR_ROLES[:k]
            x = EXTRAS[k % len(EXTRAS)] or None
            add('ctor-rotation', fam, [mstep(c, f, s, x)] + [mstep(c2, f2, s, x) for c2, f2 in rest] + [mstep(c, f, s)])
        for cls, fields in FIELDS.items():          # ONE call carrying the string in two fields
            for f1, f2 in itertools.combinations(fields, 2):
                s = mk(fresh())
                add('one-call-two-fields', fam, [mstep(cls, [f1, f2], s)] + [vstep(v, s) for v in VALIDATORS]
                    + [mstep(cls, [f1, f2], s)])
        for fl in FLAVOURS:
            s = mk(fresh())
            add('subclass-first', fam, [vstep(v, s, fl) for v in VALIDATORS] + [vstep(v, s) for v in VALIDATORS]
                + [mstep(c, f, s, fl=fl) for c, f in CTOR_ROLES] + [mstep(c, f, s) for c, f in CTOR_ROLES])
            s = mk(fresh())
            add('subclass-later', fam, [vstep(v, s) for v in VALIDATORS] + [vstep(v, s, fl) for v in VALIDATORS]
                + [mstep(c, f, s) for c, f in CTOR_ROLES] + [mstep(c, f, s, fl=fl) for c, f in CTOR_ROLES])
    return out


STYLES = {'path': ['one'], 'member': ['one'], 'iface': ['two', 'many'], 'error': ['two', 'many'],
          'bus': ['two', 'many', 'unique']}
INTEREST = {'path': ['path'], 'member': ['member'], 'iface': ['iface', 'error', 'bus'],
            'error': ['iface', 'error', 'bus'], 'bus': ['iface', 'error', 'bus']}


def sized(v, style, t, total):
    """a string of kind v, grammatical except possibly for its length `total`, that contains the fresh element
    t; for one (v, style, t) the strings of different lengths are prefixes of each other (up to the last character)"""
    if v == 'path':
        return '/' + t + 'p' * (total - 1 - len(t))
    if v == 'member':
        return t + 'm' * (total - len(t))
    if style == 'two':
        return t + '.' + 'b' * (total - len(t) - 1)
    if style == 'unique':
        return ':1.' + t + '2' * (total - 3 - len(t))
    n = total - len(t) - 1
    fill = ('ee.' * (n // 3 + 1))[:n]
    if fill.endswith('.'):
        fill = fill[:-1] + 'z'
    return t + '.' + fill


def present(v, s, k):
    """one string before all five validators (starting with the k-th) and the constructor roles of its kind"""
    order = VALIDATORS[k % 5:] + VALIDATORS[:k % 5]
    return [vstep(r, s) for r in order] + [mstep(c, f, s) for c, f in croles(INTEREST[v])]


def neighbour_histories():
    out = []

    def add(shape, fam, steps):
        out.append({'shape': shape, 'family': fam, 'steps': steps})

    for v in VALIDATORS:
        for style in STYLES[v]:
            fam = '%s/%s' % (v, style)
            for shape, lens in (('255-256-255', [255, 256, 255, 257, 254, 256, 255]),
                                ('256-255-256', [256, 255, 256, 254, 257, 255, 256]),
                                ('grow-and-shrink', [253, 254, 255, 256, 257, 256, 255, 254])):
                t = fresh()
                steps = []
                for k, n in enumerate(lens):
                    steps += present(v, sized(v, style, t, n), k)
                add(shape, fam, steps)
            if v not in ('path', 'member'):          # 253 + one more element: 255 legal, 256 not
                t = fresh()
                b = sized(v, style, t, 253)
                steps = []
                for k, s in enumerate([b, b + '.c', b + '.cd', b + '.c', b + 'cd', b + 'cde', b + '.c.', b + '.1', b]):
                    steps += present(v, s, k)
                add('extend-by-an-element', fam, steps)
    # short names and their one-edit / one-element extensions, legal and illegal ones following each other
    t = fresh()
    s0 = t + '.b'
    chains = [('iface', [s0, s0 + '.c', s0 + '.1c', s0 + '.', s0 + '..c', s0 + 'c', s0 + '-c', s0 + '.c-d', s0 + ':c',
                         s0 + ' ', s0[:-1], s0[:-2], '1' + s0, ':' + s0, s0 + '.c', s0])]
    t = fresh()
    s0 = ':1.' + t
    chains.append(('bus', [s0, s0 + '.5', s0 + '.', s0 + '..5', s0 + ':5', s0[1:], s0 + '-', ':' + s0, s0 + '.5', s0]))
    t = fresh()
    s0 = '/' + t + '/b'
    chains.append(('path', [s0, s0 + '/c', s0 + '/', s0 + '//c', s0 + '/1', s0 + '.c', s0 + '-', s0 + ' ', s0[1:],
                            s0 + '/c', s0]))
    t = fresh()
    chains.append(('member', [t, t + 'x', t + '.x', t + '-', t + '1', '1' + t, t + ' ', '', t + 'x', t]))
    for v, chain in chains:
        steps = []
        for k, s in enumerate(chain):
            steps += present(v, s, k)
        add('short-extensions', v, steps)
    return out


def random_history(rng):
    pool = []
    for _ in range(rng.choice([1, 2, 2, 3])):
        fam, mk = rng.choice(FAMILIES)
        s = mk(fresh())
        pool.append(s)
        if rng.random() < 0.5:
            pool.append(mutate(rng, s))
    pool = _dedup(pool) or ['a.' + fresh()]
    steps = []
    for _ in range(rng.randint(8, 30)):
        s = rng.choice(pool)
        r = rng.random()
        if r < 0.45:
            steps.append(vstep(rng.choice(VALIDATORS), s, rng.choice([None] * 6 + FLAVOURS)))
        elif r < 0.85:
            c, f = rng.choice(CTOR_ROLES)
            steps.append(mstep(c, f, s, rng.choice(EXTRAS) or None, rng.choice([None] * 6 + FLAVOURS)))
        else:
            cls = rng.choice(list(FIELDS))
            a = {}
            for f in FIELDS[cls]:
                q = rng.random()
                a[f] = (None if ((cls, f) in OPTIONAL and q < 0.2) else
                        rng.choice(pool) if q < 0.6 else DEFAULTS[cls][f])
            st = {'do': 'm', 'cls': cls, 'args': a}
            x = rng.choice(EXTRAS)
            if x:
                st['extra'] = x
            steps.append(st)
    return {'shape': 'random', 'family': 'random', 'steps': steps}


def step_line(st):
    return 'v ' + enc(st['s']) if st['do'] == 'v' else msg_line(st['cls'], st['args'])


def judge_step(ctx, marshal, message, stream, st, mline, inp):
    if st['do'] == 'v':
        v, s = st['role'], st['s']
        r = observe(marshal, v, flavoured(marshal, s, st.get('as')))
        ctx.impl_trace()
        g = G[v](s)
        if mline is not None:
            tok = mline.split()
            i = VALIDATORS.index(v)
            if len(tok) != 15:
                ctx.disagree(stream, inp, mline, r, detail='driver answer malformed')
            else:
                if tok[3 * i] != r or tok[3 * i + 1] != r:
                    ctx.disagree(stream, inp, {'validator': FUNC[v], 'model_isdigitNA_true': tok[3 * i],
                                               'model_isdigitNA_false': tok[3 * i + 1]}, r)
                if (tok[3 * i + 2] == '1') != g:
                    ctx.disagree('grammar-lean-vs-python', show(s), {'grammar': v, 'lean': tok[3 * i + 2]}, g)
        oracle_validator(ctx, v, s, r, g, inp)
        ctx.stat('%s:%s:%s' % (stream, FUNC[v], 'accept' if r == 'accept' else 'reject'))
        return r
    return judge_message(ctx, marshal, message, st['cls'], st['args'], mline, st.get('extra'), stream=stream,
                         inp=inp, flav=st.get('as'))


def run_histories(ctx, marshal, message, stream, hists):
    """Every step: S3 against the driver's answer for that call alone (the model has no memory) and S4 against
    the grammar.  The replay input of a step is the history up to and including it."""
    lines = list(dict.fromkeys(step_line(st) for h in hists for st in h['steps']))
    out = ctx.model(lines)
    mget = dict(zip(lines, out)) if out is not None else {}
    seen = set()
    log = ctx.__dict__.setdefault('_c18_log', [])
    for h in hists:
        steps = h['steps']
        log.append(steps)
        for k, st in enumerate(steps):
            ctx.__dict__['_c18_pos'] = (len(log) - 1, k)
            judge_step(ctx, marshal, message, stream, st, mget.get(step_line(st)),
                       {'kind': 'history', 'steps': steps[:k + 1]})
            names = [st['s']] if st['do'] == 'v' else [x for x in st['args'].values() if x is not None]
            later = any(x in seen for x in names)
            seen.update(names)
            ctx.case(stream, sample=st, nontrivial=all(nontrivial(x) for x in names))
            ctx.stat('%s:%s-use' % (stream, 'later' if later else 'first'))
        ctx.stat('%s:shape=%s' % (stream, h['shape']))
        ctx.stat('%s:histories' % stream)


def _reproduces(ctx, inp, key):
    """Does a FRESH process report `key` on this replay input alone?  (Only called for reported violations.)"""
    verif = os.path.dirname(os.path.dirname(os.path.abspath(__file__)))
    code = ('import sys, json\n'
            'sys.path.insert(0, %r)\n'
            'from vlib import ctx as C\n'
            'C.use_repo(%r)\n'
            'import harness.c18 as h\n'
            'c = C.Ctx("C18", "quick", 0, %r)\n'
            'c.model_available = False\n'
            'h.replay(c, {"input": json.loads(sys.stdin.read())})\n'
            'print("KEYS " + json.dumps([v["key"] for v in c.violations]))\n') % (verif, ctx.repo, ctx.repo)
    try:
        p = subprocess.run([sys.executable, '-c', code], input=json.dumps(inp).encode('utf-8'),
                           stdout=subprocess.PIPE, stderr=subprocess.PIPE, timeout=30)
        for ln in p.stdout.decode('utf-8', 'replace').splitlines():
            if ln.startswith('KEYS '):
                return key in json.loads(ln[5:])
    except Exception:
        pass
    return True             # could not tell: leave the exemplar as it is


def settle(ctx):
    """ctx.violation keeps the SMALLEST input per key, and a single call is smaller than a history.  A defect
    that needs an earlier call does not show when that input is replayed in a fresh process.  For every key that
    was seen inside a history: try the exemplar in a fresh process; when it does not reproduce fall back to the
    smallest history that showed it (steps 0..k), the first one, then that one preceded by the histories that ran
    before it in this process (a leak may cross histories; the latest sufficient start is found by bisection) -
    the first candidate that reproduces in a fresh process becomes the replay input."""
    hist = getattr(ctx, '_c18_hist', {})
    log = getattr(ctx, '_c18_log', [])
    deadline = time.time() + 40                 # fresh processes cost time: only in runs that report something

    def fresh_run(inp, key):
        if time.time() > deadline:
            ctx.stat('settle:out-of-time')
            return False
        return _reproduces(ctx, inp, key)

    for v in ctx.violations:
        rec = hist.get(v['key'])
        if rec is None or time.time() > deadline or fresh_run(v['input'], v['key']):
            continue
        cands = [rec['smallest']] + ([rec['first']] if rec['first'] is not rec['smallest'] else [])
        pos = rec['first'].get('pos')

        def combined(lo):
            hi, k = pos
            steps = [st for h in log[lo:hi] for st in h] + log[hi][:k + 1]
            return dict(rec['first'], input={'kind': 'history', 'steps': steps})

        chosen = None
        for c in cands:
            if c['input'] is not v['input'] and fresh_run(c['input'], v['key']):
                chosen = c
                break
        if chosen is None and pos and pos[0] > 0 and fresh_run(combined(0)['input'], v['key']):
            lo, hi = 0, pos[0]              # the latest start from which the histories still lead to the failure
            while hi - lo > 1:
                mid = (lo + hi) // 2
                if fresh_run(combined(mid)['input'], v['key']):
                    lo = mid
                else:
                    hi = mid
            chosen = combined(lo)
            both = dict(rec['first'], input={'kind': 'history', 'steps': log[lo] + log[pos[0]][:pos[1] + 1]})
            if fresh_run(both['input'], v['key']):          # the history that starts it + the one that fails
                chosen = both
        if chosen is None:
            ctx.stat('exemplar-not-reproducible-in-a-fresh-process')
            continue
        v.update(input=chosen['input'], observed=chosen['observed'], expected=chosen['expected'],
                 what=chosen['what'] + ' - at the last step of the stored history (the call alone, in a fresh '
                                       'process, does not show it)')
        ctx.stat('exemplar-replaced-by-history')


# ------------------------------------------------------------------ entry points
def _dedup(seq):
    seen, out = set(), []
    for s in seq:
        if s not in seen and not any(0xD800 <= ord(c) <= 0xDFFF for c in s):
            seen.add(s)
            out.append(s)
    return out


def run(ctx):
    from txdbus import marshal, message

    # past failures first
    cstr, cmsg, chist = [], [], []
    for name, case in ctx.corpus():
        inp = case.get('input', case)
        if inp.get('kind') == 'history':
            chist.append({'shape': 'corpus', 'family': name, 'steps': inp['steps']})
        elif inp.get('kind') == 'message':
            cmsg.append((inp['cls'], inp['args'], inp.get('extra')))
        else:
            cstr.append(inp['s'])
    if chist:
        run_histories(ctx, marshal, message, 'role-history', chist)

    # histories before anything else has been validated in this process: later uses of fresh strings
    n = ctx.scale(quick=150, thorough=4000)
    run_histories(ctx, marshal, message, 'role-history', role_histories() + [random_history(ctx.rng) for _ in range(n)])
    run_histories(ctx, marshal, message, 'neighbour-history', neighbour_histories())

    if cstr:
        run_strings(ctx, marshal, 'validators-boundary', _dedup(cstr))
    if cmsg:
        run_messages(ctx, marshal, message, cmsg)

    # curated corner cases, boundary lengths, non-ASCII digits
    run_strings(ctx, marshal, 'validators-boundary',
                _dedup(CURATED + digit_strings() + deep_wide_strings() + boundary_strings(ctx.rng)))

    # bounded-exhaustive over the nine character classes
    if ctx.tier == 'thorough':
        maxlen = 6
    else:
        maxlen = 5 if ctx.widen else 4
    run_strings(ctx, marshal, 'validators-exhaustive', exhaustive(maxlen))
    ctx.stat('exhaustive-maxlen', maxlen)
    ctx.exhaustive = True       # the finite space "all strings up to maxlen over the nine classes" was enumerated completely

    # random longer strings
    n = ctx.scale(quick=6000, thorough=120000)
    run_strings(ctx, marshal, 'validators-random', _dedup(gen_random(ctx.rng) for _ in range(n)))

    # message constructors: names drawn from the same enumeration
    mlen = 4 if ctx.tier == 'thorough' else (3 if not ctx.widen else 4)
    pool = _dedup(list(exhaustive(mlen)) + CURATED + digit_strings()
                  + [with_length(ctx.rng, v, t) for v in VALIDATORS for t in (255, 256)])
    run_messages(ctx, marshal, message, message_cases(ctx, pool))
    probe_none_path(ctx, message)
    settle(ctx)


def replay(ctx, data):
    from txdbus import marshal, message
    inp = data.get('input', data)
    if inp.get('kind') == 'history':
        run_histories(ctx, marshal, message, 'role-history', [{'shape': 'replay', 'family': 'replay', 'steps': inp['steps']}])
    elif inp.get('kind') == 'message':
        line = msg_line(inp['cls'], inp['args'])
        out = ctx.model([line])
        judge_message(ctx, marshal, message, inp['cls'], inp['args'], out[0] if out else None, inp.get('extra'),
                      flav=inp.get('as'))
    else:
        s = inp['s']
        out = ctx.model(['v ' + enc(s)])
        calls = [k for k in inp.get('calls', []) if k in VALIDATORS]
        for k in calls:                      # what the string went through before the judged call
            observe(marshal, k, s)
        first = [v for v in VALIDATORS if FUNC[v] == inp.get('validator')]
        order = first + [v for v in VALIDATORS if v not in first]
        judge_string(ctx, marshal, 'validators-boundary', s, out[0] if out else None, order, earlier=calls)
