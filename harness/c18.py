"""C18 - name and path validators accept exactly the DBus grammar.  Correspondence + oracle harness.

Three parties judge every string: the real validators of txdbus.marshal (implementation), the
Lean code model (drv_c18, run under both extreme choices of the opaque `str.isdigit` on
non-ASCII characters) and two independent transcriptions of the DBus grammar - the Lean spec
(Valid/Grammar.lean, evaluated by the driver) and the Python checker `G` below (written here
from the DBus specification, never looking at txdbus).

  S3 correspondence   model outcome == implementation outcome (incl. the exception class);
                      Lean grammar == Python grammar
  S4 property oracle  implementation accepts  <=>  Python grammar accepts; every rejection is a
                      txdbus.error.MarshallingError; a message constructor given a name the
                      grammar rejects must raise.
"""
import itertools
import string

STREAMS = ['validators-exhaustive', 'validators-random', 'validators-boundary',
           'grammar-lean-vs-python', 'message-constructors']
THEOREMS = ['validateObjectPath_iff_grammar', 'validateInterfaceName_iff_grammar',
            'validateErrorName_iff_grammar', 'validateBusName_iff_grammar',
            'validateMemberName_iff_grammar', 'validators_reject_with_marshallingError',
            'validators_decide_grammar', 'constructed_message_names_grammatical',
            'message_construction_rejects_with_marshallingError']
TRUSTED_BASE = [
    'Python semantics mirrored by hand in Valid/Names.lean and validated only by the streams: str.startswith, '
    '`in` on str, len, indexing n[0]/n[-1], slicing n[1:], re.search of a negated class / of a two-step pattern, '
    'try/except Exception -> MarshallingError',
    'str.isdigit on non-ASCII characters is an opaque parameter of the model (theorems hold for every choice); '
    'on ASCII it is [0-9] (checked by the streams)',
    'tools/tables/c18_validators.py: regex pattern -> code-point ranges (cross-checked against the re engine on '
    'every code point at translation time)',
    'Valid/Grammar.lean: transcription of the DBus specification grammar (compared with an independent Python '
    'transcription in this harness on every case)',
]
ASSUMPTIONS = [
    'inputs are Python str without lone surrogates (Lean Char cannot hold them); bytes / None arguments are outside the property',
    'the non-name constructor arguments (signature, body, expectReply, autoStart, sender) take valid values only; '
    'sender is not in the property\'s list',
]
RULE = ('validators-exhaustive: every string up to length 4 (quick) / 6 (thorough) over one representative per '
        'character class (letter, digit, underscore, dot, hyphen, colon, slash, non-ASCII, space); random: mutated '
        'valid names, boundary lengths, non-ASCII digits.  distinct = distinct (stream, string / constructor call); '
        'non-trivial = every character lies in [A-Za-z0-9_.:/-], i.e. the string is not rejected by the character '
        'class alone in every validator')

ALPHABET = ['a', '1', '_', '.', '-', ':', '/', '\u00e9', ' ']
CLASS_NAME = {'a': 'letter', '1': 'digit', '_': 'underscore', '.': 'dot', '-': 'hyphen', ':': 'colon',
              '/': 'slash', '\u00e9': 'nonascii', ' ': 'space'}
VALIDATORS = ['path', 'iface', 'error', 'bus', 'member']
FUNC = {'path': 'validateObjectPath', 'iface': 'validateInterfaceName', 'error': 'validateErrorName',
        'bus': 'validateBusName', 'member': 'validateMemberName'}
KEYNAME = {'path': 'objpath', 'iface': 'ifacename', 'error': 'errorname', 'bus': 'busname', 'member': 'membername'}

# ------------------------------------------------------------------ the grammar, from the DBus specification
_ELEM = frozenset(string.ascii_letters + string.digits + '_')
_BUSELEM = _ELEM | {'-'}
_DIGITS = frozenset(string.digits)
MAXLEN = 255


def _nbytes(s):
    return len(s.encode('utf-8', 'surrogatepass'))


def g_path(s):
    """'/' or '/'-separated non-empty elements over [A-Za-z0-9_], beginning with '/', no trailing '/'."""
    if s == '/':
        return True
    if not s.startswith('/'):
        return False
    return all(e != '' and set(e) <= _ELEM for e in s[1:].split('/'))


def g_iface(s):
    """>= 2 '.'-separated elements, each non-empty, [A-Za-z0-9_], not starting with a digit; <= 255 bytes."""
    es = s.split('.')
    return (len(es) >= 2 and all(e != '' and set(e) <= _ELEM and e[0] not in _DIGITS for e in es)
            and _nbytes(s) <= MAXLEN)


def g_bus(s):
    """unique name ':' + >= 2 non-empty elements over [A-Za-z0-9_-]; well-known name the same without ':'
    and no element starting with a digit; <= 255 bytes."""
    if _nbytes(s) > MAXLEN:
        return False
    if s.startswith(':'):
        es = s[1:].split('.')
        return len(es) >= 2 and all(e != '' and set(e) <= _BUSELEM for e in es)
    es = s.split('.')
    return len(es) >= 2 and all(e != '' and set(e) <= _BUSELEM and e[0] not in _DIGITS for e in es)


def g_member(s):
    """one element: non-empty, [A-Za-z0-9_], not starting with a digit, <= 255 bytes."""
    return s != '' and set(s) <= _ELEM and s[0] not in _DIGITS and _nbytes(s) <= MAXLEN


G = {'path': g_path, 'iface': g_iface, 'error': g_iface, 'bus': g_bus, 'member': g_member}

_UNION = frozenset(string.ascii_letters + string.digits + '_.:/-')


def nontrivial(s):
    return set(s) <= _UNION


# ------------------------------------------------------------------ observation of the real code
def canon_exc(e):
    """'MarshallingError' for txdbus.error.MarshallingError AND its subclasses (a subclass is still "a
    marshalling error"); the class name for anything else."""
    from txdbus import error
    if isinstance(e, error.MarshallingError):
        return 'MarshallingError'
    return type(e).__name__


def observe(marshal, v, s):
    try:
        getattr(marshal, FUNC[v])(s)
        return 'accept'
    except BaseException as e:
        return canon_exc(e)


def enc(s):
    return ''.join('%06x' % ord(c) for c in s) if s else '-'


def enc_opt(s):
    return '~' if s is None else enc(s)


def show(s):
    return {'s': s, 'codepoints': [ord(c) for c in s]}


# ------------------------------------------------------------------ classification of a wrong acceptance
def accept_key(v, s):
    """narrow key for 'validator v accepts s but the grammar does not'"""
    k = KEYNAME[v]
    if v in ('iface', 'error'):
        if s.endswith('.'):
            return k + '-trailing-dot'
    elif v == 'bus':
        if s.endswith('.'):
            return 'busname-trailing-dot'
        if ':' in s[1:]:
            return 'busname-inner-colon'
        if s.startswith(':') and '' in s[1:].split('.'):
            return 'busname-unique-empty-element'
    elif v == 'path':
        if s.endswith('/') and s != '/':
            return 'objpath-trailing-slash'
        if '//' in s:
            return 'objpath-empty-element'
    if v == 'path':
        elems = s[1:].split('/') if s.startswith('/') else ['']
    elif v == 'bus' and s.startswith(':'):
        elems = s[1:].split('.')
    else:
        elems = s.split('.')
    if '' in elems and s != '/':
        return k + '-empty-element'
    if _nbytes(s) > MAXLEN and v != 'path':
        return k + '-too-long'
    if any(ord(c) > 127 for c in s):
        return k + '-nonascii-accepted'
    return k + '-accepts-nongrammar'


def judge_string(ctx, marshal, stream, s, mline, order=VALIDATORS):
    """One string against the five validators (called in `order`): S3 and S4."""
    impl = {v: observe(marshal, v, s) for v in order}
    gram = {v: G[v](s) for v in VALIDATORS}
    ctx.impl_trace(5)
    if mline is not None:
        tok = mline.split()
        if len(tok) != 15:
            ctx.disagree(stream, show(s), mline, impl, detail='driver answer malformed')
        else:
            bad, gbad = [], []
            for i, v in enumerate(VALIDATORS):
                mt, mf, mg = tok[3 * i], tok[3 * i + 1], tok[3 * i + 2]
                if mt != impl[v] or mf != impl[v]:
                    bad.append({'validator': FUNC[v], 'model_isdigitNA_true': mt, 'model_isdigitNA_false': mf,
                                'impl': impl[v]})
                if (mg == '1') != gram[v]:
                    gbad.append({'grammar': v, 'lean': mg, 'python': gram[v]})
            if bad:
                ctx.disagree(stream, show(s), bad, impl)
            if gbad:
                ctx.disagree('grammar-lean-vs-python', show(s), gbad, gram)
    # S4: the implementation alone against the grammar
    for v in VALIDATORS:
        r = impl[v]
        inp = {'kind': 'validator', 'validator': FUNC[v], 's': s}
        if r == 'accept' and not gram[v]:
            ctx.violation(accept_key(v, s), '%s accepts %r, which the DBus grammar rejects' % (FUNC[v], s),
                          inp=inp, observed='accept', expected='MarshallingError')
        elif r != 'accept' and gram[v]:
            ctx.violation(KEYNAME[v] + '-rejects-grammatical',
                          '%s rejects %r (%s), which the DBus grammar allows' % (FUNC[v], s, r),
                          inp=inp, observed=r, expected='accept')
        elif r not in ('accept', 'MarshallingError'):
            ctx.violation(KEYNAME[v] + '-wrong-exception-type',
                          '%s rejects %r with %s instead of MarshallingError' % (FUNC[v], s, r),
                          inp=inp, observed=r, expected='MarshallingError')
    return impl, gram


def run_strings(ctx, marshal, stream, strings):
    strings = list(strings)
    out = ctx.model(['v ' + enc(s) for s in strings])
    again = []
    for i, s in enumerate(strings):
        order = list(VALIDATORS)
        ctx.rng.shuffle(order)              # the order in which the five validators see a string varies
        impl, gram = judge_string(ctx, marshal, stream, s, out[i] if out is not None else None, order)
        nt = nontrivial(s)
        ctx.case(stream, sample=s if (nt or i < 3) else None, nontrivial=nt)
        if not nt:
            ctx.stat(stream + ':trivial(char class)')
        ctx.stat('%s:len=%s' % (stream, len(s) if len(s) <= 8 else ('9-254' if len(s) < 255 else ('255' if len(s) == 255 else '256+'))))
        acc = [v for v in VALIDATORS if impl[v] == 'accept']
        ctx.stat('%s:accepted-by=%s' % (stream, '+'.join(acc) if acc else 'none'))
        if acc and len(again) < 20000:
            again.append((i, s, order))
    # second pass over the strings somebody accepted, validators in the opposite order: an answer that
    # depends on what was validated before (a memo shared between validators) is wrong on one of the two calls
    for i, s, order in again:
        judge_string(ctx, marshal, stream, s, out[i] if out is not None else None, order[::-1])
    ctx.stat(stream + ':second-pass', len(again))
    ctx.case('grammar-lean-vs-python', n=len(strings) if out is not None else 0)


# ------------------------------------------------------------------ generators
def exhaustive(maxlen):
    for n in range(maxlen + 1):
        for t in itertools.product(ALPHABET, repeat=n):
            yield ''.join(t)


ODD_CHARS = ['\u0663', '\u00b2', '\u2460', '\uff15', '\u0967', '\U0001d7d8',   # digits: Nd arabic-indic, No superscript two,
                                                                            # circled one, fullwidth 5, devanagari 1, math double-struck 0
             '\u00e9', '\u00df', '\u0130', '\u212a', '\u017f', '\u4e2d', '\U0001f600',  # e-acute, sharp s, dotted I, Kelvin sign and
                                                                            # long s (case-fold into ASCII), CJK, emoji
             '\x00', '\n', '\r', '\t', ' ', '\x7f', '\x80', '\xa0',
             '@', '[', '`', '{', '^', '\\', ']', '$', '*', '+', '~', '!', '"', "'", ',', ';', '<', '=', '>', '?',
             '(', ')', '&', '%', '#', '|']
ELEM_CHARS = string.ascii_letters + string.digits + '_'


def gen_element(rng, hyphen=False, digit_first=False, maxlen=8):
    n = rng.choice([1, 1, 2, 3, rng.randint(1, maxlen)])
    chars = ELEM_CHARS + ('-' if hyphen else '')
    first_pool = chars if digit_first else ''.join(c for c in chars if c not in string.digits)
    return rng.choice(first_pool) + ''.join(rng.choice(chars) for _ in range(n - 1))


def gen_valid(rng, v, maxlen=8):
    if v == 'path':
        k = rng.choice([0, 1, 1, 2, 3, 5])
        return '/' + '/'.join(gen_element(rng, digit_first=True, maxlen=maxlen) for _ in range(k))
    if v in ('iface', 'error'):
        k = rng.choice([2, 2, 3, 4, 6])
        return '.'.join(gen_element(rng, maxlen=maxlen) for _ in range(k))
    if v == 'bus':
        k = rng.choice([2, 2, 3, 4])
        if rng.random() < 0.5:
            return ':' + '.'.join(gen_element(rng, hyphen=True, digit_first=True, maxlen=maxlen) for _ in range(k))
        return '.'.join(gen_element(rng, hyphen=True, maxlen=maxlen) for _ in range(k))
    return gen_element(rng, maxlen=maxlen)


def mutate(rng, s):
    ops = rng.choice([1, 1, 1, 2, 3])
    for _ in range(ops):
        pool = rng.choice([ALPHABET, ALPHABET, list('.:/-_019aZ'), ODD_CHARS])
        ch = rng.choice(pool)
        pos = rng.choice([0, 0, len(s), len(s), rng.randint(0, len(s))]) if s else 0
        op = rng.random()
        if op < 0.45:
            s = s[:pos] + ch + s[pos:]
        elif op < 0.7 and s:
            pos = min(pos, len(s) - 1)
            s = s[:pos] + ch + s[pos + 1:]
        elif op < 0.85 and s:
            pos = min(pos, len(s) - 1)
            s = s[:pos] + s[pos + 1:]
        elif s:
            pos = min(pos, len(s) - 1)
            s = s[:pos] + s[pos] + s[pos:]          # duplicate a character ('..', '//', '::')
    return s


def gen_random(rng):
    v = rng.choice(VALIDATORS)
    r = rng.random()
    if r < 0.25:
        return gen_valid(rng, v, maxlen=rng.choice([8, 8, 40]))
    if r < 0.85:
        return mutate(rng, gen_valid(rng, v))
    if r < 0.93:      # free string over the nine classes, longer than the exhaustive bound
        return ''.join(rng.choice(ALPHABET[:7] if rng.random() < 0.8 else ALPHABET) for _ in range(rng.randint(5, 14)))
    # long
    return mutate(rng, gen_valid(rng, v, maxlen=120))


def with_length(rng, v, total):
    """a string of kind v that is grammatical except possibly for its length `total`"""
    if v == 'path':
        return '/' + 'p' * (total - 1)
    if v == 'member':
        return 'm' * total
    style = rng.choice(['two', 'many', 'unique']) if v == 'bus' else rng.choice(['two', 'many'])
    if style == 'two':
        return 'a.' + 'b' * (total - 2)
    if style == 'unique':
        return ':1.' + '2' * (total - 3)
    out = []
    left = total
    while left > 0:
        k = min(left, rng.randint(1, 9))
        if left - k == 1:       # never leave room for only a separator
            k += 1
        out.append('e' * k)
        left -= k + 1
    s = '.'.join(out)
    if len(s) < total:
        s += 'x' * (total - len(s))
    if '.' not in s:
        s = 'a.' + s[2:]
    return s[:total] if not s[:total].endswith('.') else s[:total - 1] + 'z'


def boundary_strings(rng):
    out = []
    for v in VALIDATORS:
        for total in (253, 254, 255, 256, 257, 300, 1000):
            for _ in range(3):
                s = with_length(rng, v, total)
                out.append(s)
                # the same with one defect
                out.append(s[:-1] + '.')
                out.append(s[:100] + '\u00e9' + s[101:])
    # 255 limit counted in bytes vs characters: <= 255 characters but > 255 bytes (only non-ASCII can do that)
    out += ['\u00e9' * 128, 'a.' + '\u00e9' * 127, 'a.' + '\u4e2d' * 85, 'a.' + 'b' * 200 + '\u00e9' * 30,
            ':1.' + '\u00e9' * 126, '/' + '\u00e9' * 300]
    return out


def deep_wide_strings():
    """many elements: long paths, names with 10-100 short elements and one defect near the end"""
    out = []
    for k in (10, 500, 5000):
        p = '/a' * k
        out += [p, p + '/', p + '//b', p + '/b c', p + '/.', p[1:], p + '/1']
    for k in (4, 5, 10, 30, 100):
        base = '.'.join(['a'] * k)
        out += [base, base + '.1e', base + '.e1', base + '.', base + '..a', base + '.-', base + '.-1', base + ':a',
                ':' + base, ':' + base + '.1e', ':' + base + '.', ':' + base + '..1', ':1.' + base + ':', '1' + base,
                base + '.a b', base + '._']
    return out


def digit_strings():
    digs = ['\u0663', '\u00b2', '\u2460', '\uff15', '\u0967', '\U0001d7d8', '1']
    out = []
    for d in digs:
        out += [d, d + 'a', 'a' + d, d + '.a', 'a.' + d, 'a.' + d + 'b', 'a.b' + d, d + 'a.b', ':' + d + '.a',
                ':1.' + d, '/' + d, '/a/' + d, 'a_' + d, '_' + d, d + '_', 'a.b.' + d + 'c', 'a-' + d + '.b',
                '-' + d + '.a', 'a.-' + d]
    return out


CURATED = ['a.b.c.d.1e', 'a.b.c.d.e.', ':a.b.c.d..e', 'a.b.c.d:e', '/a/b/c/d/', '/a/b/c/d//e',
           'a.0', 'a.0b', 'a.9', 'a.b.0c', ':0.9', ':0.0', 'a0.b9', '/0', '0', '9a', 'a-0.b', 'a.-0',
           '', '/', '//', '/a', '/a/', '/a//b', 'a', 'a/b', '/a/b', '/a.b', '/a-b', '/_', '/1', '/1/2', '/a b',
           'a.b', 'a.', 'a.b.', '.a', '.a.b', 'a..b', 'a.1', 'a.1b', '1.a', 'a1.b1', '_._', 'a', 'a.b.c', 'a-b.c', 'a.b-c',
           '-a.b', 'a.-b', '-.a', '-.-', ':1.2', ':1.', ':.a', ':.1', ':', ':a', ':a.b', '::a.b', 'a:b.c', ':a:b.c', ':1.2:3',
           ':a..b', ':a.b.', 'a.:b', ':-.-', ':1', ':.', '.', '..', ':..', '1', '_', '-', 'a-b', 'a.b\n', 'a.b\x00', '\na.b',
           'org.freedesktop.DBus', '/org/freedesktop/DBus', '/org/freedesktop/DBus/Local', 'org.freedesktop.DBus.Local',
           'org.freedesktop.DBus.Error.Failed', ':1.42', 'GetAll', 'Hello', 'a.B', 'A.b', 'a.b c', ' a.b', 'a .b']


# ------------------------------------------------------------------ message constructors
FIELDS = {
    'MethodCallMessage': ['path', 'member', 'interface', 'destination'],
    'MethodReturnMessage': ['destination'],
    'ErrorMessage': ['error_name', 'destination'],
    'SignalMessage': ['path', 'member', 'interface', 'destination'],
}
FIELD_KIND = {'path': 'path', 'member': 'member', 'interface': 'iface', 'destination': 'bus', 'error_name': 'error'}
DEFAULTS = {
    'MethodCallMessage': {'path': '/a', 'member': 'm', 'interface': None, 'destination': None},
    'MethodReturnMessage': {'destination': None},
    'ErrorMessage': {'error_name': 'a.b', 'destination': None},
    'SignalMessage': {'path': '/a', 'member': 'm', 'interface': 'a.b', 'destination': None},
}
OPTIONAL = {('MethodCallMessage', 'interface'), ('MethodCallMessage', 'destination'),
            ('MethodReturnMessage', 'destination'), ('ErrorMessage', 'destination'), ('SignalMessage', 'destination')}


NO_EXTRA = {'signature': None, 'body': None, 'expectReply': True, 'autoStart': True, 'sender': None}
EXTRAS = [
    {},
    {'signature': 's', 'body': ['x']},
    {'signature': 'ii', 'body': [1, 2]},
    {'signature': 'as', 'body': [['a', 'b']]},
    {'expectReply': False},
    {'autoStart': False},
    {'expectReply': False, 'autoStart': False, 'signature': 's', 'body': ['']},
    {'sender': ':1.5'},
    {'sender': 'not a bus name', 'signature': 'o', 'body': ['/x']},
]


def construct(message, cls, args, extra=None):
    """returns ('accept', msg) or (canonical exception name, None).  `extra`: the non-name arguments
    (always valid values: the outcome must depend on the names only)."""
    x = dict(NO_EXTRA)
    x.update(extra or {})
    try:
        if cls == 'MethodCallMessage':
            m = message.MethodCallMessage(args['path'], args['member'], interface=args['interface'],
                                          destination=args['destination'], signature=x['signature'], body=x['body'],
                                          expectReply=x['expectReply'], autoStart=x['autoStart'])
        elif cls == 'MethodReturnMessage':
            m = message.MethodReturnMessage(1, body=x['body'], destination=args['destination'],
                                            signature=x['signature'])
        elif cls == 'ErrorMessage':
            m = message.ErrorMessage(args['error_name'], 1, destination=args['destination'],
                                     signature=x['signature'], body=x['body'], sender=x['sender'])
        else:
            m = message.SignalMessage(args['path'], args['member'], args['interface'],
                                      destination=args['destination'], signature=x['signature'], body=x['body'])
        return 'accept', m
    except BaseException as e:
        return canon_exc(e), None


HCODE = {1: 'path', 2: 'interface', 3: 'member', 4: 'error_name', 6: 'destination'}      # 7 = sender: not in the property


def carried_names(message, m):
    """The names a constructed message CARRIES: header fields of the marshalled message (re-parsed from
    rawMessage; the header list built by _marshal as a fallback).  -> list of (field, value)"""
    try:
        p = message.parseMessage(m.rawMessage, [])
        return [(f, getattr(p, f)) for f in HCODE.values() if isinstance(getattr(p, f, None), str)]
    except BaseException:
        pass
    out = []
    for h in getattr(m, 'headers', None) or []:
        if h[0] in HCODE and isinstance(h[1], str):
            out.append((HCODE[h[0]], str(h[1])))
    return out


def msg_line(cls, a):
    if cls == 'MethodCallMessage':
        return 'call %s %s %s %s' % (enc(a['path']), enc(a['member']), enc_opt(a['interface']), enc_opt(a['destination']))
    if cls == 'MethodReturnMessage':
        return 'ret %s' % enc_opt(a['destination'])
    if cls == 'ErrorMessage':
        return 'err %s %s' % (enc(a['error_name']), enc_opt(a['destination']))
    return 'sig %s %s %s %s' % (enc(a['path']), enc(a['member']), enc(a['interface']), enc_opt(a['destination']))


def judge_message(ctx, marshal, message, cls, args, mline, extra=None):
    stream = 'message-constructors'
    r, m = construct(message, cls, args, extra)
    ctx.impl_trace()
    inp = {'kind': 'message', 'cls': cls, 'args': args}
    if extra:
        inp['extra'] = extra
    if mline is not None:
        tok = mline.split()
        if len(tok) != 2 or tok[0] != r or tok[1] != r:
            ctx.disagree(stream, inp, mline, r)
    if r == 'accept':
        # S4, from the property text: a message that exists must not CARRY a name outside the grammar.
        # Judged on what the marshalled message holds, not on the argument list: a constructor that drops
        # or normalises an argument (e.g. '' -> None, field not emitted) does not violate the statement.
        carried = carried_names(message, m)
        for f, val in carried:
            kind = FIELD_KIND[f]
            if G[kind](val):
                continue
            vres = observe(marshal, kind, val)
            if val == '' and f in ('interface', 'destination'):
                key = 'empty-name-constructible'
            elif vres == 'accept':
                key = accept_key(kind, val)          # the validator's own defect, seen through the constructor
            else:
                key = 'message-%s-not-validated' % f
            ctx.violation(key, '%s constructed and carries %s=%r, which the DBus grammar rejects (validator alone: %s)'
                          % (cls, f, val, vres), inp=inp, observed='constructed', expected='MarshallingError')
        have = dict(carried)
        for f in FIELDS[cls]:
            if args.get(f) is not None and have.get(f) != args[f]:
                ctx.stat('message:argument-not-carried:%s' % f)
    ctx.stat('message:%s:%s' % (cls, r))
    return r


def message_cases(ctx, pool):
    cases = []
    # one field at a time, everything else valid
    for s in pool:
        for cls, fields in FIELDS.items():
            for f in fields:
                a = dict(DEFAULTS[cls])
                a[f] = s
                cases.append((cls, a, None))
    # several fields at once (order of checks, first failure wins)
    rng = ctx.rng
    # the non-name arguments vary (valid values only): validation must not depend on them
    probes = [s for s in CURATED if len(s) <= 8] + ['/a' * 40, '/a' * 40 + '/', '.'.join(['a'] * 12) + '.1e']
    for x in EXTRAS[1:]:
        for s in probes:
            for cls, fields in FIELDS.items():
                for f in fields:
                    a = dict(DEFAULTS[cls])
                    a[f] = s
                    cases.append((cls, a, x))
    n = ctx.scale(quick=1500, thorough=30000)
    small = [s for s in pool if len(s) <= 6]
    for _ in range(n):
        cls = rng.choice(list(FIELDS))
        a = {}
        for f in FIELDS[cls]:
            r = rng.random()
            if (cls, f) in OPTIONAL and r < 0.25:
                a[f] = None
            elif r < 0.6:
                a[f] = gen_valid(rng, FIELD_KIND[f])
            elif r < 0.8:
                a[f] = mutate(rng, gen_valid(rng, FIELD_KIND[f]))
            else:
                a[f] = rng.choice(small)
        cases.append((cls, a, rng.choice(EXTRAS) or None))
    return cases


def run_messages(ctx, marshal, message, cases):
    out = ctx.model([msg_line(cls, a) for cls, a, x in cases])
    for i, (cls, a, x) in enumerate(cases):
        judge_message(ctx, marshal, message, cls, a, out[i] if out is not None else None, x)
        nt = all(v is None or nontrivial(v) for v in a.values())
        ctx.case('message-constructors', sample={'cls': cls, 'args': a, 'extra': x} if nt else None, nontrivial=nt)
        ctx.stat('message:extra=%s' % ('+'.join(sorted(x)) if x else 'defaults'))


def probe_none_path(ctx, message):
    """Observed, not judged (C03's required-field matter, no name is carried): path=None."""
    for cls, mk in (('MethodCallMessage', lambda: message.MethodCallMessage(None, 'm')),
                    ('SignalMessage', lambda: message.SignalMessage(None, 'm', 'a.b'))):
        try:
            m = mk()
            r = 'constructs, header codes %s' % sorted(h[0] for h in m.headers)
        except BaseException as e:
            r = canon_exc(e)
        ctx.note('observed-not-flagged: %s(path=None) -> %s' % (cls, r))


# ------------------------------------------------------------------ entry points
def _dedup(seq):
    seen, out = set(), []
    for s in seq:
        if s not in seen and not any(0xD800 <= ord(c) <= 0xDFFF for c in s):
            seen.add(s)
            out.append(s)
    return out


def run(ctx):
    from txdbus import marshal, message

    # past failures first
    cstr, cmsg = [], []
    for name, case in ctx.corpus():
        inp = case.get('input', case)
        if inp.get('kind') == 'message':
            cmsg.append((inp['cls'], inp['args'], inp.get('extra')))
        else:
            cstr.append(inp['s'])
    if cstr:
        run_strings(ctx, marshal, 'validators-boundary', _dedup(cstr))
    if cmsg:
        run_messages(ctx, marshal, message, cmsg)

    # curated corner cases, boundary lengths, non-ASCII digits
    run_strings(ctx, marshal, 'validators-boundary',
                _dedup(CURATED + digit_strings() + deep_wide_strings() + boundary_strings(ctx.rng)))

    # bounded-exhaustive over the nine character classes
    if ctx.tier == 'thorough':
        maxlen = 6
    else:
        maxlen = 5 if ctx.widen else 4
    run_strings(ctx, marshal, 'validators-exhaustive', exhaustive(maxlen))
    ctx.stat('exhaustive-maxlen', maxlen)
    ctx.exhaustive = True       # the finite space "all strings up to maxlen over the nine classes" was enumerated completely

    # random longer strings
    n = ctx.scale(quick=6000, thorough=120000)
    run_strings(ctx, marshal, 'validators-random', _dedup(gen_random(ctx.rng) for _ in range(n)))

    # message constructors: names drawn from the same enumeration
    mlen = 4 if ctx.tier == 'thorough' else (3 if not ctx.widen else 4)
    pool = _dedup(list(exhaustive(mlen)) + CURATED + digit_strings()
                  + [with_length(ctx.rng, v, t) for v in VALIDATORS for t in (255, 256)])
    run_messages(ctx, marshal, message, message_cases(ctx, pool))
    probe_none_path(ctx, message)


def replay(ctx, data):
    from txdbus import marshal, message
    inp = data.get('input', data)
    if inp.get('kind') == 'message':
        line = msg_line(inp['cls'], inp['args'])
        out = ctx.model([line])
        judge_message(ctx, marshal, message, inp['cls'], inp['args'], out[0] if out else None, inp.get('extra'))
    else:
        s = inp['s']
        out = ctx.model(['v ' + enc(s)])
        judge_string(ctx, marshal, 'validators-boundary', s, out[0] if out else None)
