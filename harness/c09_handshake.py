"""C09 x C07 - stream `connect-through-handshake`: one connection attempt from `connectionMade` to the firing of the
connect Deferred, on the real `DBusClientFactory` / `DBusClientConnection` with the real `ClientAuthenticator`.

The protocol object is built by the factory (`buildProtocol`) and connected to a fake transport that records, in order,
every `write` / `writeSequence` and every `loseConnection`.  The server is a byte script (handshake lines + the binary
answer to Hello) delivered through `dataReceived` in reads cut anywhere; `connectionLost` is delivered where the scenario
says (peer close at every point; the reactor's follow-up of the client's own `loseConnection` - or never).

Twisted, emulated by the harness exactly as the model assumes (Client/ConnectAuth.lean T1..T3):
  T1 nothing is delivered after connectionLost, which is called once;
  T2 after transport.loseConnection() no dataReceived follows (the transport stopped reading);
  T3 an exception escaping dataReceived makes the reactor call connectionLost(Failure(exc)) at once;
  T4 (connectionLost follows loseConnection) is NOT emulated: the scenario decides whether and when it comes.

Scenario (JSON): {'cah': 1, 'unix': bool, 'lines': [hex of a server line without delimiter, ...], 'hello': N|U|E|G|W|-,
  'before': codes of messages sent BEFORE the answer (S = a signal, W = a reply to another call), 'after': codes of messages
  sent AFTER it (S, W, X = a complete 16-byte message of unknown type: rawDBusMessageReceived raises),
  'name': str, 'part': permille of the binary part that is sent (1000 = all), 'trail': hex of (< 16) bytes after it,
  'cuts': [permille positions at which the byte script is cut into reads], 'lost': [read index before which
  connectionLost is delivered, ...] (len(reads) = after the last read), 'clean': 'accept' | 'reject-all' | None}

Observation compared with the model (`drv_c09 cah`): what the client wrote (N, S:<line>, C = loseConnection, A = the Hello
call), `_authenticated`, `transport.disconnecting`, the step at which it first closed, the step at which the connect
Deferred fired and with what, how many reads reached dataReceived.
"""
import getpass
import os

STREAM = 'connect-through-handshake'
GUID = b'0123456789abcdef0123456789abcdef'
CRLF = b'\r\n'

ERR_KINDS = [('Odd-length string', b'oddLength'), ('Non-hexadecimal digit found', b'nonHex'),
             ('values to unpack', b'arity'), ('Invalid cookie context name', b'badContext'),
             ('No such file or directory', b'stat')]


class Fixture:
    """Environment of the cookie step: a home directory without a keyring (os.stat raises), the real user name."""

    def __init__(self, M, tmp):
        from twisted.internet import interfaces
        from zope.interface import implementer
        self.M = M
        self.home = os.path.join(tmp, 'cah-home')
        os.makedirs(self.home, exist_ok=True)
        self.user = getpass.getuser().encode('ascii')

        class T(M.StringTransport):
            def __init__(self):
                M.StringTransport.__init__(self)
                self.log = []

            def write(self, data):
                self.log.append(('w', bytes(data)))
                M.StringTransport.write(self, data)

            def writeSequence(self, seq):
                self.log.append(('w', b''.join(seq)))
                M.StringTransport.writeSequence(self, seq)

            def loseConnection(self):
                self.log.append(('C',))
                M.StringTransport.loseConnection(self)

        @implementer(interfaces.IUNIXTransport)
        class UT(T):
            def sendFileDescriptor(self, fd):
                pass
        self.T, self.UT = T, UT

    def __enter__(self):
        self.saved_home = os.environ.get('HOME')
        os.environ['HOME'] = self.home
        return self

    def __exit__(self, *a):
        if self.saved_home is None:
            os.environ.pop('HOME', None)
        else:
            os.environ['HOME'] = self.saved_home


# ----------------------------------------------------------------------------------------------------------------
# the byte script

RAISING = b'l\x07\x00\x01' + b'\x00' * 12       # a complete message of an unknown type: parseMessage raises


def n_built(sc):
    """How many messages the harness constructs for this scenario (each takes a serial from the process-wide counter)."""
    return (len(sc.get('before', '')) + (1 if sc['hello'] in ('N', 'U', 'E', 'W') else 0)
            + sum(1 for c in sc.get('after', '') if c in 'SW'))


def build_binary(M, sc, serial):
    """The binary part of the script.  Returns (bytes, outcome for the model, the prefix of the binary stream at which
    that outcome is complete, the prefix at which binary mode raises AFTER the answer, offset of the end of the answer)."""
    msg = M.message

    def item(c):
        if c == 'S':
            return msg.SignalMessage('/org/freedesktop/DBus', 'NameAcquired', 'org.freedesktop.DBus',
                                     signature='s', body=[':1.42']).rawMessage
        if c == 'W':          # a reply to another call: not the answer to Hello
            return msg.MethodReturnMessage(serial + 7, body=[':1.9'], signature='s').rawMessage
        if c == 'X':
            return RAISING
        raise ValueError(c)
    before = b''.join(item(c) for c in sc.get('before', ''))
    k = sc['hello']
    if k == 'N':
        ans = msg.MethodReturnMessage(serial, body=[sc.get('name', ':1.42')], signature='s').rawMessage
    elif k == 'U':
        ans = msg.MethodReturnMessage(serial).rawMessage
    elif k == 'E':
        ans = msg.ErrorMessage('org.freedesktop.DBus.Error.LimitsExceeded', serial,
                               body=['too many connections'], signature='s').rawMessage
    elif k == 'W':
        ans = item('W')
    elif k == 'G':
        ans = RAISING
    else:
        ans = b''
    after_items = [item(c) for c in sc.get('after', '')]
    full = before + ans + b''.join(after_items)
    outcome, dec, crash, hello_end = '-', b'', b'', None
    if k in ('N', 'U', 'E'):
        outcome, dec, hello_end = k, before + ans, len(before + ans)
        if 'X' in sc.get('after', ''):
            i = sc['after'].index('X')
            crash = before + ans + b''.join(after_items[:i + 1])
    elif k == 'G':
        outcome, dec = 'G', before + ans
    elif 'X' in sc.get('after', ''):
        # no answer to Hello at all, then bytes on which binary mode raises: for the model this IS the outcome `garbage`
        i = sc['after'].index('X')
        outcome, dec = 'G', before + ans + b''.join(after_items[:i + 1])
    part = sc.get('part', 1000)
    if part < 1000:
        sent = full[:len(full) * part // 1000]
    else:
        sent = full + bytes.fromhex(sc.get('trail', ''))
    return sent, outcome, dec, crash, hello_end


def build_reads(M, sc, serial):
    line_part = b''.join(bytes.fromhex(h) + CRLF for h in sc['lines'])
    sent, outcome, dec, crash, hello_end = build_binary(M, sc, serial)
    data = line_part + sent
    cuts = sorted({len(data) * c // 1000 for c in sc.get('cuts', [])} - {0, len(data)})
    reads, prev = [], 0
    for c in cuts + [len(data)]:
        if c > prev:
            reads.append(data[prev:c])
            prev = c
    return reads, outcome, dec, crash, (len(line_part) + hello_end if hello_end is not None else None)


def steps_of(sc, reads):
    lost = sorted(set(min(k, len(reads)) for k in sc.get('lost', [])))
    steps = []
    for i, r in enumerate(reads):
        if i in lost:
            steps.append(('l',))
        steps.append(('r', r))
    if len(reads) in lost:
        steps.append(('l',))
    return steps


# ----------------------------------------------------------------------------------------------------------------
# the real code

class Obs:
    pass


def canon_line(line):
    if line.startswith(b'ERROR '):
        text = line[6:].decode('latin-1')
        for frag, kind in ERR_KINDS:
            if frag in text:
                return b'ERROR ' + kind
    return line


def execute(F, sc):
    """Run the scenario; the serial the Hello call will carry is predicted from a probe message.  If the prediction was
    wrong (the client sent something else first) the scenario is run once more with the observed offset."""
    o = execute_once(F, sc, 0)
    if o.serial_off:
        o = execute_once(F, sc, o.serial_off)
        if o.serial_off:
            o.skip = 'the Hello call carries serial %r, the script was written for %r (twice)' % (o.hello_serial, o.serial)
    return o


def execute_once(F, sc, delta):
    M = F.M
    o = Obs()
    o.skip = None
    o.serial_off = 0
    probe = M.message.MethodCallMessage('/verif', 'Probe')
    serial = probe.serial + 1 + n_built(sc) + delta     # the probe, the messages of the script, then the Hello call
    reads, outcome, n, crash, hello_end = build_reads(M, sc, serial)
    steps = steps_of(sc, reads)
    fac = M.client.DBusClientFactory()
    d = fac.getConnection()
    o.fired = []
    o.double = None
    state = {'step': -1, 'reason': None}

    def on_ok(res):
        o.fired.append(('connection' if isinstance(res, M.client.DBusClientConnection)
                        else 'value:' + type(res).__name__, state['step']))

    def on_err(f):
        r = state['reason']
        if f.check(M.error.RemoteError) and 'without a bus name' in f.getErrorMessage():
            kind = 'helloNoName'
        elif f.check(M.error.RemoteError):
            kind = 'helloError'
        elif r is not None and (f is r or f.value is r.value or type(f.value) is type(r.value)):
            kind = 'lostEarly'
        else:
            kind = 'failure:' + f.type.__name__
        o.fired.append((kind, state['step']))
    d.addCallbacks(on_ok, on_err)
    del d
    proto = fac.buildProtocol(None)
    tr = (F.UT if sc['unix'] else F.T)()
    o.lost_at = None
    o.closed_at = None
    o.delivered = 0
    o.delivered_bytes = 0
    o.raised = []
    eff = []                             # the steps as the model must see them (T3 made explicit in line mode)

    def enter(fn, *a):
        try:
            fn(*a)
            return None
        except Exception as e:           # noqa: BLE001
            if type(e).__name__ == 'AlreadyCalledError':
                o.double = 'AlreadyCalledError escaped %s' % getattr(fn, '__name__', '?')
            return e

    def lose(reason, i):
        o.lost_at = i
        state['reason'] = reason
        exc = enter(proto.connectionLost, reason)
        if exc is not None:
            o.raised.append('connectionLost raised %r' % (exc,))

    exc = enter(proto.makeConnection, tr)
    if exc is not None:
        o.skip = 'makeConnection raised %r' % (exc,)
        return o
    if tr.disconnecting:
        o.closed_at = 0
    for st in steps:
        if st[0] == 'l':
            eff.append('l')
            i = state['step'] = len(eff) - 1
            if o.lost_at is None:
                lose(M.Failure(M.tie.ConnectionDone() if sc.get('reason', 'done') == 'done' else M.tie.ConnectionLost()), i)
            continue
        eff.append('r:' + (st[1].hex() or '-'))
        i = state['step'] = len(eff) - 1
        if o.lost_at is not None or tr.disconnecting:
            continue                                        # T1, T2
        o.delivered += 1
        o.delivered_bytes += len(st[1])
        exc = enter(proto.dataReceived, st[1])
        if exc is not None:
            line_mode = not getattr(proto, '_authenticated', False)
            o.raised.append(('line' if line_mode else 'binary') + ':' + type(exc).__name__)
            if line_mode:
                # the connection is closed from the client's side; the reactor's connectionLost (T3) is a step of
                # its own for the model
                tr.log.append(('C',))
                tr.disconnecting = True
                if o.closed_at is None:
                    o.closed_at = i
                eff.append('l')
                i = state['step'] = len(eff) - 1
            lose(M.Failure(exc), i)                         # T3
        elif tr.disconnecting and o.closed_at is None:
            o.closed_at = i
    # -- canonical view
    ev, binary_mode, hello_serial = [], False, None
    for rec in tr.log:
        if rec[0] == 'C':
            ev.append('C')
        elif binary_mode:
            try:
                m = M.message.parseMessage(rec[1], [])
                if type(m).__name__ == 'MethodCallMessage' and m.member == 'Hello':
                    ev.append('A')
                    hello_serial = m.serial
                else:
                    ev.append('B:' + rec[1].hex())
            except Exception:                               # noqa: BLE001
                ev.append('B:' + rec[1].hex())
        elif rec[1] == b'\x00' and not ev:
            ev.append('N')
        elif rec[1].endswith(CRLF):
            line = rec[1][:-2]
            ev.append('S:' + (canon_line(line).hex() or '-'))
            if line == b'BEGIN':
                binary_mode = True
        else:
            ev.append('W:' + rec[1].hex())
    o.events = ev
    o.auth = bool(getattr(proto, '_authenticated', False))
    o.disc = bool(tr.disconnecting)
    o.eff, o.outcome, o.n, o.crash, o.hello_end, o.serial = eff, outcome, n, crash, hello_end, serial
    o.proto = proto
    o.hello_serial = hello_serial
    if hello_serial is not None and hello_serial != serial:
        o.serial_off = delta + hello_serial - serial
    return o


def impl_view(o):
    fired = ','.join(k for k, _ in o.fired) or '-'
    fired_at = str(o.fired[0][1]) if o.fired else '-'
    return '%s | auth=%d disc=%d closedAt=%s firedAt=%s fired=%s raised=%d delivered=%d' % (
        ' '.join(o.events), o.auth, o.disc, '-' if o.closed_at is None else o.closed_at, fired_at, fired,
        1 if any(r.startswith('binary:') for r in o.raised) else 0, o.delivered)


def model_line(F, sc, o):
    return 'cah r %d %s %s %s %s %s' % (1 if sc['unix'] else 0, F.user.hex() or '-', o.n.hex() or '-', o.outcome,
                                       o.crash.hex() or '-', ' '.join(o.eff))


def model_view(line):
    """Drop the model-internal fields (phase, generated events, hello, lost, raised)."""
    if ' | ' not in line:
        return line
    head, tail = line.split(' | ', 1)
    keep = [t for t in tail.split(' ') if t.split('=')[0] in ('auth', 'disc', 'closedAt', 'firedAt', 'fired', 'raised', 'delivered')]
    return head + ' | ' + ' '.join(keep)


# ----------------------------------------------------------------------------------------------------------------
# oracle: the implementation alone, against the statement of C09
#   "The Deferred returned when connecting always fires: with a ready connection once authentication and Hello succeed,
#    or with a failure when ... authentication is refused, Hello fails, or the transport closes at any earlier point."

def judge(F, sc, o):
    out = []
    n = len(o.fired)
    kinds = [k for k, _ in o.fired]
    if o.double:
        out.append(('deferred-fired-twice', 'a Deferred that had fired was fired again: %s' % o.double, o.double,
                    'every Deferred fires once'))
    if n > 1:
        out.append(('connect-deferred-fired-twice', 'the Deferred of the connection attempt fired %d times' % n,
                    kinds, 'one firing'))
        return out
    # the whole answer to Hello reached dataReceived while the transport was open
    answered = o.hello_end is not None and o.delivered_bytes >= o.hello_end
    clean = sc.get('clean')
    if kinds and kinds[0] == 'connection' and not (answered and o.outcome == 'N'):
        out.append(('connect-succeeds-without-hello-reply',
                    'the Deferred fired with a connection although no Hello reply carrying a bus name had arrived',
                    kinds, 'no connection'))
    if o.lost_at is not None:
        # the transport closed: whatever the point, the attempt is over
        if n == 0:
            out.append(('connect-deferred-never-fires-on-early-close',
                        'connectionLost was delivered (step %d, client closed itself: %s) and the Deferred of the attempt '
                        'never fired' % (o.lost_at, o.closed_at is not None), kinds, 'one firing'))
        elif o.fired[0][1] > o.lost_at:
            out.append(('connect-deferred-fires-late', 'the Deferred fired at step %d, after the loss at step %d'
                        % (o.fired[0][1], o.lost_at), o.fired, 'fired by the time of the loss'))
    if clean == 'accept' and answered and o.outcome in ('N', 'U', 'E'):
        # a spec-conforming handshake that accepted one of the mechanisms, then the complete answer to Hello
        if n == 0:
            out.append(('connect-deferred-never-fires-hello-' + {'N': 'reply', 'U': 'reply-without-name', 'E': 'error'}[o.outcome],
                        'the handshake completed and Hello was answered (%s); the Deferred never fired' % o.outcome,
                        kinds, 'one firing'))
        elif o.outcome == 'N' and kinds[0] != 'connection':
            out.append(('connect-fails-despite-hello-reply', 'handshake and Hello succeeded, the Deferred fired with %s'
                        % kinds[0], kinds, 'connection'))
        elif o.outcome == 'U' and kinds[0] == 'connection':
            out.append(('hello-reply-without-name-yields-dead-connection',
                        'Hello was answered without a bus name, yet the Deferred fired with a connection', kinds, 'failure'))
        elif o.outcome == 'E' and kinds[0] == 'connection':
            out.append(('connect-deferred-wrong-kind', 'Hello was answered with an error, the Deferred fired with a connection',
                        kinds, 'failure'))
    if clean == 'reject-all' and o.lost_at is None and o.delivered == len([s for s in o.eff if s != 'l']):
        # the server refused every mechanism the client has (whole lines, all delivered): authentication is refused
        if n == 0 and o.closed_at is None:
            out.append(('connect-deferred-never-fires-auth-refused',
                        'every mechanism was rejected; the client neither closed the connection nor failed the Deferred',
                        {'events': o.events, 'fired': kinds}, 'loseConnection (then the loss fails the Deferred) or a failure'))
    if n == 1 and kinds[0].startswith('value:'):
        out.append(('connect-deferred-wrong-kind', 'the Deferred fired with %s' % kinds[0], kinds, 'connection or failure'))
    return out


# ----------------------------------------------------------------------------------------------------------------
# generators

def hx(b):
    return bytes(b).hex()


REJECTS = [b'REJECTED', b'REJECTED EXTERNAL DBUS_COOKIE_SHA1 ANONYMOUS', b'ERROR', b'ERROR "not today"', b'REJECTED ']
OKS_CLEAN = [b'OK ' + GUID]            # the GUID of the DBus specification: 32 hex digits
OKS_GOOD = [b'OK ' + GUID, b'OK  ' + GUID + b' ', b'OK 12ab']
OKS_BAD = [b'OK', b'OK ', b'OK xyz', b'OK 123', b'OK\t' + GUID]
DATAS = [b'DATA', b'DATA ' + b'ctx 7 feedface'.hex().encode(), b'DATA zz', b'DATA abc', b'DATA ' + b'a/b 7 c'.hex().encode(),
         b'DATA ' + b'one two'.hex().encode(), b'DATA \xff']
GARBAGE = [b'', b'HELLO', b'ok 1234', b' OK 1234', b'BEGIN', b'AUTH EXTERNAL', b'\xff\xfeOK 12', b'REJECTED\x00', b'OK\x00 12',
           b'AGREE_UNIX_FD', b'CANCEL', b'\r', b'\n', b'REJECTEDX']


def gen_cuts(rng):
    r = rng.random()
    if r < 0.25:
        return []
    if r < 0.85:
        return sorted(rng.randrange(1, 1000) for _ in range(rng.randint(1, 6)))
    return list(range(0, 1000, rng.choice([7, 13, 29, 53])))      # many small reads


def gen_hello(rng, sc, allow_none=True):
    sc['hello'] = rng.choice(['N', 'N', 'N', 'E', 'U', 'G', 'W'] + (['-'] if allow_none else []))
    sc['name'] = rng.choice([':1.42', ':1.7', '', 'org.example.NotUnique'])
    r = rng.random()
    sc['before'] = '' if r < 0.75 else ''.join(rng.choice('SW') for _ in range(rng.randint(1, 2)))
    r = rng.random()
    sc['after'] = '' if r < 0.6 else ''.join(rng.choice('SWXX') for _ in range(rng.randint(1, 3)))
    sc['part'] = 1000 if rng.random() < 0.75 else rng.randrange(0, 1000)
    sc['trail'] = hx(bytes(rng.randrange(256) for _ in range(rng.randint(0, 12)))) if rng.random() < 0.3 else ''


def gen_accept(rng, nmech):
    """A spec-conforming server that accepts the k-th mechanism of the client (k < nmech)."""
    unix = rng.random() < 0.5
    k = rng.randrange(nmech)
    lines = [rng.choice(REJECTS[:4]) for _ in range(k)]
    lines.append(rng.choice(OKS_CLEAN))
    if unix:
        lines.append(rng.choice([b'AGREE_UNIX_FD', b'ERROR', b'ERROR "no fd passing"']))
    sc = {'cah': 1, 'unix': unix, 'lines': [hx(l) for l in lines], 'cuts': gen_cuts(rng), 'lost': [], 'clean': 'accept'}
    gen_hello(rng, sc)
    return sc


def gen_reject_all(rng, nmech):
    unix = rng.random() < 0.5
    lines = [rng.choice(REJECTS[:2]) for _ in range(nmech)]
    extra = [rng.choice(REJECTS + DATAS)] if rng.random() < 0.3 else []          # bytes after the client closed
    sc = {'cah': 1, 'unix': unix, 'lines': [hx(l) for l in lines + extra], 'cuts': [], 'lost': [], 'hello': '-',
          'clean': 'reject-all' if not extra else None}
    if rng.random() < 0.5:
        sc['cuts'] = gen_cuts(rng)
        sc['clean'] = None          # cut lines: still rejected, but the oracle's "all delivered" bookkeeping is per read
    return sc


def truncate_at_possible_authentication(unix, lines):
    """Cut the line script after the first line at which a client that is still alive COULD be authenticated (from the
    protocol, over-approximated: without descriptor passing only an OK line authenticates; with it only an
    AGREE_UNIX_FD / ERROR line after some OK line).  What follows such a line would be binary data for the client, and
    the binary part of a script is the answer to Hello (the decoder parameter of the model is "the binary stream begins
    with the answer")."""
    seen_ok = False
    for i, l in enumerate(lines):
        if l.startswith(b'OK'):
            if not unix:
                return lines[:i + 1]
            seen_ok = True
        elif unix and seen_ok and (l.startswith(b'AGREE_UNIX_FD') or l.startswith(b'ERROR')):
            return lines[:i + 1]
    return lines


def gen_mixed(rng, nmech):
    """Anything a server may say, in any order; may or may not authenticate."""
    unix = rng.random() < 0.5
    lines = []
    for _ in range(rng.randint(1, 6)):
        r = rng.random()
        if r < 0.3:
            lines.append(rng.choice(REJECTS))
        elif r < 0.5:
            lines.append(rng.choice(DATAS))
        elif r < 0.7:
            lines.append(rng.choice(OKS_GOOD + OKS_BAD))
        elif r < 0.8:
            lines.append(rng.choice([b'AGREE_UNIX_FD', b'ERROR']))
        elif r < 0.97:
            lines.append(rng.choice(GARBAGE))
        else:
            lines.append(b'A' * rng.choice([16384, 16385, 16386]))
    lines = truncate_at_possible_authentication(unix, lines)
    sc = {'cah': 1, 'unix': unix, 'lines': [hx(l) for l in lines], 'cuts': gen_cuts(rng), 'lost': [], 'clean': None}
    gen_hello(rng, sc)
    return sc


def with_losses(rng, sc, nreads_guess=8):
    r = rng.random()
    if r < 0.45:
        sc['lost'] = []
    elif r < 0.6:
        sc['lost'] = [nreads_guess + 1]              # after everything was delivered
    elif r < 0.85:
        sc['lost'] = [rng.randrange(0, nreads_guess + 1)]
    else:
        sc['lost'] = sorted({rng.randrange(0, nreads_guess + 1) for _ in range(2)})     # connectionLost offered twice
    sc['reason'] = rng.choice(['done', 'lost'])
    return sc


def gen(rng, nmech):
    r = rng.random()
    if r < 0.4:
        sc = gen_accept(rng, nmech)
    elif r < 0.55:
        sc = gen_reject_all(rng, nmech)
    else:
        sc = gen_mixed(rng, nmech)
    return with_losses(rng, sc, nreads_guess=len(sc['cuts']) + 1)


def close_everywhere(rng, nmech, nbase):
    """Base scripts cut into many reads; connectionLost before every read and after the last."""
    out = []
    for _ in range(nbase):
        base = rng.choice([gen_accept, gen_accept, gen_reject_all, gen_mixed])(rng, nmech)
        if len(base['cuts']) < 2:
            base['cuts'] = sorted(rng.randrange(1, 1000) for _ in range(rng.randint(3, 7)))
        if base.get('clean') == 'reject-all':
            base['clean'] = None
        for k in range(len(set(base['cuts'])) + 2):
            sc = dict(base)
            sc['lost'] = [k]
            out.append(sc)
    return out


def fixed_scenarios(nmech):
    """The named script kinds, whole lines, each once with and once without the reactor's connectionLost."""
    out = []
    rej = [hx(b'REJECTED')]
    ok = hx(b'OK ' + GUID)
    for unix in (False, True):
        fd = [hx(b'AGREE_UNIX_FD')] if unix else []
        for k in range(nmech):                                  # accept each mechanism
            for hello in ('N', 'E', 'U', 'G', '-'):
                for lost in ([], [99]):
                    out.append({'cah': 1, 'unix': unix, 'lines': rej * k + [ok] + fd, 'hello': hello, 'name': ':1.42',
                                'cuts': [], 'lost': lost, 'clean': 'accept'})
                    out.append({'cah': 1, 'unix': unix, 'lines': rej * k + [ok] + fd, 'hello': hello, 'name': ':1.42',
                                'cuts': list(range(0, 1000, 37)), 'lost': lost, 'clean': 'accept'})
        for hello, before, after in (('N', '', 'X'), ('E', '', 'X'), ('U', '', 'SX'), ('N', 'S', 'SXS'), ('N', 'W', ''),
                                     ('-', 'S', 'X'), ('W', '', 'X'), ('E', 'SW', 'WX')):
            # messages before the answer; bytes on which binary mode raises AFTER the answer (T3 on a ready / failed connection)
            for cuts in ([], [990], list(range(0, 1000, 41))):
                for lost in ([], [99]):
                    out.append({'cah': 1, 'unix': unix, 'lines': [ok] + fd, 'hello': hello, 'name': ':1.42', 'before': before,
                                'after': after, 'trail': hx(b'xx'), 'cuts': cuts, 'lost': lost, 'clean': 'accept'})
        for lost in ([], [99], [nmech]):                        # reject all: silence afterwards / the follow-up
            out.append({'cah': 1, 'unix': unix, 'lines': rej * nmech, 'hello': '-', 'cuts': [], 'lost': lost,
                        'clean': 'reject-all'})
            out.append({'cah': 1, 'unix': unix, 'lines': rej * nmech, 'hello': '-', 'cuts': list(range(0, 1000, 91)),
                        'lost': lost, 'clean': None})
        for g in GARBAGE:                                       # garbage as the first line
            for lost in ([], [99]):
                out.append({'cah': 1, 'unix': unix, 'lines': [hx(g), ok], 'hello': 'N', 'cuts': [], 'lost': lost, 'clean': None})
        for lost in ([], [0], [1], [99]):                       # silence, then close
            out.append({'cah': 1, 'unix': unix, 'lines': [], 'hello': '-', 'cuts': [], 'lost': lost, 'clean': None})
            out.append({'cah': 1, 'unix': unix, 'lines': [ok] + fd, 'hello': '-', 'cuts': [], 'lost': lost, 'clean': None})
    return out


# ----------------------------------------------------------------------------------------------------------------

def check(ctx, F, scenarios, stream=STREAM):
    runs = []
    for sc in scenarios:
        o = execute(F, sc)
        ctx.impl_trace()
        runs.append(o)
    usable = [(sc, o) for sc, o in zip(scenarios, runs) if o.skip is None]
    out = ctx.model([model_line(F, sc, o) for sc, o in usable])
    k = 0
    for sc, o in zip(scenarios, runs):
        ctx.case(stream, sample=sc, nontrivial=bool(sc['lines']) or bool(sc.get('lost')))
        if o.skip is not None:
            # the harness could not write the script for this client (it cannot predict the serial of the Hello call,
            # or makeConnection raised): the stream does NOT hold for this scenario - a broken obligation, never silence
            ctx.stat('cah:not-executable')
            ctx.disagree(stream, sc, 'scenario not executable', o.skip)
            continue
        m = model_view(out[k]) if out is not None else None
        k += 1
        impl = impl_view(o)
        ctx.stat('cah:fired=' + (o.fired[0][0] if o.fired else 'nothing'))
        ctx.stat('cah:end=' + ('auth' if o.auth else 'closed-by-client' if o.closed_at is not None else 'line-mode')
                 + ('+lost' if o.lost_at is not None else ''))
        ctx.stat('cah:reads=%d' % min(len([s for s in o.eff if s != 'l']) // 2 * 2, 12))
        if o.raised:
            ctx.stat('cah:raised=' + o.raised[0].split(' ')[0])
        if m is not None and m != impl:
            ctx.disagree(stream, sc, m, impl)
        for key, what, observed, expected in judge(F, sc, o):
            ctx.violation(key, what, inp=sc, observed=observed, expected=expected)


def run_stream(ctx, M, tmp, corpus=()):
    nmech = len(getattr(M.client.DBusClientConnection.authenticator, 'preference', [0, 0, 0]))
    with Fixture(M, tmp) as F:
        if corpus:
            check(ctx, F, list(corpus))
        check(ctx, F, fixed_scenarios(nmech))
        n = ctx.scale(quick=1500, thorough=20000)
        check(ctx, F, [gen(ctx.rng, nmech) for _ in range(n)])
        check(ctx, F, close_everywhere(ctx.rng, nmech, ctx.scale(quick=60, thorough=1200)))


def replay_one(ctx, M, sc):
    import shutil
    import tempfile
    tmp = tempfile.mkdtemp(prefix='verif-c09-cah-')
    try:
        with Fixture(M, tmp) as F:
            check(ctx, F, [sc])
    finally:
        shutil.rmtree(tmp, ignore_errors=True)
